----------------------------- MODULE Primitives -----------------------------
(* Design layer of X10, shaped like the main() coroutines of gallia.commands.primitive.uds.* on top of
   ECU.set_session / ECU.check_and_set_session and the UDS client's retry loop: one action per await point.

     Setup    UDSScanner.setup: wait_for_ecu (one TesterPresent)
     Session  which session procedure the command uses: none (vin), set_session (wdbi unless session 1, ecu-reset
              always, ping if given, dtc .. unless session 1), set_session + check_and_set_session (rtcl, iocbi, rmba,
              wmba, dddi ..)
     Dsc      DiagnosticSessionControl (the ECU enters the session / refuses / answers positively and stays)
     Read     ReadDataByIdentifier F186 inside check_and_set_session (answered / identifier not supported / silent)
     Sleep    asyncio.sleep(stop_delay | results_delay | interval)
     Send     one attempt of the UDS client for the next request (a silent ECU is retried MaxRetry times)
     RepPos / RepNeg   the log records after a positive / negative response
     Finish, Judge

   With all deviation constants FALSE this is the REPAIRED design (findings X10-..: the result of
   check_and_set_session is evaluated, the session is requested before it is checked, dtc .. enter --session); the
   deviation constants re-introduce those defects and some further mutations as negative controls.
   The environment is chosen in Init: how the ECU treats DiagnosticSessionControl and the session read, and a
   script of answer classes for the subject requests.  Judge evaluates the contract on the recorded history. *)
EXTENDS PrimitivesContract

CONSTANTS
  Cfgs,          \* [kind, opt, session]
  DscModes,      \* subset of {"ok", "neg", "nostick"}
  SreadModes,    \* subset of {"ok", "unsup", "sil"}
  AnsClasses,    \* subset of {"pos", "neg49", "neg51", "neg20", "sil"}
  NAns,          \* length of the answer script (further requests: "pos")
  MaxRetry,      \* retries of the UDS client
  Retries,       \* check_and_set_session: retries
  Dev_IgnoreCheckResult,     \* finding X10-session-check-result-ignored (rtcl, iocbi, rmba, wmba, dddi)
  Dev_NoSetBeforeCheck,      \* finding X10-session-not-requested-when-unreadable
  Dev_DtcSessionIgnored,     \* finding X10-dtc-session-option-ignored
  Dev_ExitZeroOnRefusal,     \* a refused session ends the command with exit status 0
  Dev_SuccessOnNegative,     \* "Success" also after a negative response
  Dev_StopSendsStart,        \* stopRoutine sent with sub-function 01
  Dev_SendTwice,             \* the request is sent a second time
  Dev_PingOneMore,           \* count + 1 pings
  Dev_NoDelay,               \* stop_delay / results_delay / interval not slept
  Dev_SwapAlfi,              \* addressAndLengthFormatIdentifier nibbles swapped
  Dev_DataNotReported        \* the returned data record is not logged

VARIABLES C, env, pc, stage, chk, wl, dl, wi, att, nsub, slept, twice, last, truth, now, hist, done, verdict
vars == <<C, env, pc, stage, chk, wl, dl, wi, att, nsub, slept, twice, last, truth, now, hist, done, verdict>>

Data    == <<202, 254>>
DtcData == <<18, 52, 86, 8, 171, 205, 239, 64>>

Mode(kind) == CASE kind \in {"rtcl", "iocbi", "rmba", "wmba", "dddiid", "dddimem", "dddiclear"} -> "check"
                [] kind \in {"wdbi", "reset", "ping"} -> "set"
                [] kind \in {"dtcread", "dtcclear", "dtcctl"} -> IF Dev_DtcSessionIgnored THEN "none" ELSE "set"
                [] OTHER -> "none"

Q(t, t2, p, r, nrc, a, ph) == [k |-> "q", t |-> t, t2 |-> t2, p |-> p, r |-> r, nrc |-> nrc, a |-> a, ms |-> now,
                               ph |-> ph, ib |-> FALSE]
Res(tok) == [k |-> "res", tok |-> tok, ms |-> now, ph |-> "main"]
Err(nrcs, tok) == [k |-> "err", nrcs |-> nrcs, tok |-> tok, ms |-> now, ph |-> "main"]

Pad(s) == IF s = <<>> THEN <<0>> ELSE s
LeftPad(s, n) == [i \in 1..(n - Len(s)) |-> 0] \o s
MaxLen(ss) == IF ss = <<>> THEN 1 ELSE CHOOSE n \in {Len(Pad(ss[i])) : i \in DOMAIN ss} :
                                           \A i \in DOMAIN ss : Len(Pad(ss[i])) <= n
Alfi(al, sl) == IF Dev_SwapAlfi THEN al * 16 + sl ELSE sl * 16 + al

\* the design's encoding of one wanted pattern of the contract
Enc(w) ==
  CASE w.m = "exact"  -> IF Dev_StopSendsStart /\ Len(w.p) >= 2 /\ w.p[1] = 49 /\ w.p[2] = 2
                         THEN [w.p EXCEPT ![2] = 1] ELSE w.p
    [] w.m = "prefix" -> w.p \o (IF C.opt.cp = 4 THEN <<>> ELSE <<C.opt.cp>>) \o C.opt.state \o C.opt.mask
    [] w.m = "either" -> <<133, IF C.opt.stop THEN 2 ELSE 1>>
    [] w.m = "mem"    -> w.h \o <<Alfi(Len(Pad(w.addr)), Len(Pad(w.size)))>> \o Pad(w.addr) \o Pad(w.size) \o w.data
    [] w.m = "dmem"   -> LET al == IF w.fmt # 0 THEN w.fmt % 16 ELSE MaxLen([i \in DOMAIN w.src |-> w.src[i][1]])
                             sl == IF w.fmt # 0 THEN w.fmt \div 16 ELSE MaxLen([i \in DOMAIN w.src |-> w.src[i][2]])
                         IN <<44, 2>> \o Did(w.did) \o <<Alfi(al, sl)>>
                            \o Flat([i \in DOMAIN w.src |-> LeftPad(w.src[i][1], al) \o LeftPad(w.src[i][2], sl)])

PosAns(p) ==
  CASE C.kind = "rtcl"    -> <<113>> \o SubSeq(p, 2, 4) \o Data
    [] C.kind = "iocbi"   -> <<111>> \o SubSeq(p, 2, 3) \o (IF C.opt.cp = 4 THEN <<>> ELSE <<p[4]>>) \o Data
    [] C.kind = "rmba"    -> <<99>> \o Data
    [] C.kind = "vin"     -> <<98, 241, 144>> \o Data
    [] C.kind = "dtcread" -> <<89, 2, 255>> \o DtcData
    [] OTHER -> <<p[1] + 64>>

NrcOf(cls) == CASE cls = "neg49" -> 49 [] cls = "neg51" -> 51 [] cls = "neg20" -> 20 [] OTHER -> 0

Init ==
  /\ C \in Cfgs
  /\ env \in [dsc : DscModes, sread : SreadModes, ans : [1..NAns -> AnsClasses]]
  /\ pc = "Setup" /\ stage = "first" /\ chk = 0 /\ wl = <<>> /\ dl = <<>> /\ wi = 1 /\ att = 0 /\ nsub = 0
  /\ slept = FALSE /\ twice = FALSE /\ last = <<>> /\ truth = 1 /\ now = 0 /\ hist = <<>> /\ done = "?" /\ verdict = "?"

X0 == [kind |-> C.kind, opt |-> C.opt, session |-> C.session]

Setup ==
  /\ pc = "Setup"
  /\ IF ~C.opt.valid /\ C.kind # "dtcclear"
     THEN /\ done' = "cfg" /\ pc' = "Judge" /\ UNCHANGED <<hist, now, wl, dl>>
     ELSE /\ now' = 500
          /\ hist' = <<[Q(1, 1, <<62, 0>>, "pos", 0, <<126, 0>>, "setup") EXCEPT !.ms = 500]>>
          /\ LET W == Want(X0)
                 n == IF C.kind = "ping" /\ Dev_PingOneMore THEN Len(W) + 1 ELSE Len(W)
             IN /\ wl' = [i \in 1..n |-> Enc(W[IF i > Len(W) THEN Len(W) ELSE i])]
                /\ dl' = [i \in 1..n |-> W[IF i > Len(W) THEN Len(W) ELSE i].d]
          /\ done' = done /\ pc' = "Session"
  /\ UNCHANGED <<C, env, stage, chk, wi, att, nsub, slept, twice, last, truth, verdict>>

Session ==
  /\ pc = "Session"
  /\ LET s == C.session
         m == Mode(C.kind)
     IN pc' = IF m = "none" \/ s = 0 THEN "Send"
              ELSE IF m = "set" THEN (IF C.kind \notin {"reset", "ping"} /\ s = 1 THEN "Send" ELSE "Dsc")
              ELSE IF s # 1 /\ ~Dev_NoSetBeforeCheck THEN "Dsc" ELSE "Read"
  /\ UNCHANGED <<C, env, stage, chk, wl, dl, wi, att, nsub, slept, twice, last, truth, now, hist, done, verdict>>

Dsc ==
  /\ pc = "Dsc"
  /\ LET s == C.session
         p == <<16, s>>
     IN CASE env.dsc = "ok" ->
               /\ hist' = Append(hist, Q(truth, s, p, "pos", 0, <<80, s>>, "main"))
               /\ truth' = s
               /\ pc' = IF Mode(C.kind) = "check" THEN "Read" ELSE "Send"
               /\ done' = done
          [] env.dsc = "nostick" ->
               /\ hist' = Append(hist, Q(truth, truth, p, "pos", 0, <<80, s>>, "main"))
               /\ truth' = truth
               /\ pc' = IF Mode(C.kind) = "check" THEN "Read" ELSE "Send"
               /\ done' = done
          [] env.dsc = "neg" ->
               /\ hist' = hist \o <<Q(truth, truth, p, "neg", 34, <<127, 16, 34>>, "main"), Err(<<34>>, <<>>)>>
               /\ truth' = truth
               /\ IF stage = "first"
                  THEN /\ pc' = "Judge"
                       /\ done' = IF C.kind = "reset" \/ Dev_ExitZeroOnRefusal THEN "ok" ELSE "exit1"
                  ELSE pc' = "Read" /\ done' = done
  /\ UNCHANGED <<C, env, stage, chk, wl, dl, wi, att, nsub, slept, twice, last, now, verdict>>

\* check_and_set_session: read; mismatch: (set, read) up to Retries + 1 times; False afterwards
Read ==
  /\ pc = "Read"
  /\ LET s == C.session
         p == <<34, 241, 134>>
     IN CASE env.sread = "unsup" ->
               /\ hist' = Append(hist, Q(truth, truth, p, "neg", 49, <<127, 34, 49>>, "main"))
               /\ pc' = "Send" /\ now' = now /\ UNCHANGED <<stage, chk, done>>
          [] env.sread = "sil" ->
               /\ hist' = Append(hist, Q(truth, truth, p, "sil", 0, <<>>, "main"))
               /\ pc' = "Send" /\ now' = now + 2000 * (Retries + 1) /\ UNCHANGED <<stage, chk, done>>
          [] env.sread = "ok" ->
               /\ hist' = Append(hist, Q(truth, truth, p, "pos", 0, <<98, 241, 134, truth>>, "main"))
                          \o (IF truth # s /\ chk > Retries /\ ~Dev_IgnoreCheckResult THEN <<Err(<<>>, <<>>)>> ELSE <<>>)
               /\ now' = now
               /\ IF truth = s THEN pc' = "Send" /\ UNCHANGED <<stage, chk, done>>
                  ELSE IF chk <= Retries THEN pc' = "Dsc" /\ stage' = "loop" /\ chk' = chk + 1 /\ done' = done
                  ELSE IF Dev_IgnoreCheckResult THEN pc' = "Send" /\ UNCHANGED <<stage, chk, done>>
                  ELSE pc' = "Judge" /\ done' = "exit1" /\ UNCHANGED <<stage, chk>>
  /\ UNCHANGED <<C, env, wl, dl, wi, att, nsub, slept, twice, last, truth, verdict>>

Sleep ==
  /\ pc = "Send" /\ wi <= Len(wl) /\ ~slept
  /\ slept' = TRUE
  /\ now' = IF Dev_NoDelay THEN now ELSE now + dl[wi]
  /\ UNCHANGED <<C, env, pc, stage, chk, wl, dl, wi, att, nsub, twice, last, truth, hist, done, verdict>>

Send ==
  /\ pc = "Send" /\ (wi > Len(wl) \/ slept)
  /\ IF wi > Len(wl)
     THEN pc' = "Finish" /\ UNCHANGED <<att, nsub, last, truth, now, hist, done>>
     ELSE LET p   == wl[wi]
              cls == IF nsub < NAns THEN env.ans[nsub + 1] ELSE "pos"
              t2  == IF cls = "pos" /\ p[1] = 17 THEN 1 ELSE truth
          IN /\ nsub' = nsub + 1
             /\ truth' = t2
             /\ CASE cls = "pos" ->
                       /\ hist' = Append(hist, Q(truth, t2, p, "pos", 0, PosAns(p), "main"))
                       /\ last' = <<"pos", 0>> /\ pc' = "RepPos" /\ UNCHANGED <<att, now, done>>
                  [] cls = "sil" ->
                       /\ now' = now + 2000
                       /\ IF att < MaxRetry
                          THEN /\ hist' = Append(hist, Q(truth, truth, p, "sil", 0, <<>>, "main"))
                               /\ att' = att + 1 /\ pc' = "Send" /\ UNCHANGED <<last, done>>
                          ELSE /\ hist' = Append(hist, Q(truth, truth, p, "sil", 0, <<>>, "main"))
                                          \o (IF C.kind = "reset" THEN <<[Err(<<>>, <<>>) EXCEPT !.ms = now + 2000]>> ELSE <<>>)
                               /\ done' = IF C.kind = "reset" THEN "ok" ELSE "exc"
                               /\ pc' = "Judge" /\ UNCHANGED <<att, last>>
                  [] OTHER ->
                       /\ hist' = Append(hist, Q(truth, truth, p, "neg", NrcOf(cls), <<127, p[1], NrcOf(cls)>>, "main"))
                       /\ last' = <<"neg", NrcOf(cls)>> /\ pc' = "RepNeg" /\ UNCHANGED <<att, now, done>>
  /\ UNCHANGED <<C, env, stage, chk, wl, dl, wi, slept, twice, verdict>>

RepPos ==
  /\ pc = "RepPos"
  /\ LET tok == IF Dev_DataNotReported THEN <<>> ELSE <<Data>>
     IN hist' = hist \o
          (CASE C.kind \in {"rtcl", "iocbi", "rmba", "vin"} -> <<Res(<<>>), Res(tok)>>
             [] C.kind = "dtcread" -> IF Dev_DataNotReported THEN <<>>
                                      ELSE <<Err(<<>>, <<<<18, 52, 86>>, <<8>>>>), Res(<<<<171, 205, 239>>, <<64>>>>)>>
             [] C.kind = "dtcctl" -> <<>>
             [] OTHER -> <<Res(<<>>)>>)
  /\ IF Dev_SendTwice /\ ~twice
     THEN twice' = TRUE /\ UNCHANGED <<wi, slept, att>>
     ELSE twice' = twice /\ wi' = wi + 1 /\ slept' = FALSE /\ att' = 0
  /\ pc' = "Send"
  /\ UNCHANGED <<C, env, stage, chk, wl, dl, nsub, last, truth, now, done, verdict>>

RepNeg ==
  /\ pc = "RepNeg"
  /\ LET nrc == last[2]
         split == C.kind = "dtcread" /\ nrc = TOOLONG
         bits == SetToSortSeq(Bits(C.opt.mask), LAMBDA a, b : a < b)
     IN /\ hist' = hist \o (IF C.kind = "dtcctl" THEN <<>>
                            ELSE IF split THEN <<Err(<<>>, <<>>)>>
                            ELSE <<Err(<<nrc>>, <<>>)>> \o (IF Dev_SuccessOnNegative THEN <<Res(<<>>)>> ELSE <<>>))
        /\ IF split /\ wi = 1
           THEN /\ wl' = wl \o [i \in DOMAIN bits |-> <<25, 2, bits[i]>>]
                /\ dl' = dl \o [i \in DOMAIN bits |-> 0]
           ELSE UNCHANGED <<wl, dl>>
        /\ IF C.kind = "dtcread" /\ ~split
           THEN done' = "exit1" /\ pc' = "Judge" /\ UNCHANGED <<wi, slept, att>>
           ELSE done' = done /\ pc' = "Send" /\ wi' = wi + 1 /\ slept' = FALSE /\ att' = 0
  /\ UNCHANGED <<C, env, stage, chk, nsub, twice, last, truth, now, verdict>>

Finish ==
  /\ pc = "Finish"
  /\ done' = (IF C.opt.valid THEN "ok" ELSE "exc")     \* dtc clear out of range: error record, then the encoder raises
  /\ pc' = "Judge"
  /\ UNCHANGED <<C, env, stage, chk, wl, dl, wi, att, nsub, slept, twice, last, truth, now, hist, verdict>>

Judge ==
  /\ pc = "Judge"
  /\ verdict' = PrimVerdict([kind |-> C.kind, opt |-> C.opt, session |-> C.session, ev |-> hist, done |-> done])
  /\ pc' = "Done"
  /\ UNCHANGED <<C, env, stage, chk, wl, dl, wi, att, nsub, slept, twice, last, truth, now, hist, done>>

Next == Setup \/ Session \/ Dsc \/ Read \/ Sleep \/ Send \/ RepPos \/ RepNeg \/ Finish \/ Judge
Spec == Init /\ [][Next]_vars /\ WF_vars(Next)

Done == pc = "Done"
TypeOK == pc \in {"Setup", "Session", "Dsc", "Read", "Send", "RepPos", "RepNeg", "Finish", "Judge", "Done"}
R0_Inv        == verdict # "R0/command-does-not-terminate"
R1_Reject_Inv == verdict # "R1/documented-option-combination-rejected"
R1_Invalid_Inv == verdict # "R1/request-sent-for-an-option-combination-documented-as-invalid"
R1_Shape_Inv  == verdict # "R1/request-differs-from-what-the-options-describe"
R1_Once_Inv   == verdict # "R1/request-sent-more-often-than-documented"
R1_Sent_Inv   == verdict # "R1/request-not-sent"
R2_Session_Inv == verdict # "R2/request-sent-in-another-session"
R3_Refused_Inv == verdict # "R3/request-sent-although-the-session-was-refused"
R3_RefusedExit_Inv == verdict # "R3/refused-session-not-reported-as-failure"
R3_Check_Inv  == verdict # "R3/request-sent-although-the-session-check-failed"
R3_CheckExit_Inv == verdict # "R3/failed-session-check-not-reported-as-failure"
R4_Delay_Inv  == verdict # "R4/request-sent-earlier-than-the-documented-delay"
R4_Interval_Inv == verdict # "R4/pings-further-apart-than-the-documented-interval"
O1_Pos_Inv    == verdict # "O1/positive-response-not-reported"
O1_Exit_Inv   == verdict # "O1/positive-outcome-reported-as-failure"
O2_Nrc_Inv    == verdict # "O2/negative-response-code-not-reported"
O2_Success_Inv == verdict # "O2/negative-response-reported-as-success"
O2_Exit_Inv   == verdict # "O2/negative-response-not-reflected-in-the-exit-status"
O3_Data_Inv   == verdict # "O3/returned-data-not-reported"
O3_Dtc_Inv    == verdict # "O3/trouble-code-not-reported"
O4_Silent_Inv == verdict # "O4/success-reported-for-a-request-that-was-never-answered"
VerdictOk     == Done => verdict = "ok"
Progress      == pc # "Done" => ENABLED Next
=============================================================================
