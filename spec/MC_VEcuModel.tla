---------------------------- MODULE MC_VEcuModel ----------------------------
(* Model-checking wrapper for VEcuModel: tuples cannot be written in a cfg. *)
EXTENDS VEcuModel
Cand4 == {1, 2, 3, 4}
Cand3 == {1, 2, 3}
Cand234 == {2, 3, 4}
Mand1 == <<1>>
MandNone == <<>>
Mand42 == <<4, 2>>
Mand13 == <<1, 3>>
Mand14 == <<1, 4>>
=============================================================================
