SPECIFICATION Spec
CHECK_DEADLOCK FALSE
CONSTANTS
  Addrs <- Addrs2
  BehNames <- BehCore
  Export = TRUE
  Dev_S1_ReversedRangeEmpty = FALSE
  Dev_S2_DropAfterAnswerLosesResult = FALSE
  Dev_S3_OddAnswerAborts = FALSE
INVARIANT Inv_P1_EveryAddressProbed
INVARIANT Inv_P2_OnlyConfigured
INVARIANT Inv_P3_Order
INVARIANT Inv_F1_FoundSound
INVARIANT Inv_F2_FoundComplete
INVARIANT Inv_T0_NoAbort
INVARIANT Inv_Verdict
