SPECIFICATION Spec
CONSTANTS
  Sents <- MCSentsBig
  Timeouts <- MCTimeouts
  Dev_S14_PartialLineAtEof = FALSE
INVARIANT TypeOK
INVARIANT MonitorWellFormed
INVARIANT T1_PrefixOnePerRead
INVARIANT T2_TimeoutConsumesNothing
INVARIANT T3_EndOfStreamDistinct
INVARIANT DeliveredPrefix
INVARIANT MonitorInSync
INVARIANT FramingRefined
PROPERTY T2_Action
PROPERTY Terminates
PROPERTY AllDelivered
CHECK_DEADLOCK FALSE
