---------------------------- MODULE MC_TargetUri ----------------------------
(* Enumerated case families for the design layer of TargetUri. *)
EXTENDS TargetUri

MCHostClasses == {"dns", "v4", "v6full", "v6c", "v6z"}
MCHostOf(hc) ==
  CASE hc = "dns" -> <<101, 99, 117, 49>>   \* ecu1
    [] hc = "v4" -> <<49, 48, 46, 48, 46, 48, 46, 57>>   \* 10.0.0.9
    [] hc = "v6full" -> <<102, 101, 56, 48, 58, 48, 58, 48, 58, 48, 58, 48, 58, 48, 58, 48, 58, 49>>   \* fe80:0:0:0:0:0:0:1
    [] hc = "v6c" -> <<102, 101, 56, 48, 58, 58, 49>>   \* fe80::1
    [] hc = "v6z" -> <<102, 101, 56, 48, 58, 58, 49, 37, 101, 48>>   \* fe80::1%e0

Req(tr) == {i \in 1..Len(Fields(tr)) : Fields(tr)[i].req}
All(tr) == 1..Len(Fields(tr))
\* quick: the mandatory settings, plus each optional one, minus each mandatory one, all, none
Q_Subs(tr) == {Req(tr), All(tr), {}} \cup {Req(tr) \cup {i} : i \in All(tr)}
              \cup {Req(tr) \ {i} : i \in Req(tr)} \cup {All(tr) \ {i} : i \in All(tr)}
\* thorough: additionally every subset of the transport's settings (16 + 8 + 1024)
\* in the scanners' own notation and in the mixed one
T_Subs(tr) == SUBSET All(tr)
NoSubs(tr) == {}
\* small: liveness / negative controls
S_Subs(tr) == {Req(tr), All(tr)}
=============================================================================
