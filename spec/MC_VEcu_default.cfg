SPECIFICATION Spec
CONSTANTS
  M <- MCM
  SfSids <- MCSfSids
  ReqSeq <- MCReqSeq
  BFamily <- BFamDefault
  Export = FALSE
  CheckE4 = FALSE
  Dev_S20_RuleOffRaises = TRUE
  Dev_S20b_UnofferedSessionAsserts = TRUE
INVARIANT TypeOK
INVARIANT E4_NoRaise
INVARIANT E_Verdict
INVARIANT A2_Unconditional
CHECK_DEADLOCK FALSE
