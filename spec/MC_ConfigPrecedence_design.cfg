SPECIFICATION Spec
CONSTANTS
  Classes <- AllClasses
  Strict = TRUE
  Dev_S29_AnnotatedFieldsLoseConfigMeta = FALSE
  Dev_S30_PositionalIgnoresDefaults = FALSE
INVARIANT TypeOK
INVARIANT Q12_Contract
INVARIANT Q1_Effective
INVARIANT Q2_NotIgnored
INVARIANT Q2_NamesSource
PROPERTY Terminates
CHECK_DEADLOCK FALSE
