----------------------------- MODULE DbWriterInd -----------------------------
(* The database writer of X03 / C11 (spec/DbWriter.tla: same variables, same actions) in a form Apalache can
   type, with an INDUCTIVE invariant: whatever the number of logged exchanges (N), the number of transient write
   failures (Faults, any natural number) and the length of the behaviour,

       rows \o queue  =  <<1, 2, ..., nlogged>>

   i.e. what has been written plus what is still queued is exactly what was logged, in order (W1..W3 at every
   moment, not only at the end).  With Dev_RequeueAtTail (the behaviour as found, repaired by 28c0fca) the
   inductive step fails.  DbWriter refines this module (TLC: MC_DbWriterRefine.cfg). *)
EXTENDS Naturals, Sequences

CONSTANTS
  \* @type: Int;
  N,
  \* @type: Int;
  Faults,
  \* @type: Bool;
  Dev_RequeueAtTail

VARIABLES
  \* @type: Int;
  nlogged,
  \* @type: Seq(Int);
  queue,
  \* @type: Seq(Int);
  rows,
  \* @type: Int;
  budget,
  \* @type: Bool;
  closing,
  \* @type: Bool;
  ended

vars == <<nlogged, queue, rows, budget, closing, ended>>

Init == nlogged = 0 /\ queue = <<>> /\ rows = <<>> /\ budget = Faults /\ closing = FALSE /\ ended = FALSE

Log == /\ ~closing /\ nlogged < N
       /\ nlogged' = nlogged + 1 /\ queue' = Append(queue, nlogged + 1)
       /\ UNCHANGED <<rows, budget, closing, ended>>

WriteOk == /\ queue # <<>> /\ rows' = Append(rows, Head(queue)) /\ queue' = Tail(queue)
           /\ UNCHANGED <<nlogged, budget, closing, ended>>

WriteFail == /\ queue # <<>> /\ budget > 0 /\ budget' = budget - 1
             /\ queue' = IF Dev_RequeueAtTail THEN Append(Tail(queue), Head(queue)) ELSE queue
             /\ UNCHANGED <<nlogged, rows, closing, ended>>

Close == /\ ~closing /\ nlogged = N /\ closing' = TRUE /\ UNCHANGED <<nlogged, queue, rows, budget, ended>>
Joined == /\ closing /\ ~ended /\ queue = <<>> /\ ended' = TRUE /\ UNCHANGED <<nlogged, queue, rows, budget, closing>>

Next == Log \/ WriteOk \/ WriteFail \/ Close \/ Joined
Spec == Init /\ [][Next]_vars

------------------------------------------------------------------------------
IndInv ==
  /\ nlogged \in 0..N
  /\ budget \in 0..Faults
  /\ Len(rows) + Len(queue) = nlogged
  /\ \A i \in DOMAIN rows : rows[i] = i
  /\ \A i \in DOMAIN queue : queue[i] = Len(rows) + i
  /\ closing => nlogged = N
  /\ ended => (closing /\ queue = <<>>)

\* W1..W3 once disconnect() has returned: the table is exactly the logged sequence
AtEnd == ended => (Len(rows) = N /\ \A i \in DOMAIN rows : rows[i] = i)
\* ... and at every moment the table is a prefix of it, in order, without duplicates
Prefix == Len(rows) <= nlogged /\ \A i \in DOMAIN rows : rows[i] = i
Safety == AtEnd /\ Prefix
=============================================================================
