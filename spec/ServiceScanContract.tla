----------------------- MODULE ServiceScanContract -----------------------
(* Property C10, first sentence (service scan), contract layer: operators only.

   "Against any ECU model, the service scan
      (V1a) reports in each requested session only services the ECU implements in that session,
      (V1b) reports every implemented service that answers any of the probe lengths with something
            other than a not-supported or length error,
      (V3)  probes every service id 0x00-0xFF  (V5: response ids only when asked)
      (V2)  exactly in the session it claims,
      (V4)  and leaves out what the skip option names."

   Nothing here is taken from the scanner's code: no probe order, no payload content, no
   number of probes per service id.  The probe lengths PL are a parameter of the ECU model
   (the lengths the property record names); extra probes of other lengths are tolerated.

   ---------------------------------------------------------------- data
   Response classes (integers, shared with the harness):                                   *)
EXTENDS Naturals, Sequences, FiniteSets, SequencesExt, TLC

SNS    == 0   \* negative response serviceNotSupported (0x11)
SNSIAS == 1   \* negative response serviceNotSupportedInActiveSession (0x7F)
LENERR == 2   \* negative response incorrectMessageLengthOrInvalidFormat (0x13)
NONE   == 3   \* no answer
POS    == 4   \* positive response
NEG    == 5   \* any other negative response

Meaningful(c) == c \notin {SNS, SNSIAS, LENERR, NONE}
NotSupp(c)    == c \in {SNS, SNSIAS}

(* ECU model E (ground truth, independent of the scanner):
     E.pl              sequence of probe payload lengths the tables are indexed by
     E.dom             set of sessions for which a table is given
     E.ans[<<s,sid>>]  sequence (same index as E.pl) of response classes of the ECU in session s
                       to a request  sid ++ (pl[i] payload bytes)
     E.impl[<<s,sid>>] TRUE iff the ECU implements service sid in session s
   Configuration C (what the user's option strings DENOTE; written down before they were rendered
   into the range grammar and handed to the scanner):
     C.has      a session list was given            C.req      the requested sessions (a set)
     C.skipAll  sessions the skip option names completely
     C.skip     set of <<session, sid>> the skip option names
     C.respIds  response ids (bit 6 set) were asked for
     C.tp       a cyclic TesterPresent / initial ping is configured (3E 00 then is not a probe)
     C.start    the ECU's session when the scan starts (used when no session list is given)
     C.reset    0, or the reset level given with --reset (the ECU is reset after every session)
     C.U        the service-id universe (0..255; a small set in model checking)
   Event e = <<t, n, b0, b1, b2, r>>: a request seen BY THE ECU: t ground-truth session before the
   request, n its length, b0.. its first bytes (256 = absent), r the class of the ECU's answer.   *)

EvT(e)   == e[1]
EvN(e)   == e[2]
EvSid(e) == e[3]
EvR(e)   == e[6]

IsRespId(sid) == (sid \div 64) % 2 = 1          \* ISO 14229-1: bit 6 marks response service ids

\* session management requests (ISO layouts), everything else is a probe of service id b0
IsDsc(C, e)    == e[3] = 16 /\ e[2] = 2 /\ (e[4] % 128) \in (C.req \cup {1})
DscTarget(e)   == e[4] % 128
IsSessRead(e)  == e[2] = 3 /\ e[3] = 34 /\ e[4] = 241 /\ e[5] = 134      \* 22 F1 86
IsTP(C, e)     == C.tp /\ e[3] = 62 /\ e[2] = 2 /\ e[4] % 128 = 0         \* 3E 00 / 3E 80
\* --reset <level> ("Reset the ECU after every session"): the requested ECUReset is session management, not a
\* probe; after a positive answer the ECU is on its way to the default session and the scanner waits for it
\* (TesterPresent pings) -- until the next accepted session change no session is claimed (cl = -1)
IsResetReq(C, e) == C.reset # 0 /\ e[3] = 17 /\ e[2] = 2 /\ e[4] % 128 = C.reset
IsPing(e)        == e[3] = 62 /\ e[2] = 2 /\ e[4] % 128 = 0
IsProbe(C, e)  == ~IsDsc(C, e) /\ ~IsSessRead(e) /\ ~IsTP(C, e) /\ ~IsResetReq(C, e)

PlIndex(E, n) == {i \in 1..Len(E.pl) : E.pl[i] = n}

\* the session a probe is CLAIMED to belong to = target of the last session change the ECU accepted
\* (0 = none yet).  Folded over the events, together with what the clauses need.
A0 == [cl |-> 0, att |-> {}, ent |-> {}, pr |-> {}, wrong |-> {}, m0 |-> {}]

Step(C, E, a, e) ==
  IF IsDsc(C, e) THEN
       [a EXCEPT !.att = @ \cup {DscTarget(e)},
                 !.ent = IF EvR(e) = POS THEN @ \cup {DscTarget(e)} ELSE @,
                 !.cl  = IF EvR(e) = POS THEN DscTarget(e) ELSE @]
  ELSE IF IsResetReq(C, e) THEN (IF EvR(e) = POS THEN [a EXCEPT !.cl = -1] ELSE a)
  ELSE IF ~IsProbe(C, e) \/ (a.cl = -1 /\ IsPing(e)) THEN a
  ELSE [a EXCEPT !.pr    = @ \cup {<<a.cl, EvSid(e)>>},
                 !.wrong = IF C.has /\ (EvT(e) # a.cl \/ a.cl \notin C.req)
                           THEN @ \cup {<<a.cl, EvT(e), EvSid(e)>>} ELSE @,
                 \* harness self-check: the fake ECU answered as its model says
                 !.m0    = IF /\ <<EvT(e), EvSid(e)>> \in DOMAIN E.ans
                              /\ \E i \in PlIndex(E, EvN(e) - 1) : E.ans[<<EvT(e), EvSid(e)>>][i] # EvR(e)
                           THEN @ \cup {<<EvT(e), EvSid(e), EvN(e) - 1>>} ELSE @]

Acc(C, E, ev) == FoldLeft(LAMBDA a, e : Step(C, E, a, e), A0, ev)

----------------------------------------------------------------------------
\* sessions that count as scanned: requested, not skipped as a whole, and entered at least once
\* (the ECU accepted a change to it); without a session list: the pseudo session 0 = "current"
Scanned(C, a)   == IF C.has THEN {s \in C.req \ C.skipAll : s \in a.ent} ELSE {0}
TruthOf(C, s)   == IF C.has THEN s ELSE C.start
Filtered(C, s, sid) == (IsRespId(sid) /\ ~C.respIds) \/ (C.has /\ <<s, sid>> \in C.skip)

May(C, E, s, sid) ==
  LET k == <<TruthOf(C, s), sid>> IN
  k \in DOMAIN E.ans /\ E.impl[k] /\ \E i \in 1..Len(E.pl) : Meaningful(E.ans[k][i])
\* an ECU whose answer to one length is "not supported" while another length is answered is
\* contradictory; the statement does not say what to report then (unspecified: both accepted)
Must(C, E, s, sid) ==
  May(C, E, s, sid) /\ \A i \in 1..Len(E.pl) : ~NotSupp(E.ans[<<TruthOf(C, s), sid>>][i])

Expected(C, E, a) == {p \in Scanned(C, a) \X C.U : ~Filtered(C, p[1], p[2]) /\ Must(C, E, p[1], p[2])}
Allowed(C, E, a)  == {p \in Scanned(C, a) \X C.U : ~Filtered(C, p[1], p[2]) /\ May(C, E, p[1], p[2])}

\* the reported set; without a session list the session key of the report is a convention -> dropped
Reported(C, result) == IF C.has THEN result ELSE {<<0, p[2]>> : p \in result}

M0_FakeConsistent(C, E, a)  == a.m0 = {} /\ \A s \in Scanned(C, a) : \A sid \in C.U : <<TruthOf(C, s), sid>> \in DOMAIN E.ans
V2_ProbesInSession(C, a)    == a.wrong = {}
V4_SkippedNotProbed(C, a)   == \A p \in a.pr : ~(C.has /\ (p[1] \in C.skipAll \/ p \in C.skip))
V5_RespIdsOnlyIfAsked(C, a) == C.respIds \/ \A p \in a.pr : ~IsRespId(p[2])
V3_Attempted(C, a)          == C.has => \A s \in C.req \ C.skipAll : s \in a.att
\* (with a cyclic TesterPresent the probe 3E 00 cannot be told from the keep-alive: 0x3E is exempt then)
V3_AllProbed(C, a)          == \A s \in Scanned(C, a) : \A sid \in C.U :
                                  (~Filtered(C, s, sid) /\ ~(C.tp /\ sid = 62)) => <<s, sid>> \in a.pr
V1a_OnlySupported(C, E, a, result) == Reported(C, result) \subseteq Allowed(C, E, a)
V1b_AllSupported(C, E, a, result)  == Expected(C, E, a) \subseteq Reported(C, result)

\* total verdict of one execution: "ok" or the label of the first clause broken
Verdict(C, E, ev, result) ==
  LET a == Acc(C, E, ev) IN
  IF ~M0_FakeConsistent(C, E, a)          THEN "M0/fake-ecu-inconsistent-with-its-model"
  ELSE IF ~V2_ProbesInSession(C, a)       THEN "V2/probe-outside-claimed-session"
  ELSE IF ~V4_SkippedNotProbed(C, a)      THEN "V4/skipped-was-probed"
  ELSE IF ~V5_RespIdsOnlyIfAsked(C, a)    THEN "V5/response-id-probed-unasked"
  ELSE IF ~V3_Attempted(C, a)             THEN "V3/requested-session-not-attempted"
  ELSE IF ~V3_AllProbed(C, a)             THEN "V3/service-id-not-probed"
  ELSE IF ~V1a_OnlySupported(C, E, a, result) THEN "V1/reported-but-not-supported"
  ELSE IF ~V1b_AllSupported(C, E, a, result)  THEN "V1/supported-but-not-reported"
  ELSE "ok"

\* number of (session, sid) pairs whose expected report the statement leaves open
Unspecified(C, E, ev) == LET a == Acc(C, E, ev) IN Cardinality(Allowed(C, E, a) \ Expected(C, E, a))
=============================================================================
