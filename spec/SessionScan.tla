----------------------------- MODULE SessionScan -----------------------------
(* Design layer of C09: the level-wise search of
   gallia/commands/scan/uds/sessions.py (SessionsScanner.main / _recover_stack),
   one action per loop head / await point, against an ECU whose session
   transitions are the edge set E.  E, the depth, the skip list and `thorough`
   are chosen in Init, so TLC ranges over ALL graphs of the configured family and
   all option values in one run.  Checked against SessionScanContract (G1..G4).

     code                                   spec
     ------------------------------------   ---------------------------------
     while current_depth < depth and ...    DepthLoop            (pc = "Depth")
     for stack in found[current_depth-1]    StackLoop            (pc = "Stack")
     for session in sessions / skip test    ProbeLoop            (pc = "Probe")
     _recover_stack: await set_session(x)   RecoverStep          (pc = "Recover")
     await set_session(session)             Request              (pc = "Request")
     result list / session_transition rows  Report               (pc = "Report")
     sys.exit(1) when a stack is lost       pc = "Abort"

   The ECU (environment) is deterministic given E: a request for `s` in session
   `cur` is positive, and cur' = s, iff <<cur, s>> \in E.  Which negative response
   code a refusal carries does not influence found / result (only the list of
   "identified but not activated" sessions, which the statement does not mention).

   Deviation constants (all FALSE = the design as intended = the code as found):
   Appendix-B style mutants used as negative controls of the contract clauses.

   S16: RecoverStep re-enters the default session even when the user listed it in
   the skip option (the code does).  That breaks only the LITERAL reading of the
   skip sentence (G3_Literal, witness config MC_SessionScan_S16literal.cfg); the
   contract exempts the default session, see SessionScanContract.  There is hence
   no Dev_S16_* constant: nothing of the contract is weakened for it.          *)
EXTENDS SessionScanContract

CONSTANTS
  Sessions,     \* candidate session ids the scan probes (the code: 1..0x7F); contains Default.
                \* Keep at least one candidate that is no node of any graph: the code goes on
                \* probing (and re-enters the stack) after the last session the ECU knows.
  Graphs,       \* family of edge sets E ranges over (nodes \subseteq Sessions)
  Depths,       \* values of the depth option
  Skips,        \* values of the skip option (subsets of Sessions)
  Thoroughs,    \* subset of BOOLEAN
  KeepHist,     \* record the request sequence (spec -> code replay only)
  Dev_M1_DepthOffByOne,       \* `current_depth <= depth`
  Dev_M2_RecoverNeverSet,     \* recover_stack not set after a successful change
  Dev_M3_VisitedWrongElement, \* visited test looks at stack[0] instead of stack[-1]
  Dev_M4_SkipAfterRequest     \* skip list consulted only after the request was sent

VARIABLES E, depth, skip, thorough,      \* chosen in Init, constant afterwards
          cur,                            \* ECU: active session (ground truth)
          pc, d, found, si, searched, stack, pi, recover, rs, pos,
          requested, nreq, hist, result, rows, steps

cfgvars == <<E, depth, skip, thorough>>
vars == <<E, depth, skip, thorough, cur, pc, d, found, si, searched, stack, pi, recover, rs, pos,
          requested, nreq, hist, result, rows, steps>>

Last(s) == s[Len(s)]

\* ascending order of the candidate sessions (`for session in range(1, 0x80)`)
RECURSIVE Asc(_)
Asc(S) == IF S = {} THEN <<>>
          ELSE LET m == CHOOSE x \in S : \A y \in S : x <= y IN <<m>> \o Asc(S \ {m})
ProbeOrder == Asc(Sessions)

MaxDepth == CHOOSE m \in Depths : \A x \in Depths : x <= m

Init ==
  /\ E \in Graphs /\ depth \in Depths /\ skip \in Skips /\ thorough \in Thoroughs
  /\ cur = Default
  /\ pc = "Depth" /\ d = 0
  /\ found = [k \in 0..(MaxDepth + 1) |-> IF k = 0 THEN << <<Default>> >> ELSE <<>>]
  /\ si = 1 /\ searched = {} /\ stack = <<>> /\ pi = <<>> /\ recover = FALSE /\ rs = <<>>
  /\ pos = <<>> /\ requested = {} /\ nreq = 0 /\ hist = <<>>
  /\ result = {} /\ rows = {} /\ steps = 0

\* the ECU's reaction to DiagnosticSessionControl(s)
Accepts(s) == <<cur, s>> \in E
Send(s) == /\ requested' = requested \cup {s}
           /\ nreq' = nreq + 1
           /\ hist' = IF KeepHist THEN Append(hist, s) ELSE hist

Tick == steps' = steps + 1     \* every step of the scan is counted (D_Progress)

DepthLoop ==
  /\ Tick
  /\ pc = "Depth"
  /\ IF (IF Dev_M1_DepthOffByOne THEN d <= depth ELSE d < depth) /\ found[d] # <<>>
     THEN /\ d' = d + 1 /\ si' = 1 /\ pc' = "Stack"
          /\ found' = [found EXCEPT ![d + 1] = <<>>]
     ELSE /\ pc' = "Report" /\ UNCHANGED <<d, si, found>>
  /\ UNCHANGED <<cfgvars, cur, searched, stack, pi, recover, rs, pos, requested, nreq, hist, result, rows>>

StackLoop ==
  /\ Tick
  /\ pc = "Stack"
  /\ IF si > Len(found[d - 1])
     THEN pc' = "Depth" /\ UNCHANGED <<si, searched, stack, pi, recover>>
     ELSE LET st  == found[d - 1][si]
              key == IF Dev_M3_VisitedWrongElement THEN st[1] ELSE Last(st) IN
          IF ~thorough /\ key \in searched
          THEN si' = si + 1 /\ UNCHANGED <<pc, searched, stack, pi, recover>>
          ELSE /\ searched' = searched \cup {Last(st)}
               /\ stack' = st /\ pi' = ProbeOrder /\ recover' = TRUE /\ pc' = "Probe"
               /\ UNCHANGED si
  /\ UNCHANGED <<cfgvars, cur, d, found, rs, pos, requested, nreq, hist, result, rows>>

ProbeLoop ==
  /\ Tick
  /\ pc = "Probe"
  /\ IF pi = <<>>
     THEN si' = si + 1 /\ pc' = "Stack" /\ UNCHANGED <<pi, rs>>
     ELSE IF Head(pi) \in skip /\ ~Dev_M4_SkipAfterRequest
          THEN pi' = Tail(pi) /\ UNCHANGED <<pc, si, rs>>
          ELSE IF recover
               THEN rs' = stack /\ pc' = "Recover" /\ UNCHANGED <<pi, si>>
               ELSE pc' = "Request" /\ UNCHANGED <<pi, si, rs>>
  /\ UNCHANGED <<cfgvars, cur, d, found, searched, stack, recover, pos, requested, nreq, hist, result, rows>>

\* one `await set_session(x)` of _recover_stack (the stack always starts with Default)
RecoverStep ==
  /\ Tick
  /\ pc = "Recover"
  /\ IF rs = <<>>
     THEN /\ recover' = FALSE /\ pc' = "Request"
          /\ UNCHANGED <<cur, rs, requested, nreq, hist>>
     ELSE /\ Send(Head(rs))
          /\ IF Accepts(Head(rs))
             THEN cur' = Head(rs) /\ rs' = Tail(rs) /\ UNCHANGED <<pc, recover>>
             ELSE pc' = "Abort" /\ UNCHANGED <<cur, rs, recover>>        \* sys.exit(1)
  /\ UNCHANGED <<cfgvars, d, found, si, searched, stack, pi, pos, result, rows>>

\* `await set_session(session)` for the candidate at the head of pi
Request ==
  /\ Tick
  /\ pc = "Request"
  /\ LET s == Head(pi) IN
     /\ Send(s)
     /\ pi' = Tail(pi) /\ pc' = "Probe"
     /\ IF Dev_M4_SkipAfterRequest /\ s \in skip
        THEN /\ cur' = IF Accepts(s) THEN s ELSE cur
             /\ UNCHANGED <<found, pos, recover>>
        ELSE IF Accepts(s)
             THEN /\ cur' = s
                  /\ found' = IF thorough \/ s \notin Range(stack)
                              THEN [found EXCEPT ![d] = Append(@, Append(stack, s))]
                              ELSE found
                  /\ pos' = Append(pos, [s |-> s, st |-> stack])
                  /\ recover' = ~Dev_M2_RecoverNeverSet
             ELSE UNCHANGED <<cur, found, pos, recover>>   \* refused: session not left, no recovery
  /\ UNCHANGED <<cfgvars, d, si, searched, stack, rs, result, rows>>

\* sorted(positive_results): the reported sessions, each with the first stack it was found on
Report ==
  /\ Tick
  /\ pc = "Report"
  /\ result' = {pos[i].s : i \in DOMAIN pos}
  /\ rows' = {pos[i] : i \in {j \in DOMAIN pos : \A k \in 1..(j - 1) : pos[k].s # pos[j].s}}
  /\ pc' = "Done"
  /\ UNCHANGED <<cfgvars, cur, d, found, si, searched, stack, pi, recover, rs, pos, requested, nreq, hist>>

\* terminal states stutter explicitly so that TLC's deadlock check flags every OTHER stuck state
Terminated == pc \in {"Done", "Abort"} /\ UNCHANGED vars
Next == DepthLoop \/ StackLoop \/ ProbeLoop \/ RecoverStep \/ Request \/ Report \/ Terminated

Spec == Init /\ [][Next]_vars /\ WF_vars(Next)

----------------------------------------------------------------------------
(* ------------------------- properties (C09) ----------------------------- *)
Assumed == IsoAssumption(E, skip, depth)

TypeOK ==
  /\ pc \in {"Depth", "Stack", "Probe", "Recover", "Request", "Report", "Done", "Abort"}
  /\ cur \in Sessions /\ d \in 0..(MaxDepth + 1) /\ recover \in BOOLEAN
  /\ requested \subseteq Sessions /\ result \subseteq Sessions

G1_Result    == pc = "Done" /\ Assumed => G1(E, skip, depth, result)
G2_Stacks    == pc = "Done" /\ Assumed => G2_HasStack(result, rows) /\ G2_RealPath(E, result, rows)
G3_Skip      == G3(requested, skip, TRUE)
G3_Literal   == G3(requested, skip, FALSE)       \* S16: literal reading, NOT an invariant of the design
G4_NoAbort   == pc = "Abort" => ~Assumed
\* nreq only grows: checking the bound when the scan ends covers every earlier state
G4_Bound_Inv == pc = "Done" /\ Assumed => G4_Bound(E, skip, depth, Cardinality(Sessions), nreq)
G4_Terminates == <>(pc \in {"Done", "Abort"})
Verdict_Ok   == pc = "Done" /\ Assumed =>
                  Verdict(E, skip, depth, Cardinality(Sessions), requested, nreq, result, rows, "done") = "ok"
\* design-only: whenever a candidate is requested the ECU really is where the scan believes it is
D_Tracks     == pc = "Request" /\ cur # Last(stack) => ~Assumed
\* termination as a safety property: every step is counted and the count stays below a closed-form
\* cap (a cycle would exceed it; a stuck non-terminal state is a TLC deadlock)
NS == Cardinality(Sessions)
StepCap == 8 * (NS + 1) * (depth + 2) * (NS + 1) ^ depth
D_Progress   == steps <= StepCap
\* the skip list and the other options never change
D_CfgConst   == [][UNCHANGED cfgvars]_vars
=============================================================================
