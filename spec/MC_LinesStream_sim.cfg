SPECIFICATION Spec
CONSTANTS
  Sents <- MCSentsSim
  Timeouts <- MCTimeouts
  Dev_S14_PartialLineAtEof = FALSE
INVARIANT T1_PrefixOnePerRead
INVARIANT T2_TimeoutConsumesNothing
INVARIANT T3_EndOfStreamDistinct
CHECK_DEADLOCK FALSE
