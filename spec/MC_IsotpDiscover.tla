-------------------------- MODULE MC_IsotpDiscover --------------------------
(* Model-checking instances of the X14 design layer (small constants, exhaustive). *)
EXTENDS IsotpDiscover

BehAll  == {"silent", "sf", "neg", "ff", "fc", "two", "bcast", "slow", "late", "echo", "echo_sf", "idleans", "gap", "lowid"}
BehCore == {"silent", "sf", "two", "bcast", "slow", "late", "echo_sf", "idleans", "gap", "lowid"}
BehTiny == {"silent", "sf", "bcast", "slow", "gap", "lowid", "two"}
PadNone == -1
PadAA == 170
Ids2 == 16..17
Ids3 == 16..18
Ids4 == 16..19
=============================================================================
