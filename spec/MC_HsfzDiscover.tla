-------------------------- MODULE MC_HsfzDiscover --------------------------
(* Model-checking instances of the X12 part 1 design layer (small constants, exhaustive). *)
EXTENDS HsfzDiscover

BehAll   == {"silent", "ackonly", "pos", "neg", "pos300", "pos800", "ack300pos", "lateack", "err43", "ackerr43",
             "close", "ack_close", "pos_close", "neg_close", "pos_err", "pospos", "odd", "odd_pos", "far", "far_pos"}
BehCore  == {"silent", "ackonly", "pos", "neg", "pos800", "err43", "ackerr43", "close", "pos_close", "odd", "far_pos"}
BehSmall == {"silent", "pos", "err43", "pos_close", "odd"}
Addrs2 == 16..17
Addrs3 == 16..18
Addrs4 == 16..19
=============================================================================
