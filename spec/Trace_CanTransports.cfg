SPECIFICATION TSpec
CHECK_DEADLOCK FALSE
