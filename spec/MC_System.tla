---- MODULE MC_System ----
EXTENDS System
ScriptABA == <<"a", "b", "a">>
ScriptABC == <<"a", "b", "c">>
====
