------------------------------- MODULE Xcp -------------------------------
(* DESIGN LAYER, part 2: the request/response sequence of gallia's XCP master, shaped like the code.

     XCPService.request          write the command packet, ONE read, header check (0xFF or ValueError), strip
     CANXCPSerivce.request       sendto(slave id); loop recvfrom() until a frame for the master id; header check
     connect/get_status/...      request(), then the construct decoders (XcpCodec), then "-> OK"
     SimpleTestXCP.main          connect, get_status, get_comm_mode_info, disconnect, each through
                                 catch_and_log_exception (Prim = TRUE); setup/teardown own the connection

   One action per await point: Call (build + write the packet), the environment's answer to the pending read
   (EnvAnswer / EnvForeign / EnvSilence / EnvEmpty), Finish (teardown).  TLC checks every completed call against
   XcpContract!CallVerdict and a completed primitive run against XcpContract!PrimVerdict.

   Deviation constants (negative controls; the first two reproduce what the current tree does):
     Dev_F1_CanNoDeadline    as found: every recvfrom() of the CAN loop gets a fresh timeout (no overall deadline)
     Dev_F2_TwoConnections   as found: setup connects twice, the command talks over the first connection,
                             teardown closes the second
     Dev_ErrAsOk             the header check lets 0xFE through
     Dev_CanNoFilter         the CAN loop takes the first frame, whatever its id
     Dev_NoCatch             the primitive stops at the first failing step
     Dev_WrongCode           GET_COMM_MODE_INFO sent with the code of SYNCH (0xFC)
     Dev_SwallowTimeout      a timeout is turned into a ValueError                                             *)
EXTENDS XcpCodec

CONSTANTS
  Kind,        \* "raw" | "can"
  Script,      \* the calls of the caller: sequence of [m |-> method, arg |-> 0..255 | -1 | out of range]
  Answers,     \* packets the slave may answer with
  Master, Slave, ForeignId,
  TimeoutMs,   \* XCPService.timeout
  GapMs,       \* distance between two foreign frames on the bus
  MaxForeign,  \* foreign frames the bus carries during one call
  Prim,        \* TRUE: the caller is SimpleTestXCP (setup, main, teardown); FALSE: a caller that makes the
               \* calls of Script one after the other whatever they return (the harness sessions)
  Dev_F1_CanNoDeadline, Dev_F2_TwoConnections, Dev_ErrAsOk, Dev_CanNoFilter, Dev_NoCatch, Dev_WrongCode,
  Dev_SwallowTimeout

VARIABLES pc, k, io, clock, lastRecv, nf, bo, mon, hist, lastV, nU

vars == <<pc, k, io, clock, lastRecv, nf, bo, mon, hist, lastV, nU>>

Cfg == [kind |-> Kind, master |-> Master, slave |-> Slave, timeoutMs |-> TimeoutMs]

Exc(c) == CASE c = "TimeoutError" -> <<"TimeoutError", "OSError", "Exception">>
            [] c = "StreamError"  -> <<"StreamError", "ConstructError", "Exception">>
            [] OTHER              -> <<c, "Exception">>

NoDec == ("_" :> 0)

Init ==
  /\ pc = "Idle" /\ k = 1 /\ io = <<>> /\ clock = 0 /\ lastRecv = 0 /\ nf = 0
  /\ bo = "none" /\ mon = {} /\ hist = <<>> /\ lastV = "ok" /\ nU = 0

Cur == Script[k]

\* the command packet the method builds
Packet(m, arg) ==
  CASE m = "connect"            -> <<255, 0>>
    [] m = "disconnect"         -> <<254, 0>>
    [] m = "get_status"         -> <<253>>
    [] m = "get_comm_mode_info" -> IF Dev_WrongCode THEN <<252>> ELSE <<251>>
    [] m = "get_id"             -> <<250, arg>>
    [] m = "upload"             -> <<245, arg>>

\* the call returns / raises: record it, let the contract judge it, go on
Complete(evs, out, exc, dec, hasdec, newbo) ==
  LET call == [m |-> Cur.m, arg |-> Cur.arg, io |-> evs, out |-> out, exc |-> exc, okline |-> out = "ok",
               hasdec |-> hasdec, dec |-> dec, ms |-> clock']
      v == CallVerdict(Cfg, call, mon) IN
  /\ hist' = Append(hist, call)
  /\ lastV' = IF lastV = "ok" THEN v.v ELSE lastV
  /\ nU' = nU + v.u
  /\ mon' = v.bo
  /\ bo' = newbo
  /\ io' = <<>> /\ nf' = 0
  /\ IF out = "exc" /\ Prim /\ Dev_NoCatch THEN pc' = "Teardown" /\ k' = k
     ELSE IF k = Len(Script) THEN pc' = "Teardown" /\ k' = k
     ELSE pc' = "Idle" /\ k' = k + 1

Raise(evs, c)  == Complete(evs, "exc", Exc(c), NoDec, FALSE, bo)

\* bytes([0xFA, id_]) refuses values outside 0..255 before anything is sent
Call ==
  /\ pc = "Idle" /\ k <= Len(Script)
  /\ IF HasArg(Cur.m) /\ Cur.arg \notin 0..255
     THEN clock' = 0 /\ lastRecv' = 0 /\ Raise(<<>>, "ValueError")
     ELSE /\ io' = <<[e |-> "W", d |-> Packet(Cur.m, Cur.arg), to |-> IF Kind = "can" THEN Slave ELSE -1]>>
          /\ pc' = "Wait" /\ clock' = 0 /\ lastRecv' = 0
          /\ UNCHANGED <<k, nf, bo, mon, hist, lastV, nU>>

\* header check + decoders, on the packet taken as the answer
Decide(evs, resp) ==
  LET m == Cur.m IN
  IF Len(resp) = 0 THEN Raise(evs, "StreamError")
  ELSE IF resp[1] # 255 /\ ~(Dev_ErrAsOk /\ resp[1] = 254) THEN Raise(evs, "ValueError")
  ELSE LET p == Strip(resp) IN
       IF m = "connect" THEN
            LET nb == DConnectPartialBo(p) IN
            IF nb = "none" THEN Raise(evs, "StreamError")
            ELSE LET x == DConnect(nb, p) IN
                 IF IsErr(x) THEN Complete(evs, "exc", Exc("StreamError"), NoDec, FALSE, nb)   \* byte_order already set
                 ELSE Complete(evs, "ok", <<>>, x, TRUE, nb)
       ELSE IF m \in {"get_status", "get_comm_mode_info", "get_id"} THEN
            IF bo = "none" THEN Raise(evs, "AttributeError")
            ELSE LET x == Decode(m, bo, resp) IN
                 IF IsErr(x) THEN Raise(evs, "StreamError") ELSE Complete(evs, "ok", <<>>, x, TRUE, bo)
       ELSE Complete(evs, "ok", <<>>, DRaw(p), TRUE, bo)

Deadline == IF Kind = "can" /\ Dev_F1_CanNoDeadline THEN lastRecv + TimeoutMs ELSE TimeoutMs

EnvAnswer(a) ==
  /\ pc = "Wait"
  /\ clock' = clock /\ UNCHANGED lastRecv
  /\ Decide(Append(io, [e |-> "R", d |-> a, from |-> IF Kind = "can" THEN Master ELSE -1]), a)

\* CAN only: a frame of another node; the loop reads on
EnvForeign(a) ==
  /\ pc = "Wait" /\ Kind = "can" /\ nf < MaxForeign
  /\ clock + GapMs < Deadline
  /\ clock' = clock + GapMs /\ lastRecv' = clock + GapMs
  /\ LET evs == Append(io, [e |-> "R", d |-> a, from |-> ForeignId]) IN
     IF Dev_CanNoFilter THEN Decide(evs, a)
     ELSE io' = evs /\ nf' = nf + 1 /\ UNCHANGED <<pc, k, bo, mon, hist, lastV, nU>>

EnvSilence ==
  /\ pc = "Wait"
  /\ clock' = Deadline /\ UNCHANGED lastRecv
  /\ Raise(Append(io, [e |-> "T", ms |-> Deadline - lastRecv]),
           IF Dev_SwallowTimeout THEN "ValueError" ELSE "TimeoutError")

\* stream transports: the peer closed the connection, read() returns b""
EnvEmpty ==
  /\ pc = "Wait" /\ Kind = "raw"
  /\ clock' = clock /\ UNCHANGED lastRecv
  /\ Raise(Append(io, [e |-> "Empty"]), "StreamError")

\* SimpleTestXCP: setup()/teardown() around main()
PrimRecord ==
  LET ws == SelectSeq(hist, LAMBDA c : Len(c.io) > 0) IN
  [pk |-> [i \in DOMAIN ws |-> [c |-> 1, d |-> ws[i].io[1].d]],
   conns |-> IF Dev_F2_TwoConnections THEN <<[closed |-> 0], [closed |-> 1]>> ELSE <<[closed |-> 1]>>,
   accepted |-> 1, done |-> "ok"]

Teardown ==
  /\ pc = "Teardown"
  /\ pc' = "Done"
  /\ lastV' = IF lastV = "ok" /\ Prim THEN PrimVerdict(PrimRecord).v ELSE lastV
  /\ UNCHANGED <<k, io, clock, lastRecv, nf, bo, mon, hist, nU>>

Next == Call \/ (\E a \in Answers : EnvAnswer(a) \/ EnvForeign(a)) \/ EnvSilence \/ EnvEmpty \/ Teardown

Spec == Init /\ [][Next]_vars /\ WF_vars(Next)

----------------------------------------------------------------------------
(* one INVARIANT per clause family, so that TLC names the family; lastV holds the label *)
SLabels == {"S0/out-of-range-parameter-not-refused", "S1/no-command-packet-sent-first",
            "S1/more-than-one-command-packet", "S2/command-packet-bytes", "S3/command-not-addressed-to-the-slave"}
RLabels == {"R0/returned-without-awaiting-an-answer", "R1/transport-used-after-the-answer"}
TLabels == {"T1/silence-not-reported-as-TimeoutError", "T1/silence-reported-ok",
            "T2/timeout-later-than-the-request-timeout", "T2/request-never-ends"}
ELabels == {"E1/error-packet-reported-ok-or-decoded", "E2/error-packet-reported-as-timeout",
            "N1/no-response-packet-but-reported-ok"}
PLabels == {"P1/positive-response-not-reported-ok"}
QLabels == {"Q1/commands-out-of-the-documented-order", "Q1/step-not-attempted-after-a-failed-step", "Q1/extra-command",
            "Q2/run-does-not-terminate", "Q2/run-ended-by-an-exception", "Q3/connection-used-for-xcp-never-closed"}

S_Send_Inv     == lastV \notin SLabels
R_OneAnswer_Inv == lastV \notin RLabels
T_Timeout_Inv  == lastV \notin TLabels
E_Error_Inv    == lastV \notin ELabels
P_Positive_Inv == lastV \notin PLabels
Q_Primitive_Inv == lastV \notin QLabels
D_Decode_Inv   == lastV \in {"ok"} \cup SLabels \cup RLabels \cup TLabels \cup ELabels \cup PLabels \cup QLabels

Terminates == <>(pc = "Done")
TypeOK == /\ pc \in {"Idle", "Wait", "Teardown", "Done"}
          /\ k \in 1..Len(Script) /\ bo \in {"none", "INTEL", "MOTOROLA"}
          /\ mon \subseteq {"INTEL", "MOTOROLA"}
=============================================================================
