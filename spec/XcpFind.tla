------------------------------ MODULE XcpFind ------------------------------
(* DESIGN LAYER of `discover xcp tcp` / `discover xcp udp` (find_xcp.py: TcpFindXCP.main, UdpFindXCP.test_udp),
   shaped like the code: one action per port of the configured list -- connect (TCP), send the Ethernet-framed
   CONNECT, one recv(), classify, `finally:` DISCONNECT + close -- with the environment choosing what the port
   does.  Checked against XcpContract!FindVerdict when the scan has ended.

   Deviation constants (negative controls):
     Dev_F3_UdpShortAborts  as found: UDP: an answer shorter than the 4 byte header raises struct.error, which only
                            the TCP variant catches -- the scan ends there
     Dev_NoDisconnect       the `finally: xcp_disconnect()` is missing
     Dev_ReportAny          every answering port is reported as XCP slave
     Dev_NoHeader           the probe is sent without the LEN/CTR header
     Dev_StopAtSilent       a silent port ends the scan                                                        *)
EXTENDS XcpContract

CONSTANTS Udp, Ports, Classes,
          Dev_F3_UdpShortAborts, Dev_NoDisconnect, Dev_ReportAny, Dev_NoHeader, Dev_StopAtSilent

VARIABLES pc, i, seen, reported, finished, done
fvars == <<pc, i, seen, reported, finished, done>>

Hdr(pkt, ctr) == <<Len(pkt) % 256, Len(pkt) \div 256, ctr % 256, ctr \div 256>> \o pkt
ProbeFrame == IF Dev_NoHeader THEN <<255, 0>> ELSE Hdr(<<255, 0>>, 0)
DiscFrame  == Hdr(<<254, 0>>, 1)

AnswerOf(c) == CASE c = "xcp"   -> <<8, 0, 0, 0, 255, 21, 192, 8, 8, 0, 1, 1>>
                 [] c = "err"   -> <<2, 0, 0, 0, 254, 32>>
                 [] c = "other" -> <<72, 84, 84, 80, 47>>
                 [] c = "short" -> <<1, 0>>
                 [] c = "hdr"   -> <<0, 0, 0, 0>>
                 [] OTHER       -> <<>>
Answers(c) == c \in {"xcp", "err", "other", "short", "hdr"}

FInit == pc = "Port" /\ i = 1 /\ seen = <<>> /\ reported = <<>> /\ finished = -1 /\ done = "?"

\* what the scanner concludes from one recv()
IsSlave(c) == Answers(c) /\ (Dev_ReportAny \/ (Len(AnswerOf(c)) > 4 /\ AnswerOf(c)[5] = 255))
Aborts(c)  == \/ Udp /\ Dev_F3_UdpShortAborts /\ Answers(c) /\ Len(AnswerOf(c)) < 4
              \/ Dev_StopAtSilent /\ c = "silent"

Probe(c) ==
  /\ pc = "Port" /\ i <= Len(Ports)
  /\ c = "closed" => ~Udp          \* a UDP datagram can always be sent
  /\ c = "eof" => ~Udp
  /\ LET open == IF c = "closed" THEN 0 ELSE 1
         rx   == IF c = "closed" THEN <<>>
                 ELSE <<ProbeFrame>> \o (IF Dev_NoDisconnect \/ c = "eof" THEN <<>> ELSE <<DiscFrame>>)
         p    == [port |-> Ports[i], open |-> open, alive |-> IF c = "eof" THEN 0 ELSE open, rx |-> rx,
                  answered |-> IF Answers(c) THEN 1 ELSE 0, answer |-> AnswerOf(c)]
     IN /\ seen' = Append(seen, p)
        /\ reported' = IF IsSlave(c) THEN Append(reported, Ports[i]) ELSE reported
        /\ IF Aborts(c) THEN pc' = "Done" /\ done' = "exc:error" /\ UNCHANGED <<i, finished>>
           ELSE IF i = Len(Ports) THEN pc' = "Done" /\ done' = "ok" /\ finished' = Len(reported') /\ UNCHANGED i
           ELSE i' = i + 1 /\ UNCHANGED <<pc, done, finished>>

FNext == \E c \in Classes : Probe(c)
FSpec == FInit /\ [][FNext]_fvars /\ WF_fvars(FNext)

\* ports the scan never reached appear in the record as unprobed ports of the configured list
Record ==
  [udp |-> IF Udp THEN 1 ELSE 0,
   ports |-> seen \o [j \in 1..(Len(Ports) - Len(seen)) |->
                        [port |-> Ports[Len(seen) + j], open |-> 1, alive |-> 1, rx |-> <<>>, answered |-> 0, answer |-> <<>>]],
   reported |-> reported, finished |-> finished, done |-> done]

F_Find_Inv   == pc = "Done" => FindVerdict(Record).v = "ok"
FTerminates  == <>(pc = "Done")
=============================================================================
