------------------------- MODULE Trace_SessionScan -------------------------
(* Code -> spec: validates recorded executions of the real SessionsScanner
   (full stack: scanner, ECU client, tcp-lines transport, virtual-ECU server
   loop, default response chain) against the CONTRACT layer of C09.  The probe
   order, the number of recoveries and the response codes of refusals are free.

   One initial state per recorded scan; the verdict is total.  A record:
     id, sessions (of the ECU model), E (list of [from, to]), depth, skip, thorough,
     reqs: every DiagnosticSessionControl request the ECU model received, with its
           ground truth, as a 4-tuple <<requested, session before, ok (0/1), session after>>,
     nother: number of other requests (tester present ...),
     result: SessionsScanner.result,  rows: session_transition rows [s, st],
     end: "done" | "exit" | "exc" | "hang".
   B0 is not a clause of the property: it says the harness's ECU model did not
   behave like the graph it was given (machinery failure, or the self-test mutant). *)
EXTENDS SessionScanContract, Json, IOUtils

Batch == JsonDeserialize(IOEnv.TRACE_FILE)
T == Batch.traces

VARIABLES tid, verdict
tvars == <<tid, verdict>>

SeqSet(q) == {q[i] : i \in 1..Len(q)}
Edges(x) == {<<x.E[i][1], x.E[i][2]>> : i \in 1..Len(x.E)}

\* candidate sessions of ISO 14229-1 (sub-function values 0x01..0x7F)
NCandIso == 127

\* an entry with requested = 0 is an ECUReset the model performed (scanner option --reset): not a session
\* change request; it puts the ECU back into the default session
IsReset(r) == r[1] = 0
ModelConsistent(x) ==
  LET G == Edges(x) IN
  \A i \in 1..Len(x.reqs) :
    LET r == x.reqs[i] IN
    /\ IF IsReset(r) THEN r[4] = Default
       ELSE /\ (r[3] = 1) = (<<r[2], r[1]>> \in G)
            /\ r[4] = (IF r[3] = 1 THEN r[1] ELSE r[2])
    /\ r[2] = (IF i = 1 THEN Default ELSE x.reqs[i - 1][4])

Requested(x) == {x.reqs[i][1] : i \in {j \in 1..Len(x.reqs) : ~IsReset(x.reqs[j])}}

FullVerdict(x) ==
  IF ~ModelConsistent(x) THEN "B0/ecu-model-inconsistent-with-its-graph"
  ELSE Verdict(Edges(x), SeqSet(x.skip), x.depth, NCandIso,
               Requested(x), Len(x.reqs) + x.nother,
               SeqSet(x.result), SeqSet(x.rows), x.end)

\* informational notes (never verdicts)
\*  S16      the literal reading of "skipped sessions are never requested" is broken
\*           (only possible for the exempted default session once the verdict is ok)
\*  rowsX    session_transition rows for sessions that are not reported as found
\*           ("identified but not activated"): the statement is silent about them
Notes(x) ==
  <<IF ~G3(Requested(x), SeqSet(x.skip), FALSE) THEN "S16" ELSE "",
    IF \E r \in SeqSet(x.rows) : r.s \notin SeqSet(x.result) THEN "rowsX" ELSE "",
    IF Default \in SeqSet(x.skip) /\ Default \in SeqSet(x.result) THEN "default-reported-though-skipped" ELSE "">>

TInit == tid \in 1..Len(T) /\ verdict = "?"
TNext == /\ verdict = "?"
         /\ verdict' = FullVerdict(T[tid])
         /\ tid' = tid
         /\ PrintT(<<"V", T[tid].id, verdict', Notes(T[tid])>>)
TSpec == TInit /\ [][TNext]_tvars
=============================================================================
