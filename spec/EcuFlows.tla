------------------------------- MODULE EcuFlows -------------------------------
(* Design layer of X11: the flows of gallia's ECU class shaped like the code (src/gallia/services/uds/ecu.py), one
   action per await point, against an abstract ECU.  A case = [c |-> the Start event (the call's arguments),
   E |-> the environment]; Init picks one from Cfgs.  Every event the real harness would record is fed to the
   contract monitor (EcuFlowsContract!Step) and appended to hist (spec -> code replays hist's environment).

   set      set_session:    pre hook, DSC(level), database fall-back (nested set_session(step, use_db=False) per
                            stored step, then DSC(level) again), post hook
   leave    leave_session:  ECUReset(1); refused: power_cycle + reconnect; wait_for_ecu; set_session(1); refused:
                            power_cycle + reconnect; return True.  Time in ms; wait_for_ecu = sleep 500 / ping (500
                            when unanswered) until answered or 10 s
   xfer     transmit_data:  blocks of min(block_length, max_block_length) - 2 payload bytes, counter & 0xFF, exit
   refresh  refresh_state:  optional reset, read_session, update_state
   book     update_state after raw exchanges chosen by the environment

   Deviation constants (all FALSE: the design meets the contract; one TRUE: TLC must find a counterexample):
     Dev_S1_FallbackStepsIgnoreSkipHooks   the nested set_session(step) calls run with a default config: hooks run
                                           although the caller said skip_hooks (the code as found)
     Dev_S2_TinyBlockLengthSendsNothing    block_length < 2: range() with a negative step is empty, nothing is
                                           transferred, RequestTransferExit is sent and the call returns normally
                                           (the code as found)
     Dev_NoCounterWrap, Dev_NoWaitAfterReset, Dev_NoPowerCycle, Dev_NoDbFallback, Dev_RefreshIgnoresAnswer,
     Dev_KeyLevelOffByOne, Dev_NoPostHook   mutations of the Appendix-B kind
*)
EXTENDS EcuFlowsContract

CONSTANTS Cfgs, BookSymbols, BookLen,
          Dev_S1_FallbackStepsIgnoreSkipHooks, Dev_S2_TinyBlockLengthSendsNothing,
          Dev_NoCounterWrap, Dev_NoWaitAfterReset, Dev_NoPowerCycle, Dev_NoDbFallback, Dev_RefreshIgnoresAnswer,
          Dev_KeyLevelOffByOne, Dev_NoPostHook

VARIABLES c, E, pc, l, mon, hist
vars == <<c, E, pc, l, mon, hist>>

L0(x) == [ecu |-> IF x.c.flow = "leave" THEN x.c.level ELSE IF x.c.flow \in {"set", "refresh", "book"} THEN x.c.s0 ELSE 2,
          cs |-> IF x.c.flow = "xfer" THEN 2 ELSE x.c.s0, csec |-> IF x.c.flow = "xfer" THEN -1 ELSE x.c.sec0,
          todo |-> <<>>, wok |-> "pos", resp |-> "none",
          now |-> 0, upAt |-> 0, dead |-> FALSE, stage |-> 1, after |-> "none", wdl |-> 0,
          k |-> 0, pos |-> 0, i |-> 0]

StartPc(f) == CASE f = "set" -> "s_pre" [] f = "leave" -> "l_reset" [] f = "xfer" -> "x_start"
                [] f = "refresh" -> "r_start" [] f = "book" -> "b_step"

Init == \E x \in Cfgs : /\ c = x.c /\ E = x.E /\ pc = StartPc(x.c.flow) /\ l = L0(x)
                        /\ mon = Step(M0, x.c) /\ hist = <<x.c>>

Emit(evs) ==   \* evs: a sequence of events produced by this step
  /\ hist' = hist \o evs
  /\ UNCHANGED <<c, E>>
  /\ mon' = IF Len(evs) = 0 THEN mon
            ELSE IF Len(evs) = 1 THEN Step(mon, evs[1])
            ELSE IF Len(evs) = 2 THEN Step(Step(mon, evs[1]), evs[2])
            ELSE Step(Step(Step(mon, evs[1]), evs[2]), evs[3])
Hook(w, s) == [e |-> "Hook", which |-> w, level |-> s]
RetEv(v) == [e |-> "Ret", val |-> v, sess |-> l.cs, sec |-> l.csec]
RetEvS(v, s, sc) == [e |-> "Ret", val |-> v, sess |-> s, sec |-> sc]

-----------------------------------------------------------------------------
(* set_session *)
DscOut(s) == IF s \in E.edges[l.ecu] THEN "pos" ELSE "neg"
AfterDsc(s, out) == [l EXCEPT !.ecu = IF out = "pos" THEN s ELSE @, !.cs = IF out = "pos" THEN s ELSE @,
                              !.csec = IF out = "pos" THEN -1 ELSE @]
NestedSkip == IF Dev_S1_FallbackStepsIgnoreSkipHooks THEN FALSE ELSE c.skip

SPre == /\ pc = "s_pre" /\ Emit(IF c.skip THEN <<>> ELSE <<Hook("pre", c.level)>>) /\ pc' = "s_dsc1" /\ UNCHANGED l
SDsc1 == /\ pc = "s_dsc1"
         /\ LET out == DscOut(c.level) IN
            /\ Emit(<<[e |-> "Dsc", s |-> c.level, out |-> out]>>)
            /\ l' = [AfterDsc(c.level, out) EXCEPT !.resp = out]
            /\ pc' = IF out = "neg" /\ c.hasdb /\ c.usedb /\ ~Dev_NoDbFallback THEN "s_db" ELSE "s_post"
SDb == /\ pc = "s_db"
       /\ LET found == Len(c.rows) > 0
              steps == IF found THEN c.rows[1] ELSE <<>> IN
          /\ Emit(<<[e |-> "Db", dest |-> c.level, found |-> found, steps |-> steps]>>)
          /\ l' = [l EXCEPT !.todo = steps]
          /\ pc' = IF ~found THEN "s_post" ELSE IF Len(steps) = 0 THEN "s_dsc2" ELSE "w_pre"
WPre == /\ pc = "w_pre" /\ Emit(IF NestedSkip THEN <<>> ELSE <<Hook("pre", Head(l.todo))>>) /\ pc' = "w_dsc"
        /\ UNCHANGED l
WDsc == /\ pc = "w_dsc"
        /\ LET s == Head(l.todo)
               out == DscOut(s) IN
           /\ Emit(<<[e |-> "Dsc", s |-> s, out |-> out]>>)
           /\ l' = [AfterDsc(s, out) EXCEPT !.wok = out]
           /\ pc' = "w_post"
WPost == /\ pc = "w_post"
         /\ Emit(IF ~NestedSkip /\ l.wok = "pos" THEN <<Hook("post", Head(l.todo))>> ELSE <<>>)
         /\ l' = [l EXCEPT !.todo = Tail(@)]
         /\ pc' = IF Len(l.todo) = 1 THEN "s_dsc2" ELSE "w_pre"
SDsc2 == /\ pc = "s_dsc2"
         /\ LET out == DscOut(c.level) IN
            /\ Emit(<<[e |-> "Dsc", s |-> c.level, out |-> out]>>)
            /\ l' = [AfterDsc(c.level, out) EXCEPT !.resp = out]
            /\ pc' = "s_post"
SPost == /\ pc = "s_post"
         /\ Emit(IF ~c.skip /\ l.resp = "pos" /\ ~Dev_NoPostHook THEN <<Hook("post", c.level)>> ELSE <<>>)
         /\ pc' = "s_ret" /\ UNCHANGED l
SRet == /\ pc = "s_ret" /\ Emit(<<RetEv(l.resp)>>) /\ pc' = "done" /\ UNCHANGED l
SetNext == SPre \/ SDsc1 \/ SDb \/ WPre \/ WDsc \/ WPost \/ SDsc2 \/ SPost \/ SRet

-----------------------------------------------------------------------------
(* leave_session *)
Sleep == IF c.sleep >= 0 THEN c.sleep ELSE 5000   \* power_cycle(sleep: float = 5)
Up == ~l.dead /\ l.now >= l.upAt

LReset ==
  /\ pc = "l_reset"
  /\ Emit(<<[e |-> "Reset", sub |-> 1, out |-> E.reset]>>)
  /\ IF E.reset = "pos"
       THEN /\ l' = [l EXCEPT !.ecu = 1, !.cs = 1, !.csec = -1, !.upAt = l.now + E.down, !.dead = E.drop, !.after = "l_dsc"]
            /\ pc' = "l_wait"
     ELSE IF E.reset = "neg" THEN pc' = "l_pc" /\ UNCHANGED l
     ELSE pc' = "l_raise" /\ l' = [l EXCEPT !.now = @ + 500]
LPc ==
  /\ pc = "l_pc"
  /\ IF c.supply /\ ~Dev_NoPowerCycle
       THEN Emit(<<[e |-> "PDown", t |-> l.now]>>) /\ pc' = "l_pc_up" /\ l' = [l EXCEPT !.ecu = 1]
       ELSE Emit(<<>>) /\ pc' = "l_rc" /\ UNCHANGED l
LPcUp ==
  /\ pc = "l_pc_up"
  /\ Emit(<<[e |-> "PUp", t |-> l.now + Sleep]>>)
  /\ l' = [l EXCEPT !.now = @ + Sleep, !.upAt = l.now + Sleep + E.down, !.dead = E.drop, !.after = "l_pc_done"]
  /\ pc' = "l_wait"
LPcDone == /\ pc = "l_pc_done" /\ Emit(<<>>) /\ l' = [l EXCEPT !.cs = 1, !.csec = -1] /\ pc' = "l_rc"
LRc ==
  /\ pc = "l_rc"
  /\ Emit(<<[e |-> "RC", t |-> l.now]>>)
  /\ l' = [l EXCEPT !.dead = FALSE, !.after = "l_dsc"]
  /\ pc' = IF l.stage = 1 THEN "l_wait" ELSE "l_ret"
LWait ==
  /\ pc = "l_wait" /\ Emit(<<>>)
  /\ l' = [l EXCEPT !.wdl = l.now + 10000]
  /\ pc' = IF Dev_NoWaitAfterReset THEN l.after ELSE "w_sleep"
WSleep ==
  /\ pc = "w_sleep" /\ Emit(<<>>)
  /\ IF l.now + 500 >= l.wdl THEN l' = [l EXCEPT !.now = l.wdl] /\ pc' = l.after
     ELSE l' = [l EXCEPT !.now = @ + 500] /\ pc' = "w_ping"
WPing ==
  /\ pc = "w_ping"
  /\ IF l.dead THEN /\ Emit(<<[e |-> "Ping", out |-> "connerr", t |-> l.now], [e |-> "RC", t |-> l.now]>>)
                    /\ l' = [l EXCEPT !.dead = FALSE] /\ pc' = "w_sleep"
     ELSE IF l.now >= l.upAt THEN /\ Emit(<<[e |-> "Ping", out |-> "answer", t |-> l.now]>>)
                                  /\ pc' = l.after /\ UNCHANGED l
     ELSE /\ Emit(<<[e |-> "Ping", out |-> "silent", t |-> l.now]>>)
          /\ l' = [l EXCEPT !.now = IF @ + 500 >= l.wdl THEN l.wdl ELSE @ + 500]
          /\ pc' = IF l.now + 500 >= l.wdl THEN l.after ELSE "w_sleep"
LDsc ==
  /\ pc = "l_dsc"
  /\ LET out == IF Up THEN E.dsc1 ELSE "silent" IN
     /\ Emit(<<Hook("pre", 1), [e |-> "Dsc", s |-> 1, out |-> out]>> \o (IF out = "pos" THEN <<Hook("post", 1)>> ELSE <<>>))
     /\ IF out = "pos" THEN l' = [l EXCEPT !.ecu = 1, !.cs = 1, !.csec = -1] /\ pc' = "l_ret"
        ELSE IF out = "neg" THEN l' = [l EXCEPT !.stage = 2] /\ pc' = "l_pc"
        ELSE l' = [l EXCEPT !.now = @ + 500] /\ pc' = "l_raise"
LRet == /\ pc = "l_ret" /\ Emit(<<RetEv("true")>>) /\ pc' = "done" /\ UNCHANGED l
LRaise == /\ pc = "l_raise" /\ Emit(<<RetEv("raise")>>) /\ pc' = "done" /\ UNCHANGED l
LeaveNext == LReset \/ LPc \/ LPcUp \/ LPcDone \/ LRc \/ LWait \/ WSleep \/ WPing \/ LDsc \/ LRet \/ LRaise

-----------------------------------------------------------------------------
(* transmit_data *)
Payload == BlockLen(c) - 2
XStart ==
  /\ pc = "x_start" /\ Emit(<<>>) /\ UNCHANGED l
  /\ pc' = IF Payload > 0 THEN "x_td"
           ELSE IF Dev_S2_TinyBlockLengthSendsNothing /\ Payload < 0 THEN "x_rte"
           ELSE "x_raise"
XTd ==
  /\ pc = "x_td"
  /\ IF l.pos >= Len(c.data) THEN Emit(<<>>) /\ pc' = "x_rte" /\ UNCHANGED l
     ELSE LET k1 == l.k + 1
              hi == Min2(l.pos + Payload, Len(c.data))
              out == IF k1 = E.negAt THEN "neg" ELSE IF k1 = E.silentAt THEN "silent" ELSE "pos" IN
          /\ Emit(<<[e |-> "Td", c |-> IF Dev_NoCounterWrap THEN k1 ELSE k1 % 256,
                     p |-> SubSeq(c.data, l.pos + 1, hi), out |-> out]>>)
          /\ l' = [l EXCEPT !.k = k1, !.pos = hi]
          /\ pc' = IF out = "pos" THEN "x_td" ELSE "x_raise"
XRte ==
  /\ pc = "x_rte" /\ Emit(<<[e |-> "Rte", out |-> E.rte]>>) /\ UNCHANGED l
  /\ pc' = IF E.rte = "pos" THEN "x_ret" ELSE "x_raise"
XRet == /\ pc = "x_ret" /\ Emit(<<RetEv("none")>>) /\ pc' = "done" /\ UNCHANGED l
XRaise == /\ pc = "x_raise" /\ Emit(<<RetEv("raise")>>) /\ pc' = "done" /\ UNCHANGED l
XferNext == XStart \/ XTd \/ XRte \/ XRet \/ XRaise

-----------------------------------------------------------------------------
(* refresh_state *)
RStart == /\ pc = "r_start" /\ Emit(<<>>) /\ pc' = "r_read"
          /\ l' = IF c.reset THEN [l EXCEPT !.cs = 1, !.csec = -1] ELSE l
RRead ==
  /\ pc = "r_read"
  /\ Emit(<<[e |-> "Rs", out |-> E.out, s |-> IF E.out = "pos" THEN E.s ELSE 0]>>)
  /\ IF E.out = "pos"
       THEN /\ l' = IF Dev_RefreshIgnoresAnswer \/ l.cs = E.s THEN l ELSE [l EXCEPT !.cs = E.s, !.csec = -1]
            /\ pc' = "r_ret"
       ELSE pc' = "r_raise" /\ UNCHANGED l
RRet == /\ pc = "r_ret" /\ Emit(<<RetEv("none")>>) /\ pc' = "done" /\ UNCHANGED l
RRaise == /\ pc = "r_raise" /\ Emit(<<RetEv("raise")>>) /\ pc' = "done" /\ UNCHANGED l
RefreshNext == RStart \/ RRead \/ RRet \/ RRaise

-----------------------------------------------------------------------------
(* update_state after raw exchanges: sym = <<kind, a, out>> *)
BStep ==
  /\ pc = "b_step" /\ l.i < BookLen
  /\ \E sym \in BookSymbols :
       LET kind == sym[1]
           a == sym[2]
           out == sym[3]
           p == out = "pos"
           ns == IF p /\ kind = "dsc" THEN a ELSE IF p /\ kind = "reset" THEN 1 ELSE IF p /\ kind = "rs" THEN a ELSE l.cs
           nsec == IF p /\ kind \in {"dsc", "reset"} THEN -1
                   ELSE IF p /\ kind = "rs" /\ a # l.cs THEN -1
                   ELSE IF p /\ kind = "key" THEN (IF Dev_KeyLevelOffByOne THEN a ELSE a - 1)
                   ELSE l.csec IN
       /\ Emit(<<[e |-> "X", kind |-> kind, a |-> a, out |-> out, cs |-> ns, csec |-> nsec]>>)
       /\ l' = [l EXCEPT !.cs = ns, !.csec = nsec, !.i = @ + 1]
  /\ pc' = "b_step"
BRet == /\ pc = "b_step" /\ Emit(<<RetEv("none")>>) /\ pc' = "done" /\ UNCHANGED l
BookNext == BStep \/ BRet

-----------------------------------------------------------------------------
Next == SetNext \/ LeaveNext \/ XferNext \/ RefreshNext \/ BookNext
Spec == Init /\ [][Next]_vars /\ WF_vars(Next)

ContractHolds == mon.fail = "ok"
DoneIsTotal == pc = "done" => Final(mon) = "ok"
Progress == pc # "done" => ENABLED Next
Terminates == <>(pc = "done")
=============================================================================
