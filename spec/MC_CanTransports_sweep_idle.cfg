SPECIFICATION Spec
CHECK_DEADLOCK FALSE
VIEW View
CONSTANTS
  Part = "raw"
  Space <- SweepIdle
  Ids <- Ids12
  Lens <- Lens1
  Errnos <- NoErr
  MaxFrames = 3
  MaxOps = 2
  Mixed = FALSE
  Allow <- OpsIdle
  Buf = 99
  Export = FALSE
  Dev_FdFlagDropped = FALSE
  Dev_RtrBit = FALSE
  Dev_UnpackNoCut = FALSE
  Dev_SffMaskAlways = FALSE
  Dev_MaskSwapped = FALSE
  Dev_JoinSticky = FALSE
  Dev_NoJoin = FALSE
  Dev_TimeoutEats = FALSE
  Dev_DstTruthy = FALSE
  Dev_CloseNoop = FALSE
  Dev_IdleStopsOnTimeout = FALSE
  Dev_PadSwapped = FALSE
  Dev_ExtTruthy = FALSE
  Dev_BindSwapped = FALSE
  Dev_BindFirst = FALSE
  Dev_NoLLOpts = FALSE
  Dev_HexRejected = FALSE
  Dev_EcommReraised = FALSE
  Dev_EilseqTimeout = FALSE
  Dev_ErrSwallowed = FALSE
CONSTRAINT SweepObs
