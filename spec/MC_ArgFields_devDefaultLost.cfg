SPECIFICATION Spec
CONSTANTS
  ModelFields <- MCModelFields
  Cases <- SmallCases
  Dev_NegSetsTrue = FALSE
  Dev_ConstNeedsValue = FALSE
  Dev_RequiredOptional = FALSE
  Dev_ValidationRaises = FALSE
  Dev_ExitOne = FALSE
  Dev_HiddenOnCli = FALSE
  Dev_UnknownIgnored = FALSE
  Dev_ListFirstOnly = FALSE
  Dev_HexIntDecimal = FALSE
  Dev_EnumByValueOnly = FALSE
  Dev_DefaultLost = TRUE
  Dev_ErrorNamesNothing = FALSE
  Dev_HelpListsHidden = FALSE
  Dev_HelpOmitsDefault = FALSE
  Dev_SectionClassWins = FALSE
  Dev_AutoLitEnumOnly = FALSE
  Dev_HelpPercent = FALSE
  Dev_HiddenInRegistry = FALSE
INVARIANT TypeOK
INVARIANT Inv_Parse
INVARIANT Inv_Help
INVARIANT Inv_Config
CHECK_DEADLOCK FALSE
