SPECIFICATION CSpec
CONSTANTS
  B2 <- B2All
  Dev_LsbFirst = FALSE
  Dev_IgnoreByteOrder = TRUE
  Dev_PartialNoStrip = FALSE
INVARIANT LayoutAgrees
CHECK_DEADLOCK FALSE
