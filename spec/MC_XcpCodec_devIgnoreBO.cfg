SPECIFICATION CSpec
CONSTANTS
  Dev_LsbFirst = FALSE
  Dev_IgnoreByteOrder = TRUE
  Dev_PartialNoStrip = FALSE
INVARIANT LayoutAgrees
CHECK_DEADLOCK FALSE
