--------------------------- MODULE Trace_EcuHelpers ---------------------------
(* Code -> spec for X24: every recorded execution of the real code (an ECU convenience call against a scripted ECU, a
   helper evaluation, a tester-present life-cycle script) is stepped, event by event, through
   EcuHelpersContract!Step.  One verdict line per execution:
   <<"V", id, verdict, number of events consumed, unspecified flag>>. *)
EXTENDS EcuHelpersContract, Json, IOUtils

Batch == JsonDeserialize(IOEnv.TRACE_FILE)
T == Batch.traces

VARIABLES tid, l, m
tvars == <<tid, l, m>>

TInit == tid \in 1..Len(T) /\ l = 1 /\ m = M0
TStep == /\ l >= 1 /\ l <= Len(T[tid].ev) /\ m.fail = "ok"
         /\ m' = Step(m, T[tid].ev[l])
         /\ l' = l + 1 /\ tid' = tid
TDone == /\ l >= 1 /\ (l > Len(T[tid].ev) \/ m.fail # "ok")
         /\ PrintT(<<"V", T[tid].id, Final(m), l - 1, m.unspec>>)
         /\ l' = 0 /\ UNCHANGED <<tid, m>>
TSpec == TInit /\ [][TStep \/ TDone]_tvars
=============================================================================
