SPECIFICATION Spec
CONSTANTS
  Logs <- MCLogs4
  Heights <- MCHeight3
  Wides <- MCWide
  Tokens <- MCTokNav
  Levels <- MCLevels
  Prio0 = 7
  MaxHist = 2
  MaxDepth = 3
  HelpLen = 6
  MaxIn = 3
  Dev_F1_StalePageUp = FALSE
  Dev_F2_HiddenMidEntry = FALSE
  Dev_F3_HelpEndKey = FALSE
  Dev_F4_HelpNeedsWide = FALSE
  Dev_F5_FilterRaises = FALSE
  Dev_F6_InputOverflow = FALSE
  Dev_F8_ReflowEmpty = TRUE
  Dev_C1_RedoKept = FALSE
  Dev_M1_PageDownSkips = FALSE
CONSTRAINT Depth
CHECK_DEADLOCK FALSE
INVARIANT Inv_Z_NoCrash
INVARIANT Inv_V_Screen
INVARIANT Inv_M_Motion
INVARIANT Inv_H_Help
INVARIANT Inv_C_Config
INVARIANT Inv_C_ZonesOrdered
INVARIANT Inv_D_Full
