SPECIFICATION Spec
CONSTANTS
  MaxRetry = 1
  MaxPending = 3
  MaxSilent = 2
  PollMs = 500
  TimeoutMs = 2000
  Lim <- LimMC
  Dev_S9_PendingConnErrRaw = TRUE
  Dev_S10_PendingLimitDropsFinal = FALSE
INVARIANT TypeOK
INVARIANT K1_WriteBound
INVARIANT K4_OutcomeImplied
INVARIANT K4_Verdict
INVARIANT K6_Bounded
PROPERTY K3_NoWriteInPending
PROPERTY K3b
PROPERTY K6_Terminates
CHECK_DEADLOCK FALSE
