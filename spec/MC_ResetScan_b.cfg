SPECIFICATION Spec
CONSTANTS
  Sfs <- Sfs12
  ModelSessions = {1, 2}
  Classes <- Classes3
  Downs <- Downs2
  Drops = {TRUE, FALSE}
  Refuses <- Refuses2
  Fallbacks = {TRUE}
  SessReads = {TRUE}
  Cfgs <- CfgsAll
  Dev_S1_RefusedReconnectRaises = FALSE
  Dev_NoWait = FALSE
  Dev_NoReenter = FALSE
  Dev_SkipIgnored = FALSE
  Dev_ErrIncludesNotSupported = FALSE
  Dev_TimeoutSwallowed = FALSE
INVARIANT TypeOK
INVARIANT M0_Model
INVARIANT T0_Terminates
INVARIANT R2_InSess
INVARIANT R4_Skip
INVARIANT R6_Wait
INVARIANT R1_Probed
INVARIANT R3_Ok
INVARIANT R3_Err
INVARIANT R3_To
INVARIANT R0_Envelope
INVARIANT VerdictOk
INVARIANT Progress
CHECK_DEADLOCK FALSE
