--------------------- MODULE ConfigPrecedenceContract ---------------------
(* Property C18 -- settings resolve CLI > env > file > default; a stored config
   re-creates the run.

   Contract layer (operators only, written from the property statement):

     Q1  for every option the effective value is the value of the first source,
         in the order  command line, GALLIA_<NAME>, matching gallia.toml key,
         built-in default,  that holds a value;
     Q2  an invalid value in that first source is rejected and the message names
         the source (it is not silently ignored); values of shadowed sources are
         irrelevant;
     Q3  the stored configuration (model_dump_json / META.json / run_meta row)
         fed back to the same command yields an equal configuration;
     Q4  the generated template lists every file-configurable option under the
         key the loader reads (and nothing else).

   Data abstraction (done by the harness, see harness/c18_lib.py): values are
   projected to small ids, equal ids <=> equal values.

   A case c is a record
     present    : subset of Src holding a value ("default" \in present iff the
                  option has a built-in default)
     applies    : subset of Src the option is declared to read ("cli" and
                  "default" always; "env"/"file" only for options declared with
                  config metadata / a config section; the section is the one
                  of the class that INTRODUCES the option: a subclass that
                  redeclares it keeps env / S.<name> unless the redeclaration
                  itself names another section or hides the option -- "the
                  matching key" is the key the template prints for that
                  option name, Q4 read from the command's side)
     val        : [cli, env, file, default |-> Int]
                    n > 0   id of the (valid) value held by that source
                    0       the source holds a value the option's type rejects
                    -1      the source is absent
                    -2      valid in isolation, but the whole configuration
                            violates a cross-option constraint (statement silent)
     positional : BOOLEAN   the option is a positional command-line argument
   An outcome o is
     [t |-> "value", id |-> n, others |-> BOOLEAN]   n = id of the effective
                  value (99 = equals no source), others = all other options of
                  the command kept their own effective values
     [t |-> "error", named |-> subset of Src]        parse rejected; sources the
                  message names.                                              *)
EXTENDS Integers, Sequences, FiniteSets, TLC

Src   == {"cli", "env", "file", "default"}
Order == <<"cli", "env", "file", "default">>
Rank(s) == CHOOSE i \in 1..4 : Order[i] = s

ToSet(q) == {q[i] : i \in 1..Len(q)}

Value(n)  == [t |-> "value", id |-> n, others |-> TRUE]
Error(ns) == [t |-> "error", named |-> ns]

\* first source, in precedence order, of a set of sources ("none" if empty)
FirstOf(S) == IF S = {} THEN "none"
              ELSE CHOOSE s \in S : \A u \in S : Rank(s) <= Rank(u)

----------------------------------------------------------------------------
(* Verdict under ONE reading of which sources apply to the option. *)
VerdictFor(c, live, o) ==
  LET f == FirstOf(live) IN
  IF f = "none"
  THEN \* Q1: no source holds a value and there is no default: nothing to use
       IF o.t = "error" THEN "ok" ELSE "Q1/value-without-any-source"
  ELSE
  LET v == c.val[f] IN
  CASE v > 0 ->
         IF o.t = "value"
         THEN IF o.id = v
              THEN IF o.others THEN "ok" ELSE "Q1/other-option-disturbed"
              ELSE IF \E s \in live : Rank(s) > Rank(f) /\ c.val[s] = o.id
                   THEN "Q1/lower-priority-source-wins"
                   ELSE "Q1/effective-value-is-not-the-first-source"
         ELSE \* statement is silent on whether a shadowed invalid value may
              \* also be rejected: accept an error that names such a source
              IF \E s \in live : Rank(s) > Rank(f) /\ c.val[s] \in {0, -2} /\ s \in o.named
              THEN "ok"
              ELSE "Q1/valid-first-source-rejected"
    [] v = 0 ->
         IF o.t = "value" THEN "Q2/invalid-value-ignored"
         ELSE IF f \in o.named THEN "ok" ELSE "Q2/error-does-not-name-its-source"
    [] OTHER -> \* -2: cross-option constraint; only "not ignored" is demanded
         IF o.t = "value" THEN "Q2/invalid-value-ignored" ELSE "ok"

(* Readings: a source that holds a value although the option is not declared
   to read it (plain pydantic field + GALLIA_<NAME>) may be honoured or ignored:
   the statement is silent.  Strict = FALSE additionally treats a positional
   argument without a command-line value as a usage error (the command line is
   syntactically mandatory for it), the strict reading treats it like any other
   option. *)
Readings(c) == {(c.present \cap c.applies) \cup X : X \in SUBSET (c.present \ c.applies)}

Verdict(c, o, strict) ==
  IF (~strict) /\ c.positional /\ "cli" \notin c.present /\ o.t = "error" THEN "ok"
  ELSE IF \E live \in Readings(c) : VerdictFor(c, live, o) = "ok" THEN "ok"
  ELSE VerdictFor(c, c.present \cap c.applies, o)

\* TRUE iff the case is decided only thanks to a silent spot of the statement
Unspecified(c, o) ==
  \/ Verdict(c, o, TRUE) # "ok" /\ Verdict(c, o, FALSE) = "ok"
  \/ VerdictFor(c, c.present \cap c.applies, o) # "ok" /\ Verdict(c, o, TRUE) = "ok"
  \/ LET f == FirstOf(c.present \cap c.applies) IN
       f # "none" /\ c.val[f] > 0 /\ o.t = "error" /\ Verdict(c, o, TRUE) = "ok"

----------------------------------------------------------------------------
(* Q3: reload identity.  x.orig / x.re: sequences of value ids, one per field
   of the configuration, before and after dump -> load; x.err: the reload was
   rejected. *)
ReloadVerdict(x) ==
  IF x.err THEN "Q3/stored-config-rejected-on-reload"
  ELSE IF Len(x.orig) # Len(x.re) THEN "Q3/reloaded-config-has-other-fields"
  ELSE IF \E i \in 1..Len(x.orig) : x.orig[i] # x.re[i] THEN "Q3/reloaded-config-differs"
  ELSE "ok"

(* Q4: template.  x.template: keys listed by --template; x.declared: keys of
   the options declared file-configurable (section + name); x.read: keys the
   loader looks up for those options. *)
TemplateVerdict(x) ==
  LET T == ToSet(x.template)  D == ToSet(x.declared)  R == ToSet(x.read) IN
  IF \E k \in D : k \notin T THEN "Q4/file-configurable-option-missing-from-template"
  ELSE IF \E k \in T : k \notin D THEN "Q4/template-lists-key-of-no-option"
  ELSE IF \E k \in D : k \notin R THEN "Q4/loader-does-not-read-the-listed-key"
  ELSE "ok"
=============================================================================
