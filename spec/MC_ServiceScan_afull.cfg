SPECIFICATION Spec
CONSTANTS
  Sids <- SidsA
  ModelSessions = {1, 2}
  Classes <- Classes6
  Cfgs <- CfgsA
  ProbeLens <- Lens1235
  Dev_MaskBit7 = FALSE
  Dev_ShortLens = FALSE
  Dev_BreakOnLenErr = FALSE
  Dev_BreakOnTimeout = FALSE
  Dev_CheckDoesNotRestore = FALSE
INVARIANT TypeOK
INVARIANT M0_Model
INVARIANT V2_InSession
INVARIANT V4_Skip
INVARIANT V5_RespIds
INVARIANT V3_Attempt
INVARIANT V3_Probed
INVARIANT V1a_Only
INVARIANT V1b_All
INVARIANT VerdictOk
PROPERTY Terminates
CHECK_DEADLOCK FALSE
