---------------------------- MODULE MC_EcuHelpers ----------------------------
(* Finite instances of the X24 design layer (cfg files cannot hold records / sequences): the case families TLC
   enumerates.  Every case of the MC_EcuHelpers_<family>.cfg runs is also replayed into the real code. *)
EXTENDS EcuHelpers

Sid(m) == Wire(m)[1]
QuickNrcs == {16, 17, 18, 19, 33, 34, 49, 51, 126, 127}
States == {<<1, -1>>, <<3, 1>>}

Pos(m) == CASE m = "ping" -> {<<126, 0>>}
            [] m = "read_session" -> {<<98, 241, 134, s>> : s \in {1, 2, 3, 64}}
            [] m = "read_dtc" -> {<<89, 2, 255>>, <<89, 2, 255, 18, 52, 86, 8, 171, 205, 239, 9>>}
            [] m = "clear_dtc" -> {<<84>>}
            [] OTHER -> {<<98, 241, 144, 87, 48, 76, 48, 48, 48, 48, 52, 51, 77, 66, 53, 52, 49, 51, 50, 54>>}
OnePos(m) == CHOOSE p \in Pos(m) : \A q \in Pos(m) : Len(p) >= Len(q)
Neg(m, n) == <<127, Sid(m), n>>
Pend(m) == <<127, Sid(m), 120>>
Foreign(m) == IF m = "ping" THEN {<<98, 241, 134, 1>>, <<127, 34, 17>>, <<80, 3, 0, 25, 1, 244>>}
              ELSE {<<126, 0>>, <<127, 62, 17>>, <<127, 16, 34>>}
Illegal(m) == CASE m = "ping" -> {<<126>>}
                [] m = "read_session" -> {<<98, 241, 134>>, <<98, 241>>, <<98, 241, 144, 1>>}
                [] m = "read_vin" -> {<<98, 241, 144>>, <<98>>, <<98, 241, 134, 1>>}
                [] m = "read_dtc" -> {<<89>>, <<89, 2>>, <<89, 2, 255, 18, 52>>, <<89, 1, 255, 1, 0, 2>>}
                [] OTHER -> {}

AnswerLists(m, nrcs) ==
  {<<p>> : p \in Pos(m)} \cup {<<Neg(m, n)>> : n \in nrcs}
  \cup {<<Pend(m), OnePos(m)>>, <<Pend(m), <<>>, OnePos(m)>>, <<Pend(m), Pend(m), Neg(m, 49)>>, <<Pend(m)>>, <<<<>>>>}
  \cup {<<f>> : f \in Foreign(m)} \cup {<<i>> : i \in Illegal(m)}

CallCase(m, st, cfg, ans) == [kind |-> "call", m |-> m, s0 |-> st[1], sec0 |-> st[2], tmo |-> 500, cfg |-> cfg, ans |-> ans]
MCCallCases ==
  UNION {{CallCase(m, st, cfg, a) : st \in States, cfg \in {-1, 200}, a \in AnswerLists(m, QuickNrcs)} : m \in WireMethods}
  \cup {CallCase(m, st, cfg, <<>>) : m \in {"properties", "pre", "post"}, st \in States, cfg \in {-1, 200}}
MCCallAllNrc ==
  {CallCase(m, <<3, 1>>, -1, <<Neg(m, n)>>) : m \in WireMethods, n \in IsoNrc \ {120}}
MCCallOf(m) == {x \in MCCallCases : x.m = m /\ x.s0 = 3}

MCSuggCases ==
  {[kind |-> "sugg", fn |-> fn, form |-> form, nrc |-> n] : fn \in {"service", "subfunc", "ident"}, form \in {"code", "neg"}, n \in IsoNrc}
  \cup {[kind |-> "sugg", fn |-> fn, form |-> "pos", nrc |-> 0] : fn \in {"service", "subfunc", "ident"}}
MCExcCases ==
  {[kind |-> "exc", fn |-> fn, pos |-> FALSE, nrc |-> n, trig |-> tr, msg |-> ms] :
     fn \in {"raise_for_error", "as_exception", "parse_dynamic"}, n \in IsoNrc, tr \in BOOLEAN, ms \in BOOLEAN}
  \cup {[kind |-> "exc", fn |-> "raise_for_error", pos |-> TRUE, nrc |-> 0, trig |-> tr, msg |-> ms] : tr \in BOOLEAN, ms \in BOOLEAN}
MCExcTrig == {x \in MCExcCases : x.trig \/ x.fn = "parse_dynamic"}
MCClsCases == {[kind |-> "cls"]}
MCMmCases ==
  {[kind |-> "mm", m |-> m, respb |-> r] : m \in WireMethods,
     r \in UNION {Pos(x) : x \in WireMethods} \cup {Neg(x, 17) : x \in WireMethods} \cup {Neg(x, 120) : x \in WireMethods}
           \cup {<<80, 3, 0, 25, 1, 244>>, <<127, 16, 34>>}}
MCStateCases ==
  {[kind |-> "state", op |-> "new", s |-> 0, sec |-> -1]}
  \cup {[kind |-> "state", op |-> o, s |-> s, sec |-> q] : o \in {"reset", "json"}, s \in {1, 2, 3, 64, 255}, q \in {-1, 1, 3, 99}}

F(key, kcp, t, i, s, b, l) == [k |-> key, kcp |-> kcp, t |-> t, i |-> i, s |-> s, b |-> b, l |-> l]
FieldsA == <<F("zeta", <<122, 101, 116, 97>>, "int", 3, "", <<>>, <<>>),
             F("alpha", <<97, 108, 112, 104, 97>>, "bytes", 0, "", <<222, 173, 0, 15>>, <<>>),
             F("mid", <<109, 105, 100>>, "enums", 0, "red", <<>>, <<>>),
             F("n", <<110>>, "enumi", 7, "", <<>>, <<>>),
             F("none", <<110, 111, 110, 101>>, "none", 0, "", <<>>, <<>>),
             F("lst", <<108, 115, 116>>, "lbytes", 0, "", <<>>, <<<<0>>, <<1, 2>>, <<>>>>),
             F("Beta", <<66, 101, 116, 97>>, "str", 0, "x y", <<>>, <<>>)>>
FieldsB == <<F("vin", <<118, 105, 110>>, "bytes", 0, "", <<87, 48, 76>>, <<>>),
             F("sw", <<115, 119>>, "str", 0, "1.2.3", <<>>, <<>>),
             F("a_b", <<97, 95, 98>>, "enumi", 0, "", <<>>, <<>>),
             F("aB", <<97, 66>>, "enums", 0, "deep-blue", <<>>, <<>>)>>
MCJsonCases == {[kind |-> "json", indent |-> ind, fields |-> fs] : ind \in {-1, 0, 4}, fs \in {FieldsA, FieldsB, <<>>}}

MCHelperCases == MCSuggCases \cup MCExcCases \cup MCClsCases \cup MCMmCases \cup MCStateCases \cup MCJsonCases

(* life-cycle scripts *)
Alphabet == {"s1", "s2", "stop", "sync", "wait", "fg", "eA", "eS", "eC"}
EnvOps == {"eA", "eS", "eC", "eN"}
Starts == {"s1", "s2"}
ScriptOk(s) ==
  /\ (\E i \in 1..Len(s) : s[i] \in Starts) \/ Len(s) <= 2
  /\ \A i \in 1..(Len(s) - 1) : ~(s[i] \in EnvOps /\ s[i + 1] \in EnvOps)
  /\ \A i \in 1..Len(s) : s[i] = "sync" => \E j \in 1..(i - 1) : s[j] \in Starts
  /\ (Len(s) > 0 => s[Len(s)] \notin EnvOps \cup {"fg"}) \/ Len(s) <= 2
Scripts(n) == {s \in UNION {[1..m -> Alphabet] : m \in 0..n} : ScriptOk(s)}
LifeCase(init, s) == [kind |-> "life", tmo |-> 500, init |-> init, script |-> s]
MCLife3 == {LifeCase(i, s) : i \in {"answer", "silent", "connerr"}, s \in Scripts(3)}
MCLife4 == {LifeCase(i, s) : i \in {"answer", "silent", "connerr", "nrc"}, s \in Scripts(4)}
MCLifeSmall == {LifeCase(i, s) : i \in {"answer", "silent", "connerr"}, s \in Scripts(2)}
               \cup {LifeCase("silent", <<"s1", "sync", "stop">>), LifeCase("answer", <<"s1", "s2", "stop">>),
                     LifeCase("answer", <<"s1", "stop", "wait">>), LifeCase("answer", <<"s1", "eS", "eA">>)}
\* the scripts the two as-found defects are reachable on: the design with both deviations on = the pinned tree
MCLifeDouble == {x \in MCLife3 : \E i \in 1..Len(x.script) : \E j \in 1..(i - 1) : x.script[i] \in Starts /\ x.script[j] \in Starts}
=============================================================================
