SPECIFICATION Spec
CONSTANTS
  Sessions = {1, 2}
  Levels = {1}
  Others = {1}
  Variants = {1, 2}
  MaxLen = 2
  MaxForeign = 1
  ForeignRows <- MCForeignMix
  Selectors <- MCSelAll
  Groups <- MCGroups
  Export = FALSE
  Dev_S18_ResetOnSilentRow = FALSE
  Dev_S19_ClientTracksSessionRead = FALSE
  Dev_S31_StringPropertyQuoted = FALSE
INVARIANT TypeOK
INVARIANT Y0_TrackersAgree
INVARIANT Y1_RepliesAsRecorded
INVARIANT Y2_IndependentOfOthers
INVARIANT ContractHolds
INVARIANT CursorFollowsRecording
INVARIANT VerdictIsFunctionOfState
CHECK_DEADLOCK FALSE
