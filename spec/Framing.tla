------------------------------ MODULE Framing ------------------------------
(* Generic byte stream -> frames under any segmentation.

   A stream transport (TCP, unix socket) hands the bytes of the peer to the
   reader in segments whose boundaries the application does not control: one
   write may arrive in several pieces, several writes may arrive as one.  This
   module models exactly that and nothing else:

     stream   bytes the peer has sent that are still in flight
     buf      bytes that have arrived and were not consumed yet
              (asyncio.StreamReader._buffer)

     Deliver(k)       the environment moves the next k bytes from stream to buf
                      (every k: every segmentation, every coalescing)
     ReadExactly(n)   asyncio readexactly(n): enabled iff n bytes are buffered
     ReadLine(nl)     asyncio readline()/readuntil(nl): enabled iff nl is buffered
     ReadFrame        the instantiating protocol's frame rule, FrameLen(_)

   A protocol instantiates the module with its frame rule

     FrameLen(b)  = length of the complete frame at the head of buffer b,
                    0 if there is no complete frame (yet)

   (LineLen / ExactLen below are the two ready-made rules) and composes the
   actions -- which constrain only stream and buf -- with its own variables.

   What makes framing correct is that the parsed sequence of frames does not
   depend on the segmentation: Frames(whole stream) is defined without any
   segmentation, and MC_Framing lets TLC check, for every stream over a small
   alphabet and every interleaving of Deliver(k) and ReadFrame, that the frames
   read so far followed by Frames(buf \o stream) is always Frames(whole).  That
   holds iff the frame rule is prefix-stable (PrefixStable below); a rule like
   "whatever read(n) returns" is not, and TLC refutes it (negative control). *)
EXTENDS Naturals, Sequences

CONSTANT FrameLen(_)

VARIABLES stream, buf

Take(s, k) == SubSeq(s, 1, k)
Drop(s, k) == SubSeq(s, k + 1, Len(s))

----------------------------------------------------------------------------
(* ready-made frame rules *)

\* position of the first occurrence of x in s, 0 if there is none
RECURSIVE IndexFrom(_, _, _)
IndexFrom(s, x, i) == IF i > Len(s) THEN 0 ELSE IF s[i] = x THEN i ELSE IndexFrom(s, x, i + 1)
IndexOf(s, x) == IndexFrom(s, x, 1)

\* a frame is everything up to and including the first terminator nl
LineLen(b, nl) == IndexOf(b, nl)

\* a frame is a header of h bytes followed by Body(header) bytes
ExactLen(b, h, Body(_)) ==
  IF Len(b) < h THEN 0
  ELSE LET n == h + Body(Take(b, h)) IN IF Len(b) >= n THEN n ELSE 0

----------------------------------------------------------------------------
(* reference parse of a complete byte sequence -- no segmentation involved *)

RECURSIVE Frames(_), Residue(_)
Frames(b)  == IF FrameLen(b) = 0 THEN <<>>
              ELSE <<Take(b, FrameLen(b))>> \o Frames(Drop(b, FrameLen(b)))
\* what is left when no complete frame remains (a truncated frame, or nothing)
Residue(b) == IF FrameLen(b) = 0 THEN b ELSE Residue(Drop(b, FrameLen(b)))

----------------------------------------------------------------------------
(* actions; they constrain stream and buf only *)

Deliver(k) ==
  /\ k \in 1..Len(stream)
  /\ buf' = buf \o Take(stream, k)
  /\ stream' = Drop(stream, k)

\* the peer stops sending: whatever is still in flight is never delivered
Truncate == stream' = <<>> /\ UNCHANGED buf

CanReadExactly(n) == Len(buf) >= n
ReadExactly(n) == CanReadExactly(n) /\ buf' = Drop(buf, n) /\ UNCHANGED stream   \* returns Take(buf, n)

CanReadLine(nl) == LineLen(buf, nl) > 0
Line(nl) == Take(buf, LineLen(buf, nl))
ReadLine(nl) == CanReadLine(nl) /\ ReadExactly(LineLen(buf, nl))                \* returns Line(nl)

FrameReady == FrameLen(buf) > 0
Frame == Take(buf, FrameLen(buf))
ReadFrame == FrameReady /\ ReadExactly(FrameLen(buf))                            \* returns Frame

\* consume everything (readline() at end-of-stream hands out the truncated rest)
ReadRest == buf' = <<>> /\ UNCHANGED stream                                      \* returns buf

----------------------------------------------------------------------------
(* the condition on the frame rule under which framing is segmentation-independent *)
PrefixStable == FrameLen(buf) > 0 => FrameLen(buf \o stream) = FrameLen(buf)
=============================================================================
