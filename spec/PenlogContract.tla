--------------------------- MODULE PenlogContract ---------------------------
(* Property C17 -- log records written by a run are read back exactly, in any
   navigation mode (gallia.log: add_zst_log_handler/_JSONFormatter writer,
   PenlogReader reader, gallia.cli.hr front end).

   Contract layer: operators only, written from the property STATEMENT, not
   from the code.  One labelled clause per sentence of the statement:

     P1  reading the produced log back yields the same records in the same
         order with the same text, level, tags and timestamp
     P2  the priority filter returns exactly the records at or above the
         requested severity, with or without the "<prio>" prefix
     P3  forward(offset k) / reverse / head n / tail n each yield the
         corresponding slice -- every selected record once, in the stated
         order -- also for logs shorter than the requested count
     P4  len(reader) is the number of records, whenever it is asked
     P5  the same for .zst, .gz, plain and stdin input (the log opens);
         ".zst" / ".gz" input is any valid file of that format -- one or
         SEVERAL zstd frames / gzip members (logs of several runs joined
         with cat, pzstd output): `log` is then what the runs logged, one
         run after the other, and P1-P4 apply to that sequence unchanged

   A record is [id, prio]: `id` is the harness' injective name of the tuple
   (text, level, tags, timestamp, trace class) -- written records get 1..N in
   write order, a record read back that matches no written record gets a
   fresh id > N, so "same text/level/tags/timestamp" is equality of ids.
   `prio` is the syslog severity 0..8 (numerically smaller = more severe), so
   "at or above the requested severity p" is prio <= p.

   An operation is [mode, p, n, off]:
     "fwd"   records(priority=p, offset=off), off >= 0, read to the end
     "tail"  the last n records (records(offset=-n), hr --tail -n n)
     "head"  the first n records (islice(records(p), n), hr --head -n n)
     "rev"   records(priority=p, reverse=True), hr --reverse
     "len"   len(reader)
     "open"  constructing the reader on the container
   n = -1 / p = -1 stand for "option omitted": the statement does not fix the
   defaults, so any value is accepted for them.

   A result is [t |-> "Seq", ids |-> <<..>>] | [t |-> "Len", n |-> k]
             | [t |-> "Ok"] | [t |-> "Exc", cls |-> "IndexError"].          *)
EXTENDS Integers, Sequences, FiniteSets, TLC

Min(a, b) == IF a < b THEN a ELSE b
Max(a, b) == IF a > b THEN a ELSE b

MostPermissive == 8          \* TRACE: nothing is less severe

SeqRes(ids) == [t |-> "Seq", ids |-> ids]
LenRes(k)   == [t |-> "Len", n |-> k]
ExcRes(c)   == [t |-> "Exc", cls |-> c]
OkRes       == [t |-> "Ok"]

----------------------------------------------------------------------------
(* ------------------------------ slices ---------------------------------- *)

Ids(s)        == [i \in 1..Len(s) |-> s[i].id]
Keep(r, p)    == r.prio <= p
Filter(log, p) == SelectSeq(log, LAMBDA r : Keep(r, p))
FirstN(s, n)  == SubSeq(s, 1, Min(n, Len(s)))
LastN(s, n)   == SubSeq(s, Len(s) - Min(n, Len(s)) + 1, Len(s))
Rev(s)        == [i \in 1..Len(s) |-> s[Len(s) + 1 - i]]

\* forward from record number `off` (0-based), 0 <= off <= Len(log)
Forward(log, p, off) == Filter(SubSeq(log, off + 1, Len(log)), p)
Reverse(log, p)      == Rev(Filter(log, p))
(* head n / tail n combined with a priority threshold: the statement does not
   say whether the count applies before or after the filter ("the
   corresponding slice of that sequence" can be read both ways) => both
   readings are admitted. *)
HeadSet(log, p, n) == {FirstN(Filter(log, p), n), Filter(FirstN(log, n), p)}
TailSet(log, p, n) == {LastN(Filter(log, p), n), Filter(LastN(log, n), p)}

NoDup(s) == Cardinality({s[i] : i \in 1..Len(s)}) = Len(s)

----------------------------------------------------------------------------
(* -------------------------- admissible results --------------------------- *)

\* candidate values of an omitted option
PCands(log, op) == IF op.p = -1 THEN 0..8 ELSE {op.p}
NCands(log, op) == IF op.n = -1 THEN 0..(Len(log) + 1) ELSE {op.n}

(* Unspecified(log, op): the statement is silent/ambiguous => every listed
   outcome is accepted and the case is counted as unspecified:
     - forward from an offset at or beyond the end (empty slice or "no such
       record" error),
     - tail 0 (the empty slice, or -- with Python's "-0 = 0" -- everything),
     - head/tail where count-then-filter and filter-then-count differ. *)
Unspecified(log, op) ==
  CASE op.mode = "fwd"  -> op.off >= Len(log) /\ op.off > 0
    [] op.mode = "tail" -> op.n = 0 \/ (op.n > 0 /\ op.p >= 0 /\ Cardinality(TailSet(log, op.p, op.n)) > 1)
    [] op.mode = "head" -> op.n > 0 /\ op.p >= 0 /\ Cardinality(HeadSet(log, op.p, op.n)) > 1
    [] OTHER -> FALSE

Admits(log, op, res) ==
  CASE op.mode = "open" -> res = OkRes
    [] op.mode = "len"  -> res = LenRes(Len(log))
    [] op.mode = "fwd"  ->
         IF op.off >= Len(log) /\ op.off > 0
         THEN res = SeqRes(<<>>) \/ res.t = "Exc"
         ELSE \E p \in PCands(log, op) : res = SeqRes(Ids(Forward(log, p, op.off)))
    [] op.mode = "rev"  -> \E p \in PCands(log, op) : res = SeqRes(Ids(Reverse(log, p)))
    [] op.mode = "head" ->
         \E p \in PCands(log, op), n \in NCands(log, op) :
           \E s \in HeadSet(log, p, n) : res = SeqRes(Ids(s))
    [] op.mode = "tail" ->
         \E p \in PCands(log, op), n \in NCands(log, op) :
           \/ \E s \in TailSet(log, p, n) : res = SeqRes(Ids(s))
           \/ n = 0 /\ res = SeqRes(Ids(Filter(log, p)))
    [] OTHER -> FALSE

\* the clause of the statement an operation falls under
Clause(op) ==
  CASE op.mode = "open" -> "P5/container-opens"
    [] op.mode = "len"  -> "P4/len-is-record-count"
    [] op.mode = "fwd"  -> IF op.off > 0 THEN "P3/forward-from-offset"
                           ELSE IF op.p = MostPermissive THEN "P1/read-back-equals-written"
                           ELSE "P2/priority-filter"
    [] op.mode = "rev"  -> "P3/reverse"
    [] op.mode = "head" -> "P3/head"
    [] op.mode = "tail" -> "P3/tail"
    [] OTHER -> "P0/unknown-operation"

\* how a rejected result is wrong (diagnosis only, part of the verdict line)
How(log, op, res) ==
  IF res.t = "Exc" THEN "raised"
  ELSE IF res.t # "Seq" THEN "wrong-count"
  ELSE LET s == res.ids
           written == {log[k].id : k \in 1..Len(log)}
       IN IF ~NoDup(s) THEN "record-yielded-twice"
          ELSE IF {s[i] : i \in 1..Len(s)} \ written # {} THEN "record-content-differs"
          ELSE IF op.mode # "rev" /\ \E i \in 1..(Len(s) - 1) : s[i] > s[i + 1] THEN "order"
          ELSE IF op.mode = "rev" /\ \E i \in 1..(Len(s) - 1) : s[i] < s[i + 1] THEN "order"
          ELSE "wrong-selection"

----------------------------------------------------------------------------
(* ------------------ content (sample): text as code points ---------------- *)

\* c = [w |-> written code points, r |-> code points read back, api]
\*   reader API: the text is equal; hr: the rendered record contains the text
IsInfix(w, r) == \E k \in 0..(Len(r) - Len(w)) : SubSeq(r, k + 1, k + Len(w)) = w
ContentOk(c) == IF c.api = "hr" THEN IsInfix(c.w, c.r) ELSE c.w = c.r

----------------------------------------------------------------------------
(* Verdict of one recorded session (a reader opened on one container and a
   sequence of operations on it): <<label, k, how>> for the first operation k
   whose result the contract does not admit, <<"ok", 0, "">> otherwise.     *)
RECURSIVE OpsVerdict(_, _, _)
OpsVerdict(log, ops, k) ==
  IF k > Len(ops) THEN <<"ok", 0, "">>
  ELSE IF Admits(log, ops[k].op, ops[k].res) THEN OpsVerdict(log, ops, k + 1)
  ELSE <<Clause(ops[k].op), k, How(log, ops[k].op, ops[k].res)>>

RECURSIVE ContentVerdict(_, _)
ContentVerdict(cs, k) ==
  IF k > Len(cs) THEN <<"ok", 0, "">>
  ELSE IF ContentOk(cs[k]) THEN ContentVerdict(cs, k + 1)
  ELSE <<"P1/text-differs", k, "text">>

SessionVerdict(log, s) ==
  IF ~Admits(log, [mode |-> "open"], s.open)
  THEN <<Clause([mode |-> "open"]), 0, "raised">>
  ELSE LET v == OpsVerdict(log, s.ops, 1) IN
       IF v[1] # "ok" THEN v ELSE ContentVerdict(s.content, 1)

NUnspecified(log, s) ==
  Cardinality({k \in 1..Len(s.ops) : Unspecified(log, s.ops[k].op)})
=============================================================================
