------------------------- MODULE UdsLayoutContract -------------------------
(* C01 / C02 -- contract layer (operators only, no variables).

   The byte layouts of ISO 14229-1 request and positive/negative response
   messages, written from the standard's message tables (NOT from gallia's
   service.py), as two tables of field descriptors, plus a generic
   encoder / decoder / range classifier over such tables.

   Values:  bytes are 0..255, PDUs are sequences of bytes.  Integers wider
   than three bytes (memory addresses / sizes, up to 15 bytes) are records
   [neg |-> BOOLEAN, b |-> big-endian byte sequence without leading zeros].

   Clauses of C01 (requests), one label per sentence of the statement:
     Q1  in-range request is constructible and serialises to exactly Enc(layout, f)
         (also: the bytes UDSClient hands to the transport)
     Q2  <Class>.from_pdu(pdu): same kind, same field values, same bytes
     Q3  UDSRequest.parse_dynamic(pdu): typed (never raw), ISO registry kind,
         same field values, same bytes
     Q4  a parameter outside its documented range is refused with an error
   Clauses of C02 (responses):
     R1  accepted-typed => exposed fields = bytes ISO places at that position
     R2  accepted (typed or raw) => re-serialisation = received bytes
     R3  unambiguous length-rule violation => not accepted as typed
   Where ISO 14229-1 (or the statement) leaves room the classifier says
   "unspec" and every outcome is accepted. *)
EXTENDS Integers, Sequences, FiniteSets, TLC

-----------------------------------------------------------------------------
(* bytes *)
Pow(w) == CASE w = 0 -> 1 [] w = 1 -> 256 [] w = 2 -> 65536 [] w = 3 -> 16777216
MaxI(a, b) == IF a >= b THEN a ELSE b

\* big-endian value of at most three bytes
BE(s) == CASE Len(s) = 0 -> 0
           [] Len(s) = 1 -> s[1]
           [] Len(s) = 2 -> s[1] * 256 + s[2]
           [] Len(s) = 3 -> s[1] * 65536 + s[2] * 256 + s[3]
\* w-byte big-endian encoding of 0 <= n < 256^w  (w <= 3)
Bytes(n, w) == [i \in 1..w |-> (n \div Pow(w - i)) % 256]
Zeros(n) == [i \in 1..n |-> 0]

RECURSIVE Strip(_)
Strip(s) == IF s # <<>> /\ s[1] = 0 THEN Strip(Tail(s)) ELSE s
Pad(s, w) == Zeros(w - Len(s)) \o s            \* requires Len(s) <= w
Big(s) == [neg |-> FALSE, b |-> Strip(s)]
NumBig(n) == Big(Bytes(n, 3))                  \* 0 <= n < 2^24
WidthOf(v) == MaxI(1, Len(Strip(v.b)))         \* minimal byte width (>= 1)

RECURSIVE Concat(_, _)
\* Concat(F, n) = F[1] \o ... \o F[n]
Concat(F, n) == IF n = 0 THEN <<>> ELSE Concat(F, n - 1) \o F[n]
RECURSIVE SumTo(_, _)
SumTo(ws, j) == IF j = 0 THEN 0 ELSE SumTo(ws, j - 1) + ws[j]

-----------------------------------------------------------------------------
(* field descriptors *)
Sid(v)          == [t |-> "sid", v |-> v]
\* request sub-function byte: bits 6..0 = f[n] (or the fixed value), bit 7 = f.sup
Sf(n)           == [t |-> "sf", n |-> n, fix |-> -1, par |-> "any"]
SfPar(n, p)     == [t |-> "sf", n |-> n, fix |-> -1, par |-> p]
SfFix(v)        == [t |-> "sf", n |-> "", fix |-> v, par |-> "any"]
\* response sub-function echo with a fixed value (selects the kind)
Sub(v)          == [t |-> "sub", v |-> v]
U(n, w)         == [t |-> "u", n |-> n, w |-> w]            \* big-endian unsigned
Nib(hi, lo)     == [t |-> "nib", hi |-> hi, lo |-> lo]      \* two nibbles in one byte
\* addressAndLengthFormatIdentifier (size width high nibble, address width low
\* nibble) followed by one (multi = FALSE) or 1..n (multi = TRUE) address/size groups
Mem(multi)      == [t |-> "mem", multi |-> multi]
Rest(n, min)    == [t |-> "rest", n |-> n, min |-> min]     \* trailing record
\* two adjacent variable records nothing delimits (IOCBI controlOptionRecord /
\* controlEnableMaskRecord): decoding attributes everything to the first
Rest2(a, b, min) == [t |-> "rest2", n1 |-> a, n2 |-> b, min |-> min]
Grp(ns, ws, min) == [t |-> "grp", ns |-> ns, ws |-> ws, min |-> min]  \* repeated fixed-width groups
OptU(flag, n, w) == [t |-> "optu", flag |-> flag, n |-> n, w |-> w]   \* optional trailing unsigned
Lfi             == [t |-> "lfi"]    \* lengthFormatIdentifier + maxNumberOfBlockLength
Ext             == [t |-> "ext"]    \* optional DTCExtDataRecordNumber + record

DtcMaskReq(sf)  == <<Sid(25), SfFix(sf), U("mask", 1)>>
DtcPlainReq(sf) == <<Sid(25), SfFix(sf)>>
DtcCountResp(sf) == <<Sid(89), Sub(sf), U("mask", 1), U("fmt", 1), U("count", 2)>>
DtcListResp(sf) == <<Sid(89), Sub(sf), U("mask", 1), Grp(<<"dtcs", "statuses">>, <<3, 1>>, 0)>>
RoutineReq(sf)  == <<Sid(49), SfFix(sf), U("rid", 2), Rest("record", 0)>>
RoutineResp(sf) == <<Sid(113), Sub(sf), U("rid", 2), Rest("record", 0)>>
IocbiReq        == <<Sid(47), U("did", 2), Rest2("option", "mask", 1)>>
IocbiResp       == <<Sid(111), U("did", 2), Rest("status", 0)>>

(* ISO 14229-1 request messages (service id, sub-function, parameters). *)
ReqLayout == [
  DiagnosticSessionControl |-> <<Sid(16), Sf("sf")>>,
  ECUReset                 |-> <<Sid(17), Sf("sf")>>,
  RequestSeed              |-> <<Sid(39), SfPar("sf", "odd"), Rest("record", 0)>>,
  SendKey                  |-> <<Sid(39), SfPar("sf", "even"), Rest("record", 1)>>,
  CommunicationControl     |-> <<Sid(40), Sf("sf"), U("ctype", 1)>>,
  TesterPresent            |-> <<Sid(62), SfFix(0)>>,
  ControlDTCSetting        |-> <<Sid(133), Sf("sf"), Rest("record", 0)>>,
  ReadDataByIdentifier     |-> <<Sid(34), Grp(<<"dids">>, <<2>>, 1)>>,
  ReadMemoryByAddress      |-> <<Sid(35), Mem(FALSE)>>,
  DefineByIdentifier       |-> <<Sid(44), SfFix(1), U("dddid", 2),
                                 Grp(<<"sdids", "positions", "msizes">>, <<2, 1, 1>>, 1)>>,
  DefineByMemoryAddress    |-> <<Sid(44), SfFix(2), U("dddid", 2), Mem(TRUE)>>,
  ClearDynamicallyDefinedDataIdentifier |-> <<Sid(44), SfFix(3), OptU("has_id", "dddid", 2)>>,
  WriteDataByIdentifier    |-> <<Sid(46), U("did", 2), Rest("record", 1)>>,
  WriteMemoryByAddress     |-> <<Sid(61), Mem(FALSE), Rest("record", 1)>>,
  ClearDiagnosticInformation |-> <<Sid(20), U("group", 3)>>,
  ReportNumberOfDTCByStatusMask |-> DtcMaskReq(1),
  ReportDTCByStatusMask    |-> DtcMaskReq(2),
  ReportMirrorMemoryDTCByStatusMask |-> DtcMaskReq(15),
  ReportNumberOfMirrorMemoryDTCByStatusMask |-> DtcMaskReq(17),
  ReportNumberOfEmissionsRelatedOBDDTCByStatusMask |-> DtcMaskReq(18),
  ReportEmissionsRelatedOBDDTCByStatusMask |-> DtcMaskReq(19),
  ReportSupportedDTC       |-> DtcPlainReq(10),
  ReportFirstTestFailedDTC |-> DtcPlainReq(11),
  ReportFirstConfirmedDTC  |-> DtcPlainReq(12),
  ReportMostRecentTestFailedDTC |-> DtcPlainReq(13),
  ReportMostRecentConfirmedDTC |-> DtcPlainReq(14),
  ReportDTCWithPermanentStatus |-> DtcPlainReq(21),
  ReportDTCExtDataRecordByDTCNumber |-> <<Sid(25), SfFix(6), U("dtc", 3), U("recnum", 1)>>,
  InputOutputControlByIdentifier |-> IocbiReq,
  ReturnControlToECU       |-> IocbiReq,
  ResetToDefault           |-> IocbiReq,
  FreezeCurrentState       |-> IocbiReq,
  ShortTermAdjustment      |-> IocbiReq,
  StartRoutine             |-> RoutineReq(1),
  StopRoutine              |-> RoutineReq(2),
  RequestRoutineResults    |-> RoutineReq(3),
  RequestDownload          |-> <<Sid(52), Nib("comp", "enc"), Mem(FALSE)>>,
  RequestUpload            |-> <<Sid(53), Nib("comp", "enc"), Mem(FALSE)>>,
  TransferData             |-> <<Sid(54), U("bsc", 1), Rest("record", 0)>>,
  RequestTransferExit      |-> <<Sid(55), Rest("record", 0)>>
]
ReqKinds == DOMAIN ReqLayout

(* Convenience forms of InputOutputControlByIdentifier whose controlOptionRecord
   starts with an inputOutputControlParameter: same message, first option byte
   fixed; `more` = further controlState bytes follow (shortTermAdjustment). They
   are not separate entries of the ISO registry. *)
ReqVariant == [
  ReturnControlToECU  |-> [iocp |-> 0, more |-> FALSE],
  ResetToDefault      |-> [iocp |-> 1, more |-> FALSE],
  FreezeCurrentState  |-> [iocp |-> 2, more |-> FALSE],
  ShortTermAdjustment |-> [iocp |-> 3, more |-> TRUE]
]
VariantKinds == DOMAIN ReqVariant
RegReqKinds == ReqKinds \ VariantKinds

(* ISO 14229-1 positive response messages and the negative response message.
   Only unambiguous structure is written down: conditional trailing parameters
   are optional / variable records (min 0). *)
RespLayout == [
  DiagnosticSessionControl |-> <<Sid(80), U("sf", 1), Rest("record", 0)>>,
  ECUReset                 |-> <<Sid(81), U("sf", 1), OptU("has_pdt", "pdt", 1)>>,
  SecurityAccess           |-> <<Sid(103), U("sf", 1), Rest("seed", 0)>>,
  CommunicationControl     |-> <<Sid(104), U("sf", 1)>>,
  TesterPresent            |-> <<Sid(126), Sub(0)>>,
  ControlDTCSetting        |-> <<Sid(197), U("sf", 1)>>,
  ReadDataByIdentifier     |-> <<Sid(98), U("did", 2), Rest("record", 1)>>,
  ReadMemoryByAddress      |-> <<Sid(99), Rest("record", 1)>>,
  DefineByIdentifier       |-> <<Sid(108), Sub(1), U("dddid", 2)>>,
  DefineByMemoryAddress    |-> <<Sid(108), Sub(2), U("dddid", 2)>>,
  ClearDynamicallyDefinedDataIdentifier |-> <<Sid(108), Sub(3), OptU("has_id", "dddid", 2)>>,
  WriteDataByIdentifier    |-> <<Sid(110), U("did", 2)>>,
  WriteMemoryByAddress     |-> <<Sid(125), Mem(FALSE)>>,
  ClearDiagnosticInformation |-> <<Sid(84)>>,
  ReportNumberOfDTCByStatusMask |-> DtcCountResp(1),
  ReportNumberOfMirrorMemoryDTCByStatusMask |-> DtcCountResp(17),
  ReportNumberOfEmissionsRelatedOBDDTCByStatusMask |-> DtcCountResp(18),
  ReportDTCByStatusMask    |-> DtcListResp(2),
  ReportSupportedDTC       |-> DtcListResp(10),
  ReportFirstTestFailedDTC |-> DtcListResp(11),
  ReportFirstConfirmedDTC  |-> DtcListResp(12),
  ReportMostRecentTestFailedDTC |-> DtcListResp(13),
  ReportMostRecentConfirmedDTC |-> DtcListResp(14),
  ReportMirrorMemoryDTCByStatusMask |-> DtcListResp(15),
  ReportEmissionsRelatedOBDDTCByStatusMask |-> DtcListResp(19),
  ReportDTCWithPermanentStatus |-> DtcListResp(21),
  ReportDTCExtDataRecordByDTCNumber |-> <<Sid(89), Sub(6), U("dtc", 3), U("status", 1), Ext>>,
  InputOutputControlByIdentifier |-> IocbiResp,
  ReturnControlToECU       |-> IocbiResp,
  ResetToDefault           |-> IocbiResp,
  FreezeCurrentState       |-> IocbiResp,
  ShortTermAdjustment      |-> IocbiResp,
  StartRoutine             |-> RoutineResp(1),
  StopRoutine              |-> RoutineResp(2),
  RequestRoutineResults    |-> RoutineResp(3),
  RequestDownload          |-> <<Sid(116), Lfi>>,
  RequestUpload            |-> <<Sid(117), Lfi>>,
  TransferData             |-> <<Sid(118), U("bsc", 1), Rest("record", 0)>>,
  RequestTransferExit      |-> <<Sid(119), Rest("record", 0)>>,
  NegativeResponse         |-> <<Sid(127), U("rsid", 1), U("nrc", 1)>>
]
RespKinds == DOMAIN RespLayout
RegRespKinds == RespKinds \ VariantKinds

-----------------------------------------------------------------------------
(* generic encoder *)
ParOk(par, v) == CASE par = "any" -> TRUE [] par = "odd" -> v % 2 = 1 [] par = "even" -> v % 2 = 0

\* WriteMemoryByAddress: memorySize may be left to the length of the data record
MemSizes(f) == IF "size_auto" \in DOMAIN f /\ f.size_auto THEN <<NumBig(Len(f.record))>> ELSE f.sizes
MaxWidth(vs) == IF vs = <<>> THEN 0 ELSE CHOOSE m \in {WidthOf(vs[i]) : i \in 1..Len(vs)} :
                                          \A i \in 1..Len(vs) : WidthOf(vs[i]) <= m
\* the format byte: given, or minimal widths (>= 1 byte each) when left to the library
AlfidOf(f) == IF f.alfid_auto THEN 16 * MaxWidth(MemSizes(f)) + MaxWidth(f.addrs) ELSE f.alfid

EncD(d, f) ==
  CASE d.t = "sid"   -> <<d.v>>
    [] d.t = "sf"    -> <<(IF d.fix >= 0 THEN d.fix ELSE f[d.n]) + (IF f.sup THEN 128 ELSE 0)>>
    [] d.t = "sub"   -> <<d.v>>
    [] d.t = "u"     -> Bytes(f[d.n], d.w)
    [] d.t = "nib"   -> <<f[d.hi] * 16 + f[d.lo]>>
    [] d.t = "mem"   -> LET a == AlfidOf(f)  ss == MemSizes(f) IN
                        <<a>> \o Concat([i \in 1..Len(f.addrs) |->
                                           Pad(Strip(f.addrs[i].b), a % 16) \o Pad(Strip(ss[i].b), a \div 16)],
                                        Len(f.addrs))
    [] d.t = "rest"  -> f[d.n]
    [] d.t = "rest2" -> f[d.n1] \o f[d.n2]
    [] d.t = "grp"   -> LET cnt == Len(f[d.ns[1]]) IN
                        Concat([i \in 1..cnt |->
                                  Concat([j \in 1..Len(d.ns) |-> Bytes(f[d.ns[j]][i], d.ws[j])], Len(d.ns))],
                               cnt)
    [] d.t = "optu"  -> IF f[d.flag] THEN Bytes(f[d.n], d.w) ELSE <<>>
    [] d.t = "lfi"   -> <<f.lfi>> \o Pad(Strip(f.blocklen.b), f.lfi \div 16)
    [] d.t = "ext"   -> IF f.has_rec THEN <<f.recnum>> \o f.data ELSE <<>>

Enc(L, f) == Concat([i \in 1..Len(L) |-> EncD(L[i], f)], Len(L))

-----------------------------------------------------------------------------
(* generic decoder: [ok, f]; ok = FALSE iff the bytes break the layout's
   length / format structure *)
Fail == [ok |-> FALSE, f |-> <<>>]

RECURSIVE GrpFields(_, _, _, _, _)
GrpFields(d, b, p, cnt, j) ==
  IF j = 0 THEN <<>>
  ELSE LET g == SumTo(d.ws, Len(d.ws))
           off == SumTo(d.ws, j - 1)
       IN (d.ns[j] :> [i \in 1..cnt |-> BE(SubSeq(b, p + (i - 1) * g + off,
                                                    p + (i - 1) * g + off + d.ws[j] - 1))])
          @@ GrpFields(d, b, p, cnt, j - 1)

RECURSIVE DecAt(_, _, _, _, _)
DecAt(L, i, b, p, acc) ==
  IF i > Len(L) THEN [ok |-> (p = Len(b) + 1), f |-> acc]
  ELSE
    LET d == L[i]
        n == Len(b) - p + 1          \* bytes left
    IN
    CASE d.t = "sid" ->
           IF n >= 1 /\ b[p] = d.v THEN DecAt(L, i + 1, b, p + 1, acc) ELSE Fail
      [] d.t = "sf" ->
           IF n >= 1 /\ (d.fix < 0 \/ b[p] % 128 = d.fix) /\ ParOk(d.par, b[p] % 128)
           THEN DecAt(L, i + 1, b, p + 1,
                      (IF d.fix < 0 THEN (d.n :> (b[p] % 128)) ELSE <<>>) @@ ("sup" :> (b[p] >= 128)) @@ acc)
           ELSE Fail
      [] d.t = "sub" ->
           IF n >= 1 /\ b[p] = d.v THEN DecAt(L, i + 1, b, p + 1, acc) ELSE Fail
      [] d.t = "u" ->
           IF n >= d.w THEN DecAt(L, i + 1, b, p + d.w, (d.n :> BE(SubSeq(b, p, p + d.w - 1))) @@ acc)
           ELSE Fail
      [] d.t = "nib" ->
           IF n >= 1 THEN DecAt(L, i + 1, b, p + 1, (d.hi :> (b[p] \div 16)) @@ (d.lo :> (b[p] % 16)) @@ acc)
           ELSE Fail
      [] d.t = "mem" ->
           IF n < 1 THEN Fail
           ELSE LET a == b[p]  aw == a % 16  sw == a \div 16  g == aw + sw  m == n - 1
                    cnt == IF d.multi THEN (IF g > 0 THEN m \div g ELSE 0) ELSE 1
                IN IF aw = 0 \/ sw = 0 THEN Fail
                   ELSE IF d.multi /\ (m % g # 0 \/ cnt < 1) THEN Fail
                   ELSE IF ~d.multi /\ m < g THEN Fail
                   ELSE DecAt(L, i + 1, b, p + 1 + cnt * g,
                          ("alfid" :> a)
                          @@ ("addrs" :> [j \in 1..cnt |->
                                Big(SubSeq(b, p + 1 + (j - 1) * g, p + (j - 1) * g + aw))])
                          @@ ("sizes" :> [j \in 1..cnt |->
                                Big(SubSeq(b, p + 1 + (j - 1) * g + aw, p + j * g))])
                          @@ acc)
      [] d.t = "rest" ->
           IF n < d.min THEN Fail
           ELSE DecAt(L, i + 1, b, Len(b) + 1, (d.n :> SubSeq(b, p, Len(b))) @@ acc)
      [] d.t = "rest2" ->
           IF n < d.min THEN Fail
           ELSE DecAt(L, i + 1, b, Len(b) + 1, (d.n1 :> SubSeq(b, p, Len(b))) @@ (d.n2 :> <<>>) @@ acc)
      [] d.t = "grp" ->
           LET g == SumTo(d.ws, Len(d.ws)) IN
           IF n % g # 0 \/ n \div g < d.min THEN Fail
           ELSE DecAt(L, i + 1, b, Len(b) + 1, GrpFields(d, b, p, n \div g, Len(d.ns)) @@ acc)
      [] d.t = "optu" ->
           IF n = 0 THEN DecAt(L, i + 1, b, p, (d.flag :> FALSE) @@ (d.n :> 0) @@ acc)
           ELSE IF n = d.w
                THEN DecAt(L, i + 1, b, p + d.w, (d.flag :> TRUE) @@ (d.n :> BE(SubSeq(b, p, p + d.w - 1))) @@ acc)
                ELSE Fail
      [] d.t = "lfi" ->
           IF n < 1 THEN Fail
           ELSE LET w == b[p] \div 16 IN
                IF w = 0 \/ n # 1 + w THEN Fail
                ELSE DecAt(L, i + 1, b, Len(b) + 1,
                           ("lfi" :> b[p]) @@ ("blocklen" :> Big(SubSeq(b, p + 1, Len(b)))) @@ acc)
      [] d.t = "ext" ->
           IF n = 0 THEN DecAt(L, i + 1, b, p, ("has_rec" :> FALSE) @@ ("recnum" :> 0) @@ ("data" :> <<>>) @@ acc)
           ELSE DecAt(L, i + 1, b, Len(b) + 1,
                      ("has_rec" :> TRUE) @@ ("recnum" :> b[p]) @@ ("data" :> SubSeq(b, p + 1, Len(b))) @@ acc)

Dec(L, b) == DecAt(L, 1, b, 1, <<>>)

-----------------------------------------------------------------------------
(* ISO registry: which kind a byte string belongs to (service id, then
   sub-function where the service has one; SecurityAccess: odd = requestSeed,
   even = sendKey). "none" = no layout known for these bytes. *)
Selects(L, b, isReq) ==
  /\ Len(b) >= 1 /\ b[1] = L[1].v
  /\ (Len(L) >= 2 /\ L[2].t = "sf" /\ (L[2].fix >= 0 \/ L[2].par # "any"))
        => (Len(b) >= 2 /\ (L[2].fix < 0 \/ b[2] % 128 = L[2].fix) /\ ParOk(L[2].par, b[2] % 128))
  /\ (Len(L) >= 2 /\ L[2].t = "sub") => (Len(b) >= 2 /\ b[2] = L[2].v)

ReqKindOf(b) ==
  LET S == {k \in RegReqKinds : Selects(ReqLayout[k], b, TRUE)} IN
  IF Cardinality(S) = 1 THEN CHOOSE k \in S : TRUE ELSE "none"
RespKindOf(b) ==
  LET S == {k \in RegRespKinds : Selects(RespLayout[k], b, FALSE)} IN
  IF Cardinality(S) = 1 THEN CHOOSE k \in S : TRUE ELSE "none"

-----------------------------------------------------------------------------
(* documented ranges (statement of C01): sub-function 0..0x7F (requestSeed odd,
   sendKey even), identifiers 0..0xFFFF, groupOfDTC / DTC 0..0xFFFFFF, single
   bytes 0..0xFF, compression / encryption 0..15, format nibbles 1..15,
   address / size non-negative and representable in the stated (or at most 15)
   bytes.  "unspec": ISO requires a non-empty record / at least one group but
   gallia documents no range -- every outcome is accepted. *)
RangeD(d, f) ==
  CASE d.t = "sf" ->
         IF d.fix >= 0 THEN "in"
         ELSE IF f[d.n] \in 0..127 /\ ParOk(d.par, f[d.n]) THEN "in" ELSE "out"
    [] d.t = "u" -> IF f[d.n] >= 0 /\ f[d.n] < Pow(d.w) THEN "in" ELSE "out"
    [] d.t = "nib" -> IF f[d.hi] \in 0..15 /\ f[d.lo] \in 0..15 THEN "in" ELSE "out"
    [] d.t = "mem" ->
         LET as == f.addrs  ss == MemSizes(f)  cnt == Len(as) IN
         IF \E i \in 1..cnt : as[i].neg \/ ss[i].neg THEN "out"
         ELSE IF f.alfid_auto
              THEN IF \E i \in 1..cnt : WidthOf(as[i]) > 15 \/ WidthOf(ss[i]) > 15 THEN "out"
                   ELSE IF cnt = 0 THEN "unspec" ELSE "in"
              ELSE IF f.alfid \notin 0..255 THEN "out"
                   ELSE IF f.alfid % 16 = 0 \/ f.alfid \div 16 = 0 THEN "out"
                   ELSE IF \E i \in 1..cnt : \/ Len(Strip(as[i].b)) > f.alfid % 16
                                             \/ Len(Strip(ss[i].b)) > f.alfid \div 16 THEN "out"
                   ELSE IF cnt = 0 THEN "unspec" ELSE "in"
    [] d.t = "rest" -> IF Len(f[d.n]) < d.min THEN "unspec" ELSE "in"
    [] d.t = "rest2" -> IF Len(f[d.n1]) < d.min THEN "unspec" ELSE "in"
    [] d.t = "grp" ->
         LET cnt == Len(f[d.ns[1]]) IN
         IF \E j \in 1..Len(d.ns) : \E i \in 1..cnt : ~(f[d.ns[j]][i] >= 0 /\ f[d.ns[j]][i] < Pow(d.ws[j]))
         THEN "out"
         ELSE IF cnt < d.min THEN "unspec" ELSE "in"
    [] d.t = "optu" -> IF f[d.flag] => (f[d.n] >= 0 /\ f[d.n] < Pow(d.w)) THEN "in" ELSE "out"
    [] OTHER -> "in"

Range(L, f) ==
  IF \E i \in 1..Len(L) : RangeD(L[i], f) = "out" THEN "out"
  ELSE IF \E i \in 1..Len(L) : RangeD(L[i], f) = "unspec" THEN "unspec"
  ELSE "in"

\* shortTermAdjustment without controlState bytes: ISO requires them, gallia documents nothing
VariantUnspec(k, f) == k \in VariantKinds /\ ReqVariant[k].more /\ Len(f.option) < 2
ReqRange(k, f) == LET r == Range(ReqLayout[k], f) IN
                  IF r = "in" /\ VariantUnspec(k, f) THEN "unspec" ELSE r

-----------------------------------------------------------------------------
(* field agreement: xf = fields exposed by the implementation object, df =
   fields the layout places in the bytes.  Every exposed field must be a field
   of the layout with the same value; the two undelimited IOCBI records are
   compared as their concatenation (ISO cannot tell them apart). *)
Rest2Names(L) == UNION {{L[i].n1, L[i].n2} : i \in {j \in 1..Len(L) : L[j].t = "rest2"}}
Agree(L, xf, df) ==
  /\ \A n \in (DOMAIN xf) \ Rest2Names(L) : n \in DOMAIN df /\ xf[n] = df[n]
  /\ \A i \in 1..Len(L) :
        (L[i].t = "rest2" /\ L[i].n1 \in DOMAIN xf /\ L[i].n2 \in DOMAIN xf)
           => (xf[L[i].n1] \o xf[L[i].n2] = df[L[i].n1] \o df[L[i].n2])

-----------------------------------------------------------------------------
(* C01 verdict for one recorded request execution x:
   x.kind, x.f          the case (kind of the class that was instantiated, parameters)
   x.built [ok]         constructor returned
   x.pdu   [ok, b]      .pdu returned bytes
   x.fp    [ok, kind, f, b]   <Class>.from_pdu(pdu)
   x.dyn   [typed, kind, f, b] UDSRequest.parse_dynamic(pdu)
   x.wire  [has, ok, b] bytes UDSClient.<method>() handed to transport.write *)
\* all clauses a request execution breaks, in the order of the statement
\* (<<>> = the execution satisfies C01)
ReqBroken(x) ==
  LET L == ReqLayout[x.kind]
      r == ReqRange(x.kind, x.f)
  IN
  IF r = "unspec" THEN <<>>
  ELSE IF r = "out"
       THEN IF x.built.ok /\ x.pdu.ok THEN <<"Q4/out-of-range-not-refused">>
            ELSE IF x.wire.has /\ x.wire.ok THEN <<"Q4/out-of-range-on-wire">>
            ELSE <<>>
  ELSE
    LET e == Enc(L, x.f)
        d == Dec(L, e)
        rk == ReqKindOf(e)
        q2 == IF ~x.fp.ok THEN <<"Q2/parse-back-raises">>
              ELSE IF x.fp.kind # x.kind THEN <<"Q2/parse-back-kind">>
              ELSE IF x.fp.b # e THEN <<"Q2/parse-back-bytes">>
              ELSE IF ~Agree(L, x.fp.f, d.f) THEN <<"Q2/parse-back-fields">>
              ELSE <<>>
        q3 == IF ~x.dyn.typed THEN <<"Q3/degraded-to-raw">>
              ELSE IF x.dyn.kind # rk THEN <<"Q3/dynamic-kind">>
              ELSE IF x.dyn.b # e THEN <<"Q3/dynamic-bytes">>
              ELSE IF ~Agree(ReqLayout[rk], x.dyn.f, Dec(ReqLayout[rk], e).f) THEN <<"Q3/dynamic-fields">>
              ELSE <<>>
        qw == IF x.wire.has /\ (~x.wire.ok \/ x.wire.b # e) THEN <<"Q1/wire-bytes">> ELSE <<>>
    IN
    IF ~d.ok \/ rk = "none" THEN <<"SPEC/layout-table-inconsistent">>
    ELSE IF ~x.built.ok THEN <<"Q1/in-range-refused">> \o qw
    ELSE IF ~x.pdu.ok THEN <<"Q1/serialise-raises">> \o qw
    ELSE IF x.pdu.b # e THEN <<"Q1/layout">> \o qw
    ELSE q2 \o q3 \o qw
ReqVerdict(x) == LET br == ReqBroken(x) IN IF br = <<>> THEN "ok" ELSE br[1]

(* C02 verdict for one recorded response parse x:
   x.b   received bytes;  x.v in {"reject", "raw", "typed"};  x.dyn = came from
   parse_dynamic or a client-side entry point built on it (helpers.parse_pdu,
   UDSClient.request: registry kind must match) or from <Class>.from_pdu;
   x.kind, x.f exposed kind / fields (typed);  x.re [ok, b] re-serialisation *)
RespBroken(x) ==
  IF x.v = "reject" THEN <<>>
  ELSE IF x.v = "raw" THEN (IF x.re.ok /\ x.re.b = x.b THEN <<>> ELSE <<"R2/raw-reencode">>)
  ELSE
    LET L == RespLayout[x.kind]
        d == Dec(L, x.b)
        r13 == IF x.dyn /\ RespKindOf(x.b) # x.kind THEN <<"R1/kind-not-iso-registry">>
               ELSE IF ~d.ok THEN <<"R3/length-rule">>
               ELSE IF ~Agree(L, x.f, d.f) THEN <<"R1/fields">>
               ELSE <<>>
        r2 == IF ~x.re.ok THEN <<"R2/reencode-raises">>
              ELSE IF x.re.b # x.b THEN <<"R2/reencode">>
              ELSE <<>>
    IN r13 \o r2
RespVerdict(x) == LET br == RespBroken(x) IN IF br = <<>> THEN "ok" ELSE br[1]
=============================================================================
