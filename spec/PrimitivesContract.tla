------------------------- MODULE PrimitivesContract -------------------------
(* Growth item X10, contract layer (operators only): the primitive UDS commands `gallia primitive uds
   {wdbi, rtcl, iocbi, rmba, wmba, dtc read|clear|control, ecu-reset, ping, vin, dddi id|mem|clear}`
   (rdbi and pdu: X09, PduFuzzContract R0..R3).

   STATEMENT (growth/X10.json):
     "Each primitive sends exactly the ISO 14229-1 request(s) its options describe (service, sub-function,
      identifiers, address / size fields, data), each once (ping: `count` times, `interval` apart; rtcl: start,
      stop, results in that order, stop / results delayed as requested), in the session given by --session; when
      the ECU refuses that session, or when the session check the command performs reads another session, the
      request is not sent and the command fails with a non-zero exit status.  What the command reports is what
      the ECU really answered: a positive response is reported as a result together with the returned data and
      exit status 0, a negative response is reported with its response code and never as a success, nothing is
      reported as a success for a request that was never answered.  Every option combination the help texts
      describe as valid is accepted, one they describe as invalid sends nothing."

   SOURCES, clause by clause (documented behaviour only; src/gallia/commands/primitive/uds/*.py):
   (R0) the command terminates: ping.py help `count` "limit number of pings to this amount" (no count: unlimited,
        not demanded); all others are straight-line programs.
   (R1) request shape and multiplicity.  Class docstrings / SHORT_HELP name the service ("WriteDataByIdentifier",
        "RoutineControl", "InputOutputControl", "ReadMemoryByAddress", "WriteMemoryByAddress", "Read the DTCs using
        the ReadDTCInformation service", "Clear the DTCs using the ClearDiagnosticInformation service", "Stop or resume
        the setting of DTCs using the ControlDTCSetting service", "ECUReset", "ping ECU via TesterPresent", "request
        VIN", "DefineByIdentifier", "DefineByMemoryAddress", "ClearDynamicallyDefinedDataIdentifier"); help texts of the
        options name the fields: data_identifier "The data identifier", data "The data which should be written",
        data_file "The path to a file with the binary data which should be written", routine_identifier, start "Start
        the routine with a startRoutine request (this task is always executed first)", stop "Stop the routine with a
        stopRoutine request (... executed after starting the routine if --start is given as well)", results "Read the
        routine results with a requestRoutineResults request (this task is always executed last)", *_parameters "The
        routineControlOptionRecord passed to the ... request", control_parameter / new_state / control_enable_mask,
        address "The start address from which data should be read / to which data should be written", length "The
        number of bytes which should be read", mask "The bitmask which is sent to the ECU", group_of_dtc, stop /
        resume, subfunc, count, sources "ID:START:LENGTH" / "ADDRESS:LENGTH", address_format "The
        addressAndLengthFormatIdentifier, which can be set manually or deduced automatically", dddi clear
        data_identifier "Omit if all dynamically defined identifiers should be cleared".
        Layouts: ISO 14229-1: 2E did data; 31 sf rid record (01 start, 02 stop, 03 requestRoutineResults);
        2F did [iocp] [state] [mask] (00 returnControlToECU, 01 resetToDefault, 02 freezeCurrentState, 03
        shortTermAdjustment); 23 alfi address size; 3D alfi address size data (alfi: high nibble = length of the size
        field, low nibble = length of the address field); 19 02 mask; 14 groupOfDTC(3); 85 01 on / 85 02 off;
        11 sf; 3E 00; 22 F1 90 (VIN, ISO 14229-1 C.1); 2C 01 did (source did, position, size)*; 2C 02 did alfi
        (address size)*; 2C 03 [did].
        dtc read: log messages "There are too many codes for (sub)mask ..", "Trying to fetch the error codes
        iteratively.", "Trying to fetch with mask .." after responseTooLong: one request per bit of the mask.
        invalid combinations: validators "Exactly one of data or data-file is required", "No instructions were given
        (start/stop/results)", log message "The parameter group_of_dtc must be in the range 0x00-0xffffff".
   (R2) in the session of --session: help texts session "The session in which the requests are made" (rtcl, iocbi,
        rmba, wmba, dddi), "set session perform test in" (wdbi, ecu-reset), "Session to perform test in" (dtc),
        "set session to perform test" (ping).
   (R3) refused session / failed session check: dedicated handlers `logger.critical("could not change to session:
        ..."); sys.exit(1)` (wdbi), `logger.error("Could not change to requested session: ..."); sys.exit(1)`
        (ping), `except Exception: logger.critical("Could not change to session: ...: ..."); sys.exit(1)` around
        `check_and_set_session()` (rtcl, iocbi, rmba, wmba, dddi), `logger.error("could not change to session: ..");
        return` (ecu-reset: the request is not sent; the exit status is not documented: accepted);
        docstring of ECU.check_and_set_session: "reads the current session and (re)tries to set the session to the
        expected session if they do not match.  Returns True if the current session matches the expected session, or
        if read_session is not supported by the ECU or in the current session"; its log record "Failed to switch
        to session .. after .. attempts".
   (R4) timing: rtcl stop_delay "Delay the stopRoutine request by the given amount of seconds", results_delay
        likewise; ping interval "time interval between two pings".
   (O1) positive outcome: `logger.result("Success")`, `logger.result("Positive response:")`,
        `logger.result("ECU Reset .. succeeded")`, `logger.result("ECU is alive!")`, `logger.result(<vin hex>)`.
   (O2) negative outcome: `logger.error(resp)` / `logger.error(f"start_routine: {resp}")` /
        `logger.warning(f"ECU said: {resp}")` / "ECU Reset .. failed in session: ..: {resp}" (str of a negative
        response is the name of its ISO 14229-1 response code); dtc read: "Could not fetch error codes: ..;
        exiting…" + sys.exit(1).
   (O3) returned data: `logger.result(f"hex: {data.hex()}")` (rtcl routine status record, iocbi control status
        record without the echoed control parameter, rmba data record), vin `logger.result(resp.data_record.hex())`,
        dtc read `f"{dtc:06X} {error_state:02X}"` for every code whose status has a failed or not-completed bit
        (not after "Could not fetch error codes: ..; exiting…": the codes fetched so far are dropped by intent;
        the result records of dtc read are data lines / summaries, never a success claim for one request).
   (O4) nothing is reported for an unanswered request: there is no handler that turns a timeout into a result
        (ecu-reset: `except TimeoutError: logger.error("Timeout")`).

   NOT demanded (sources silent; accepted, counted by Unspecified): retries of an unanswered request (the same
   bytes may reach the ECU several times: property C04); whether requests that follow a negatively answered one are
   still sent; the exit status after a negative response (except dtc read) and after a timeout; the exit status of
   ecu-reset after a refused session; anything after the ECU changed its session BY ITSELF (positive
   DiagnosticSessionControl answer without entering the session and no session read, inactivity fallback);
   dtc control with both or none of --stop / --resume and what it reports; iocbi with a control enable mask but
   without control parameter, with a state for a parameter that takes none or without a state for one that needs
   one; the order of the per-bit requests of dtc read; busyRepeatRequest / responsePending (C04); requests outside
   the command's main() (setup / teardown: X04, X06); which addressAndLengthFormatIdentifier is chosen when none is
   given (any that can hold the values); extra pings while the background TesterPresent worker runs (they are the
   same bytes).

   Trace X:  X.kind, X.opt (denotation of the options, see Want), X.session (0 = option absent),
             X.done ("ok" = exit status 0 | "cfg" = rejected when the configuration was built | "hang" | other),
             X.ev = events in the order they happened:
     [k |-> "q", t, t2, p, r, nrc, a, ms, ph, ib]  request p reached the ECU in ground-truth session t (t2 after it),
                      answered r = "pos" | "neg" (code nrc) | "sil" with bytes a at virtual time ms, in phase ph =
                      "setup" | "main" | "teardown" of the command; ib: the ECU changed session by itself before it
     [k |-> "res", tok, ms, ph]   result record; tok = the even-length hex digit runs of its text as byte sequences
     [k |-> "err", nrcs, tok, ms, ph]   record of level >= WARNING; nrcs = response codes whose ISO names it mentions *)
EXTENDS Naturals, Integers, Sequences, FiniteSets, SequencesExt, TLC

BUSY    == {33, 120}      \* busyRepeatRequest, requestCorrectlyReceived-ResponsePending
TOOLONG == 20             \* responseTooLong
TOL     == 250            \* ms: "interval apart" is met up to this tolerance when every ping is answered at once

RECURSIVE Canon(_)
Canon(s) == IF s # <<>> /\ s[1] = 0 THEN Canon(Tail(s)) ELSE s
Did(n) == <<n \div 256, n % 256>>
B3(n) == <<(n \div 65536) % 256, (n \div 256) % 256, n % 256>>
Min2(a, b) == IF a < b THEN a ELSE b
RECURSIVE Flat(_)
Flat(ss) == IF ss = <<>> THEN <<>> ELSE Head(ss) \o Flat(Tail(ss))
Bits(mask) == {b \in {1, 2, 4, 8, 16, 32, 64, 128} : (mask \div b) % 2 = 1}

IsQ(e)      == e.k = "q"
IsDsc(e)    == IsQ(e) /\ Len(e.p) = 2 /\ e.p[1] = 16
DscTo(e)    == e.p[2] % 128
IsSRead(e)  == IsQ(e) /\ e.p = <<34, 241, 134>>
IsTp(e)     == IsQ(e) /\ e.p[1] = 62
IsMgmt(X, e) == IsDsc(e) \/ IsSRead(e) \/ (IsTp(e) /\ (X.kind # "ping" \/ e.p # <<62, 0>>))
IsSubject(X, e) == IsQ(e) /\ e.ph = "main" /\ ~IsMgmt(X, e)

\* indices of the subject requests; retries of an unanswered request collapse into its last attempt
SubjIdx(X) == SelectSeq([i \in DOMAIN X.ev |-> i], LAMBDA i : IsSubject(X, X.ev[i]))
Collapse(X, idx) ==
  FoldLeft(LAMBDA acc, i : IF acc # <<>> /\ X.ev[Last(acc)].r = "sil" /\ X.ev[Last(acc)].p = X.ev[i].p
                           THEN Append(Front(acc), i) ELSE Append(acc, i), <<>>, idx)
Reqs(X) == Collapse(X, SubjIdx(X))

-----------------------------------------------------------------------------
\* (R1) what the options describe: a sequence of patterns [m, ..., d] (d: requested delay in ms before it)
Exact(p, d) == [m |-> "exact", p |-> p, d |-> d]

WantRtcl(o) ==
  (IF o.start   THEN <<Exact(<<49, 1>> \o Did(o.rid) \o o.sp, 0)>> ELSE <<>>)
  \o (IF o.stop    THEN <<Exact(<<49, 2>> \o Did(o.rid) \o o.tp, o.sdelay)>> ELSE <<>>)
  \o (IF o.results THEN <<Exact(<<49, 3>> \o Did(o.rid) \o o.rp, o.rdelay)>> ELSE <<>>)

\* cp: 0..3 = inputOutputControlParameter, 4 = without control parameter
IocbiSpecified(o) == IF o.cp = 4 THEN o.mask = <<>> /\ o.state # <<>>
                     ELSE IF o.cp = 3 THEN o.state # <<>> ELSE o.state = <<>>
WantIocbi(o) ==
  IF ~IocbiSpecified(o) THEN <<[m |-> "prefix", p |-> <<47>> \o Did(o.did), d |-> 0]>>
  ELSE IF o.cp = 4 THEN <<Exact(<<47>> \o Did(o.did) \o o.state \o o.mask, 0)>>
  ELSE <<Exact(<<47>> \o Did(o.did) \o <<o.cp>> \o o.state \o o.mask, 0)>>

WantDtcCtl(o) == IF o.stop /\ ~o.resume THEN <<Exact(<<133, 2>>, 0)>>
                 ELSE IF o.resume /\ ~o.stop THEN <<Exact(<<133, 1>>, 0)>>
                 ELSE <<[m |-> "either", ps |-> {<<133, 1>>, <<133, 2>>}, d |-> 0]>>

Want(X) ==
  LET o == X.opt IN
  IF ~o.valid THEN <<>>
  ELSE CASE X.kind = "wdbi"      -> <<Exact(<<46>> \o Did(o.did) \o o.data, 0)>>
         [] X.kind = "rtcl"      -> WantRtcl(o)
         [] X.kind = "iocbi"     -> WantIocbi(o)
         [] X.kind = "rmba"      -> <<[m |-> "mem", h |-> <<35>>, addr |-> o.addr, size |-> o.size, data |-> <<>>, d |-> 0]>>
         [] X.kind = "wmba"      -> <<[m |-> "mem", h |-> <<61>>, addr |-> o.addr, size |-> Canon(B3(Len(o.data))),
                                       data |-> o.data, d |-> 0]>>
         [] X.kind = "dtcread"   -> <<Exact(<<25, 2, o.mask>>, 0)>>      \* plus the per-bit requests, see DtcReadShape
         [] X.kind = "dtcclear"  -> <<Exact(<<20>> \o B3(o.group), 0)>>
         [] X.kind = "dtcctl"    -> WantDtcCtl(o)
         [] X.kind = "reset"     -> <<Exact(<<17, o.sf>>, 0)>>
         [] X.kind = "ping"      -> [i \in 1..o.count |-> Exact(<<62, 0>>, IF i = 1 THEN 0 ELSE o.interval)]
         [] X.kind = "vin"       -> <<Exact(<<34, 241, 144>>, 0)>>
         [] X.kind = "dddiid"    -> <<Exact(<<44, 1>> \o Did(o.did)
                                           \o Flat([i \in DOMAIN o.src |-> Did(o.src[i][1]) \o <<o.src[i][2], o.src[i][3]>>]), 0)>>
         [] X.kind = "dddimem"   -> <<[m |-> "dmem", did |-> o.did, src |-> o.src, fmt |-> o.fmt, d |-> 0]>>
         [] X.kind = "dddiclear" -> <<Exact(<<44, 3>> \o (IF o.did < 0 THEN <<>> ELSE Did(o.did)), 0)>>

MatchMem(w, p) ==
  LET n == Len(w.h) IN
  /\ Len(p) >= n + 1
  /\ SubSeq(p, 1, n) = w.h
  /\ LET al == p[n + 1] % 16
         sl == p[n + 1] \div 16
     IN /\ al >= 1 /\ sl >= 1
        /\ Len(p) = n + 1 + al + sl + Len(w.data)
        /\ Canon(SubSeq(p, n + 2, n + 1 + al)) = w.addr
        /\ Canon(SubSeq(p, n + 2 + al, n + 1 + al + sl)) = w.size
        /\ SubSeq(p, n + 2 + al + sl, Len(p)) = w.data

MatchDmem(w, p) ==
  /\ Len(p) >= 5
  /\ SubSeq(p, 1, 4) = <<44, 2>> \o Did(w.did)
  /\ LET al == p[5] % 16
         sl == p[5] \div 16
         k  == Len(w.src)
     IN /\ al >= 1 /\ sl >= 1
        /\ (w.fmt # 0 => p[5] = w.fmt)
        /\ Len(p) = 5 + k * (al + sl)
        /\ \A j \in 1..k :
             LET b == 5 + (j - 1) * (al + sl) IN
             /\ Canon(SubSeq(p, b + 1, b + al)) = w.src[j][1]
             /\ Canon(SubSeq(p, b + al + 1, b + al + sl)) = w.src[j][2]

MatchP(w, p) ==
  CASE w.m = "exact"  -> p = w.p
    [] w.m = "prefix" -> Len(p) >= Len(w.p) /\ SubSeq(p, 1, Len(w.p)) = w.p
    [] w.m = "either" -> p \in w.ps
    [] w.m = "mem"    -> MatchMem(w, p)
    [] w.m = "dmem"   -> MatchDmem(w, p)

\* dtc read: after responseTooLong one request per bit of the mask (order not documented)
DtcSplit(X, K)  == K # <<>> /\ X.ev[K[1]].r = "neg" /\ X.ev[K[1]].nrc = TOOLONG
NWant(X, K) == IF X.kind = "dtcread" /\ X.opt.valid /\ DtcSplit(X, K)
               THEN 1 + Cardinality(Bits(X.opt.mask)) ELSE Len(Want(X))

ShapeProblem(X, K) ==
  LET W == Want(X)
      N == Len(W)
      P(j) == X.ev[K[j]].p
  IN IF ~X.opt.valid THEN (IF K # <<>> THEN "R1/request-sent-for-an-option-combination-documented-as-invalid" ELSE "")
     ELSE IF \E j \in 1..Min2(Len(K), N) : ~MatchP(W[j], P(j))
       THEN "R1/request-differs-from-what-the-options-describe"
     ELSE IF X.kind = "dtcread" /\ DtcSplit(X, K)
       THEN IF \E j \in 2..Len(K) : ~(Len(P(j)) = 3 /\ P(j)[1] = 25 /\ P(j)[2] = 2 /\ P(j)[3] \in Bits(X.opt.mask))
              THEN "R1/request-differs-from-what-the-options-describe"
            ELSE IF \E i, j \in 2..Len(K) : i # j /\ P(i) = P(j)
              THEN "R1/request-sent-more-often-than-documented"
            ELSE ""
     ELSE IF Len(K) > N
       THEN IF X.kind = "ping" /\ X.opt.bg /\ \A j \in 1..Len(K) : P(j) = <<62, 0>> THEN ""
            ELSE "R1/request-sent-more-often-than-documented"
     ELSE ""

-----------------------------------------------------------------------------
\* (R2) (R3) session
MainBefore(X, lim) == {i \in DOMAIN X.ev : i < lim /\ X.ev[i].k = "q" /\ X.ev[i].ph = "main"}
Lim(X, K) == IF K = <<>> THEN Len(X.ev) + 1 ELSE K[1]

\* the ECU refused the session and never accepted it afterwards
Refused(X, K) ==
  X.session # 0 /\ \E i \in MainBefore(X, Lim(X, K)) :
     /\ IsDsc(X.ev[i]) /\ DscTo(X.ev[i]) = X.session /\ X.ev[i].r = "neg"
     /\ ~\E j \in MainBefore(X, Lim(X, K)) : j > i /\ IsDsc(X.ev[j]) /\ DscTo(X.ev[j]) = X.session /\ X.ev[j].r = "pos"

\* the session check of the command: the last thing it learned about the session before the first request is an
\* answered session read naming another session
Learned(X, i) == \/ (IsSRead(X.ev[i]) /\ X.ev[i].r = "pos" /\ Len(X.ev[i].a) >= 4)
                 \/ (IsDsc(X.ev[i]) /\ DscTo(X.ev[i]) = X.session)
CheckFailed(X, K) ==
  X.session # 0 /\ \E i \in MainBefore(X, Lim(X, K)) :
     /\ IsSRead(X.ev[i]) /\ Learned(X, i) /\ Canon(SubSeq(X.ev[i].a, 4, Len(X.ev[i].a))) # Canon(<<X.session>>)
     /\ ~\E j \in MainBefore(X, Lim(X, K)) : j > i /\ Learned(X, j)

\* the ECU changed its session without being asked to (or did not do what it answered)
EcuMoved(X, i) ==
  \/ X.ev[i].ib
  \/ \E j \in 1..(i - 1) : /\ X.ev[j].k = "q"
                           /\ \/ X.ev[j].ib
                              \/ (IsDsc(X.ev[j]) /\ X.ev[j].r = "pos" /\ X.ev[j].t2 # DscTo(X.ev[j]))
                              \/ (~IsDsc(X.ev[j]) /\ X.ev[j].t2 # X.ev[j].t)

MgmtUnanswered(X) == \E i \in DOMAIN X.ev : /\ X.ev[i].k = "q" /\ X.ev[i].ph = "main" /\ X.ev[i].r = "sil"
                                            /\ (IsDsc(X.ev[i]) \/ IsSRead(X.ev[i]))

-----------------------------------------------------------------------------
\* (O1..O4) outcome: the records between a request and the next one (or the end of main)
After(X, K, j) == {i \in DOMAIN X.ev : /\ i > K[j] /\ (j < Len(K) => i < K[j + 1])
                                       /\ X.ev[i].k \in {"res", "err"} /\ X.ev[i].ph = "main"}
ResAfter(X, K, j) == {i \in After(X, K, j) : X.ev[i].k = "res"}
HasTok(e, d) == \E n \in DOMAIN e.tok : e.tok[n] = d
HasPair(e, d1, d2) == \E n \in DOMAIN e.tok : n < Len(e.tok) /\ e.tok[n] = d1 /\ e.tok[n + 1] = d2

\* the data record of a positive answer (ISO 14229-1 response layouts)
DataOf(X, e) ==
  CASE X.kind = "rtcl"  -> IF Len(e.a) >= 4 THEN SubSeq(e.a, 5, Len(e.a)) ELSE <<>>
    [] X.kind = "iocbi" -> IF X.opt.cp = 4 THEN (IF Len(e.a) >= 3 THEN SubSeq(e.a, 4, Len(e.a)) ELSE <<>>)
                           ELSE (IF Len(e.a) >= 4 THEN SubSeq(e.a, 5, Len(e.a)) ELSE <<>>)
    [] X.kind = "rmba"  -> Tail(e.a)
    [] X.kind = "vin"   -> IF Len(e.a) >= 3 THEN SubSeq(e.a, 4, Len(e.a)) ELSE <<>>
    [] OTHER -> <<>>

Reports(X) == X.kind # "dtcctl" /\ X.kind # "dtcread"
PingBg(X)  == X.kind = "ping" /\ X.opt.bg      \* the worker's pings and the command's are the same bytes: not compared
\* DTC records (dtc(3), status(1)) of a positive ReadDTCInformation answer 59 02 availabilityMask records..
DtcRecords(a) == IF Len(a) < 3 THEN {} ELSE
                 {<<SubSeq(a, 4 + 4 * n, 6 + 4 * n), a[7 + 4 * n]>> : n \in 0..(((Len(a) - 3) \div 4) - 1)}
Logged(X, rec) == \E i \in DOMAIN X.ev : X.ev[i].k \in {"res", "err"} /\ HasPair(X.ev[i], rec[1], <<rec[2]>>)

OutcomeProblem(X, K) ==
  LET E(j) == X.ev[K[j]] IN
  IF PingBg(X) THEN ""
  ELSE IF \E j \in DOMAIN K : E(j).r = "pos" /\ Reports(X) /\ ResAfter(X, K, j) = {}
    THEN "O1/positive-response-not-reported"
  ELSE IF \E j \in DOMAIN K : /\ E(j).r = "pos" /\ DataOf(X, E(j)) # <<>>
                              /\ ~\E i \in ResAfter(X, K, j) : HasTok(X.ev[i], DataOf(X, E(j)))
    THEN "O3/returned-data-not-reported"
  ELSE IF X.kind = "dtcread" /\ (\A j \in DOMAIN K : E(j).r = "pos" \/ (E(j).r = "neg" /\ E(j).nrc = TOOLONG))
          /\ \E j \in DOMAIN K : E(j).r = "pos" /\ \E rec \in DtcRecords(E(j).a) : rec[2] # 0 /\ ~Logged(X, rec)
    THEN "O3/trouble-code-not-reported"
  ELSE IF \E j \in DOMAIN K : /\ E(j).r = "neg" /\ E(j).nrc \notin BUSY /\ X.kind # "dtcctl"
                              /\ ~(X.kind = "dtcread" /\ E(j).nrc = TOOLONG)
                              /\ ~\E i \in After(X, K, j) : X.ev[i].k = "err" /\ E(j).nrc \in ToSet(X.ev[i].nrcs)
    THEN "O2/negative-response-code-not-reported"
  ELSE IF \E j \in DOMAIN K : /\ E(j).r = "neg" /\ E(j).nrc \notin BUSY /\ X.kind \notin {"dtcctl", "ping", "dtcread"}
                              /\ ResAfter(X, K, j) # {}
    THEN "O2/negative-response-reported-as-success"
  ELSE IF X.kind = "dtcread" /\ X.done = "ok" /\ \E j \in DOMAIN K : E(j).r = "neg" /\ E(j).nrc \notin BUSY \cup {TOOLONG}
    THEN "O2/negative-response-not-reflected-in-the-exit-status"
  ELSE IF \E j \in DOMAIN K : E(j).r = "sil" /\ ResAfter(X, K, j) # {}
    THEN "O4/success-reported-for-a-request-that-was-never-answered"
  ELSE ""

\* everything went well: every request of the execution was answered, every subject request positively
AllWell(X, K) == /\ \A i \in DOMAIN X.ev : X.ev[i].k = "q" => (X.ev[i].r # "sil" \/ (IsTp(X.ev[i]) /\ X.ev[i].p[2] >= 128))
                 /\ \A j \in DOMAIN K : X.ev[K[j]].r = "pos"
                 /\ ~\E i \in DOMAIN X.ev : IsDsc(X.ev[i]) /\ X.ev[i].r = "neg"

-----------------------------------------------------------------------------
\* (R4) timing
MainStart(X) == LET S == {i \in DOMAIN X.ev : X.ev[i].ph = "main"} IN
                IF S = {} THEN 0 ELSE X.ev[CHOOSE i \in S : \A j \in S : i <= j].ms
TimingProblem(X, K) ==
  LET W == Want(X)
      S == SubjIdx(X)
      \* time of the first attempt of request j (retries collapse into K[j]) and of the last attempt of request j
      First(j) == IF j = 1 THEN X.ev[S[1]].ms
                  ELSE X.ev[CHOOSE i \in ToSet(S) : i > K[j - 1] /\ \A i2 \in ToSet(S) : i2 > K[j - 1] => i <= i2].ms
      T(j) == X.ev[K[j]].ms
      Ref(j) == IF j = 1 THEN MainStart(X) ELSE T(j - 1)
      n == Min2(Len(K), Len(W))
  IN IF X.kind = "dtcread" \/ ~X.opt.valid \/ (X.kind = "ping" /\ X.opt.bg) THEN ""
     ELSE IF \E j \in 1..n : /\ (j = 1 => \E i \in 1..(K[1] - 1) : X.ev[i].ph = "main")   \* main() observably began before
                               /\ First(j) - Ref(j) < W[j].d
       THEN "R4/request-sent-earlier-than-the-documented-delay"
     ELSE IF X.kind = "ping" /\ ~X.opt.bg /\ \E j \in 2..n : X.ev[K[j - 1]].r # "sil" /\ First(j) - T(j - 1) > W[j].d + TOL
       THEN "R4/pings-further-apart-than-the-documented-interval"
     ELSE ""

-----------------------------------------------------------------------------
Unlimited(X) == X.kind = "ping" /\ X.opt.valid /\ X.opt.count = 0

PrimVerdict(X) ==
  LET K  == Reqs(X)
      sp == ShapeProblem(X, K)
      op == OutcomeProblem(X, K)
      tp == TimingProblem(X, K)
      N  == NWant(X, K)
  IN
  IF X.done = "hang" THEN (IF Unlimited(X) THEN "ok" ELSE "R0/command-does-not-terminate")
  ELSE IF X.done = "cfg" THEN (IF X.opt.valid THEN "R1/documented-option-combination-rejected" ELSE "ok")
  ELSE IF Unlimited(X) THEN "ok"
  ELSE IF sp # "" THEN sp
  ELSE IF Refused(X, K) /\ K # <<>> THEN "R3/request-sent-although-the-session-was-refused"
  ELSE IF Refused(X, K) /\ X.done = "ok" /\ X.kind # "reset" THEN "R3/refused-session-not-reported-as-failure"
  ELSE IF CheckFailed(X, K) /\ K # <<>> THEN "R3/request-sent-although-the-session-check-failed"
  ELSE IF CheckFailed(X, K) /\ X.done = "ok" THEN "R3/failed-session-check-not-reported-as-failure"
  ELSE IF X.session # 0 /\ \E j \in DOMAIN K : X.ev[K[j]].t # X.session /\ ~EcuMoved(X, K[j])
    THEN "R2/request-sent-in-another-session"
  ELSE IF /\ Len(K) < N /\ X.opt.valid /\ ~Refused(X, K) /\ ~CheckFailed(X, K) /\ ~MgmtUnanswered(X)
          /\ (K = <<>> \/ X.ev[Last(K)].r = "pos")
    THEN "R1/request-not-sent"
  ELSE IF tp # "" THEN tp
  ELSE IF op # "" THEN op
  ELSE IF X.opt.valid /\ Len(K) = N /\ N > 0 /\ AllWell(X, K) /\ X.done # "ok"
    THEN "O1/positive-outcome-reported-as-failure"
  ELSE "ok"

\* points on which the documented sources are silent in this execution
Unspecified(X) ==
  LET K == Reqs(X) IN
  IF X.done \in {"hang", "cfg"} THEN 0 ELSE
    (IF \E j \in DOMAIN K : X.session # 0 /\ X.ev[K[j]].t # X.session /\ EcuMoved(X, K[j]) THEN 1 ELSE 0)
  + (IF K # <<>> /\ Len(K) < NWant(X, K) /\ X.ev[Last(K)].r = "neg" THEN 1 ELSE 0)
  + (IF \E j \in DOMAIN K : X.ev[K[j]].r = "sil" THEN 1 ELSE 0)
  + (IF \E i \in DOMAIN X.ev : X.ev[i].k = "q" /\ X.ev[i].ph # "main" /\ ~IsMgmt(X, X.ev[i]) /\ ~IsTp(X.ev[i]) THEN 1 ELSE 0)
  + (IF X.kind = "reset" /\ Refused(X, K) THEN 1 ELSE 0)
  + (IF X.kind = "dtcctl" THEN 1 ELSE 0)
  + (IF X.kind = "iocbi" /\ X.opt.valid /\ ~IocbiSpecified(X.opt) THEN 1 ELSE 0)
  + (IF MgmtUnanswered(X) THEN 1 ELSE 0)
=============================================================================
