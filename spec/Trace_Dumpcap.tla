--------------------------- MODULE Trace_Dumpcap ---------------------------
(* Growth item X16: validates executions of the REAL gallia code (Dumpcap.start / sync / stop against the fake
   `dumpcap`, complete runs of a Scanner with --dumpcap) recorded by harness/x16_run.py against the contract layer.
   One initial state per recorded execution; the verdict is total:
       <<"V", id, "ok" | label of the first clause broken>>
       <<"U", id, n>>     number of points at which the documented sources are silent (accepted, counted)
       <<"D", id, 0|1>>   1 = the capture filter also REJECTS traffic that is not the target's (not a clause:
                          the driver reports 0 as design drift) *)
EXTENDS DumpcapContract, Json, IOUtils

T == JsonDeserialize(IOEnv.TRACE_FILE).traces

VARIABLES tid, done
tvars == <<tid, done>>

Verdict(x) == IF x.kind = "cls" THEN ClsVerdict(x) ELSE ScanVerdict(x)
Unspec(x)  == IF x.kind = "cls" THEN ClsUnspec(x) ELSE ScanUnspec(x)
Sel(x)     == IF x.spawned = 1 /\ FilterSpecified(x.tgt) /\ AcceptsTargetTraffic(x.argv.filt, x.tgt)
              THEN (IF Selective(x.argv.filt, x.tgt) THEN 1 ELSE 0) ELSE 1

TInit == tid \in 1..Len(T) /\ done = FALSE
TNext == /\ ~done
         /\ LET x == T[tid] IN
            /\ PrintT(<<"V", x.id, Verdict(x)>>)
            /\ PrintT(<<"U", x.id, Unspec(x)>>)
            /\ PrintT(<<"D", x.id, Sel(x)>>)
         /\ done' = TRUE /\ UNCHANGED tid
TSpec == TInit /\ [][TNext]_tvars
=============================================================================
