------------------------------- MODULE Dumpcap -------------------------------
(* Growth item X16 -- DESIGN LAYER of the capture life cycle, shaped like gallia/dumpcap.py and Scanner.setup() /
   teardown() in gallia/command/base.py: one action per await point.

     client (Dumpcap.start / sync / stop, Scanner.setup / main / teardown)
        Begin      build the command line from the target (Cmd), spawn the process (or fail to)
        StartCheck after the start-up sleep: a process that already ended with an error -> None, else the object
                   (the compressor task is created with it)
        SyncOk / SyncTimeout      wait for the ready event at most `timeout`
        Connect / ConnectRefused  (scan) load_transport(target).connect(target)
        MainOk / MainFail         (scan)
        Teardown                  (scan) transport.close(), then the stop protocol
        StopCall, CleanupWait, Terminate, WaitProc, WaitComp     Dumpcap.stop()
     capture process (environment: every scripted behaviour of harness/x16_fake.py)
        ProcWrite, ProcDie, ProcSelfExit, ProcSignal (exit | tail | ignore), HKill (the harness kills an ignoring
        process the client waits for), Reap (the child watcher)
     compressor task
        CompRead (pipe -> chunk; first chunk sets the ready event), CompWrite (chunk -> gzip file), CompEof (close)

   Bytes are chunk numbers 1, 2, ...; the pipe, the chunk in flight and the file are sequences of them.  When the
   client is done (pc = "Fin") the observation record `Obs` -- same shape as the records harness/x16_run.py measures
   on the real code -- must satisfy the contract (spec/DumpcapContract.tla).

   Deviation constants (negative controls; all FALSE = the design):
     Dev_PortZero      a URI without a port makes the filter name port 0 instead of the port the transport uses
                       (the tree as found, finding X16-F1)
     Dev_CanBigEndian  the CAN ids are put into the filter most significant byte first
     Dev_UnixSpawns    a capture is started for unix socket targets
     Dev_SyncAlwaysOk  sync() returns without the ready event
     Dev_TermFirst     stop() signals the process before the cleanup wait
     Dev_NoProcWait    stop() does not wait for the process
     Dev_NoJoin        stop() does not wait for the compressor
     Dev_DropAfterTerm the compressor stops reading when the process is signalled
     Dev_DupChunk      the compressor writes a chunk twice
     Dev_ConnectFirst  (scan) the connection is made before the capture is started
     Dev_NoFinally     (scan) teardown is skipped when main fails
     Dev_SilentFailure (scan) a capture that cannot be started is neither logged nor turned into an error
*)
EXTENDS DumpcapContract

CONSTANTS Targets, Scripts, Paths, Modes, MaxChunks,
          Dev_PortZero, Dev_CanBigEndian, Dev_UnixSpawns, Dev_SyncAlwaysOk, Dev_TermFirst, Dev_NoProcWait,
          Dev_NoJoin, Dev_DropAfterTerm, Dev_DupChunk, Dev_ConnectFirst, Dev_NoFinally, Dev_SilentFailure

VARIABLES mode, tg, sc, path, mainHow, connHow,   \* the case (chosen in Init)
          pc, startR, syncR, stopR, exitC, errlog, reported, connected, cleanupDone, termGap,
          ps, code, sigp, sigs, pw, tailDone, killed, reaped, spawned, argv,
          pipe, hold, file, fstate, comp, readyEv,
          order

vars == <<mode, tg, sc, path, mainHow, connHow, pc, startR, syncR, stopR, exitC, errlog, reported, connected,
          cleanupDone, termGap, ps, code, sigp, sigs, pw, tailDone, killed, reaped, spawned, argv,
          pipe, hold, file, fstate, comp, readyEv, order>>

CLEANUP_MS == 100

----------------------------------------------------------------------------
(* the command line, as the code builds it *)

Lo(x) == x % 256
Hi(x) == (x \div 256) % 256
IdNode(id) == [op |-> "bytes", off |-> 0, care |-> <<1, 1>>, neg |-> 0,
               val |-> IF Dev_CanBigEndian THEN <<Hi(id), Lo(id)>> ELSE <<Lo(id), Hi(id)>>]

TgtOf(t) == [kind |-> t.kind, addrs |-> t.addrs, port |-> t.port, iface |-> t.iface, ids |-> t.ids, named |-> t.named]

\* "none" = no command line at all (start() returns None and logs)
Cmd(t) ==
  CASE t.kind = "unix" -> IF Dev_UnixSpawns THEN [iface |-> "any", wdash |-> 1, nf |-> 0, filt |-> [op |-> "true"]]
                          ELSE [iface |-> "none"]
    [] t.kind = "can"  ->
         IF Len(t.ids) = 2
         THEN IF t.ids[1] > 2048 \/ t.ids[2] > 2048 THEN [iface |-> "none"]
              ELSE [iface |-> t.iface, wdash |-> 1, nf |-> 1,
                    filt |-> [op |-> "or", l |-> IdNode(t.ids[1]), r |-> IdNode(t.ids[2])]]
         ELSE [iface |-> t.iface, wdash |-> 1, nf |-> 1, filt |-> [op |-> "true"]]
    [] OTHER ->
         LET p == IF t.uriPort >= 0 THEN t.uriPort ELSE IF Dev_PortZero \/ t.port < 0 THEN 0 ELSE t.port
         IN  [iface |-> "any", wdash |-> 1, nf |-> 1,
              filt |-> [op |-> "and",
                        l |-> [op |-> "host", dir |-> "any", fam |-> "any", addr |-> t.addrs[1].a],
                        r |-> [op |-> "port", proto |-> "tcp", dir |-> "any", lo |-> p, hi |-> p]]]

NoArgv == [iface |-> "", wdash |-> 0, nf |-> 0, filt |-> [op |-> "true"]]

----------------------------------------------------------------------------
Init ==
  /\ mode \in Modes /\ tg \in Targets /\ sc \in Scripts /\ path \in Paths
  /\ mainHow \in (IF mode = "scan" THEN {"ok", "conn"} ELSE {"ok"})
  /\ connHow \in (IF mode = "scan" THEN {"ok", "refused"} ELSE {"ok"})
  /\ pc = "Begin" /\ startR = "?" /\ syncR = "skipped" /\ stopR = "skipped" /\ exitC = 0 /\ errlog = 0 /\ reported = 0
  /\ connected = 0 /\ cleanupDone = FALSE /\ termGap = -1
  /\ ps = "none" /\ code = -1 /\ sigp = FALSE /\ sigs = 0 /\ pw = 0 /\ tailDone = FALSE /\ killed = 0 /\ reaped = FALSE
  /\ spawned = 0 /\ argv = NoArgv
  /\ pipe = <<>> /\ hold = <<>> /\ file = <<>> /\ fstate = "none" /\ comp = "none" /\ readyEv = FALSE
  /\ order = IF mode = "scan" THEN <<"setup">> ELSE <<"start_call">>

Ev(e) == order' = Append(order, e)

UnchangedCase == UNCHANGED <<mode, tg, sc, path, mainHow, connHow>>
UnchangedProc == UNCHANGED <<ps, code, sigp, sigs, pw, tailDone, killed, reaped>>
UnchangedComp == UNCHANGED <<pipe, hold, file, fstate, comp, readyEv>>
UnchangedClient == UNCHANGED <<pc, startR, syncR, stopR, exitC, errlog, reported, connected, cleanupDone, termGap, spawned, argv>>

\* where the client goes when start() has returned None
AfterNone ==
  IF mode = "cls" THEN pc' = "Fin" /\ UNCHANGED <<errlog, exitC>>
  ELSE /\ pc' = "Connect"
       /\ errlog' = IF Dev_SilentFailure THEN errlog ELSE 1
       /\ UNCHANGED exitC

(* ------------------------------ client: start ------------------------------ *)
\* Scanner.setup(): `--dumpcap` wanted but no executable -> RuntimeError (the command ends with an error)
ScanNotAvailable ==
  /\ pc = "Begin" /\ mode = "scan" /\ path # "fake" /\ ~Dev_SilentFailure
  /\ pc' = "Fin" /\ exitC' = 70 /\ errlog' = 1 /\ startR' = "none" /\ Ev("done")
  /\ UNCHANGED <<syncR, stopR, reported, connected, cleanupDone, termGap, spawned, argv>>
  /\ UnchangedCase /\ UnchangedProc /\ UnchangedComp

ScanConnectFirst ==
  /\ pc = "Begin" /\ mode = "scan" /\ Dev_ConnectFirst /\ connected = 0 /\ connHow = "ok"
  /\ connected' = 1 /\ Ev("connect")
  /\ UNCHANGED <<pc, startR, syncR, stopR, exitC, errlog, reported, cleanupDone, termGap, spawned, argv>>
  /\ UnchangedCase /\ UnchangedProc /\ UnchangedComp

Begin ==
  /\ pc = "Begin"
  /\ ~(mode = "scan" /\ path # "fake" /\ ~Dev_SilentFailure)
  /\ ~(mode = "scan" /\ Dev_ConnectFirst /\ connected = 0 /\ connHow = "ok")
  /\ LET c == Cmd(tg) IN
     IF c.iface = "none" \/ path # "fake"
     THEN \* no command line (unix, extended ids) or the executable cannot be spawned: None + a log record
          /\ startR' = "none" /\ reported' = 1 /\ AfterNone
          /\ Ev(IF mode = "cls" THEN "start_ret" ELSE "nocapture")
          /\ UNCHANGED <<spawned, argv, ps, code>>
     ELSE /\ spawned' = 1 /\ argv' = c /\ ps' = "run" /\ pc' = "Slept" /\ Ev("spawn")
          /\ UNCHANGED <<startR, reported, errlog, exitC, code>>
  /\ UNCHANGED <<syncR, stopR, connected, cleanupDone, termGap, sigp, sigs, pw, tailDone, killed, reaped>>
  /\ UnchangedCase /\ UnchangedComp

\* after the start-up sleep
StartCheck ==
  /\ pc = "Slept"
  /\ IF ps = "dead" /\ code > 0
     THEN /\ startR' = "none" /\ reported' = 1 /\ AfterNone
          /\ Ev(IF mode = "cls" THEN "start_ret" ELSE "nocapture")
          /\ UNCHANGED <<comp, fstate>>
     ELSE /\ startR' = "obj" /\ pc' = "Sync" /\ comp' = "run" /\ fstate' = "open"
          /\ Ev(IF mode = "cls" THEN "start_ret" ELSE "started")
          /\ UNCHANGED <<reported, errlog, exitC>>
  /\ UNCHANGED <<syncR, stopR, connected, cleanupDone, termGap, spawned, argv, pipe, hold, file, readyEv>>
  /\ UnchangedCase /\ UnchangedProc

AfterSync == IF mode = "cls" THEN pc' = "Run" ELSE pc' = "Connect"

SyncOk ==
  /\ pc = "Sync" /\ (readyEv \/ Dev_SyncAlwaysOk)
  /\ syncR' = "ok" /\ AfterSync /\ Ev("sync_ret")
  /\ UNCHANGED <<startR, stopR, exitC, errlog, reported, connected, cleanupDone, termGap, spawned, argv>>
  /\ UnchangedCase /\ UnchangedProc /\ UnchangedComp

\* the timeout runs out only when nothing else can happen any more (maximal progress: time is not modelled)
CanBecomeReady == (ps = "run" /\ sc.ready = "header" /\ pw < MaxChunks) \/ Len(pipe) > 0 \/ Len(hold) > 0

SyncTimeout ==
  /\ pc = "Sync" /\ ~readyEv /\ ~Dev_SyncAlwaysOk /\ ~CanBecomeReady
  /\ syncR' = "timeout" /\ Ev("sync_ret")
  /\ IF mode = "cls" THEN pc' = "Run" /\ UNCHANGED <<exitC, errlog>>
     ELSE pc' = "Fin" /\ exitC' = 70 /\ errlog' = 1     \* TimeoutError leaves setup(): no teardown
  /\ UNCHANGED <<startR, stopR, reported, connected, cleanupDone, termGap, spawned, argv>>
  /\ UnchangedCase /\ UnchangedProc /\ UnchangedComp

(* ------------------------------ client: scanner ------------------------------ *)
Connect ==
  /\ pc = "Connect" /\ mode = "scan"
  /\ IF connected = 1 THEN pc' = "Main" /\ UNCHANGED <<connected, order, exitC, errlog>>
     ELSE IF connHow = "ok" THEN pc' = "Main" /\ connected' = 1 /\ Ev("connect") /\ UNCHANGED <<exitC, errlog>>
     ELSE pc' = "Fin" /\ exitC' = 74 /\ errlog' = 1 /\ Ev("done") /\ UNCHANGED connected
  /\ UNCHANGED <<startR, syncR, stopR, reported, cleanupDone, termGap, spawned, argv>>
  /\ UnchangedCase /\ UnchangedProc /\ UnchangedComp

Main ==
  /\ pc = "Main"
  /\ Ev("setup_done")
  /\ IF mainHow = "ok" THEN pc' = "Teardown" /\ UNCHANGED <<exitC, errlog>>
     ELSE /\ exitC' = 74 /\ errlog' = 1
          /\ pc' = IF Dev_NoFinally THEN "Fin" ELSE "Teardown"
  /\ UNCHANGED <<startR, syncR, stopR, reported, connected, cleanupDone, termGap, spawned, argv>>
  /\ UnchangedCase /\ UnchangedProc /\ UnchangedComp

\* transport.close(); `if self.dumpcap: await self.dumpcap.stop()`
Teardown ==
  /\ pc = "Teardown"
  /\ pc' = IF startR = "obj" THEN "StopCall" ELSE "Fin"
  /\ Ev("teardown")
  /\ UNCHANGED <<startR, syncR, stopR, exitC, errlog, reported, connected, cleanupDone, termGap, spawned, argv>>
  /\ UnchangedCase /\ UnchangedProc /\ UnchangedComp

(* ------------------------------ client: stop ------------------------------ *)
\* cls: the harness calls stop() at any moment after sync
Go ==
  /\ pc = "Run" /\ pc' = "StopCall"
  /\ UNCHANGED <<startR, syncR, stopR, exitC, errlog, reported, connected, cleanupDone, termGap, spawned, argv, order>>
  /\ UnchangedCase /\ UnchangedProc /\ UnchangedComp

StopCall ==
  /\ pc = "StopCall" /\ Ev("stop_call")
  /\ pc' = IF Dev_TermFirst THEN "Term" ELSE "CleanupWait"
  /\ UNCHANGED <<startR, syncR, stopR, exitC, errlog, reported, connected, cleanupDone, termGap, spawned, argv>>
  /\ UnchangedCase /\ UnchangedProc /\ UnchangedComp

CleanupWait ==
  /\ pc = "CleanupWait" /\ cleanupDone' = TRUE
  /\ pc' = IF Dev_TermFirst THEN "WaitProc" ELSE "Term"
  /\ UNCHANGED <<startR, syncR, stopR, exitC, errlog, reported, connected, termGap, spawned, argv, order>>
  /\ UnchangedCase /\ UnchangedProc /\ UnchangedComp

\* proc.terminate(); a process that is gone already: "dumpcap terminated before gallia"
Terminate ==
  /\ pc = "Term"
  /\ IF ps = "run" THEN sigp' = TRUE /\ termGap' = (IF cleanupDone THEN CLEANUP_MS ELSE 0)
     ELSE UNCHANGED <<sigp, termGap>>
  /\ pc' = IF Dev_TermFirst THEN "CleanupWait" ELSE "WaitProc"
  /\ UNCHANGED <<startR, syncR, stopR, exitC, errlog, reported, connected, cleanupDone, spawned, argv, order>>
  /\ UNCHANGED <<ps, code, sigs, pw, tailDone, killed, reaped>>
  /\ UnchangedCase /\ UnchangedComp

WaitProc ==
  /\ pc = "WaitProc"
  /\ IF Dev_NoProcWait THEN UNCHANGED reaped ELSE ps = "dead" /\ reaped' = TRUE
  /\ pc' = "WaitComp"
  /\ UNCHANGED <<startR, syncR, stopR, exitC, errlog, reported, connected, cleanupDone, termGap, spawned, argv, order>>
  /\ UNCHANGED <<ps, code, sigp, sigs, pw, tailDone, killed>>
  /\ UnchangedCase /\ UnchangedComp

WaitComp ==
  /\ pc = "WaitComp"
  /\ Dev_NoJoin \/ comp = "done"
  /\ pc' = "Fin" /\ stopR' = IF killed = 1 THEN "hang" ELSE "ok"
  /\ Ev(IF mode = "cls" THEN "stop_ret" ELSE "done")
  /\ UNCHANGED <<startR, syncR, exitC, errlog, reported, connected, cleanupDone, termGap, spawned, argv>>
  /\ UnchangedCase /\ UnchangedProc /\ UnchangedComp

(* ------------------------------ the capture process ------------------------------ *)
\* the observation is made at the moment the client is done: nothing after that matters
Live == pc # "Fin"
Writing == Live /\ ps = "run" /\ sc.ready = "header" /\ pw < MaxChunks

ProcWrite ==
  /\ Writing
  /\ pw' = pw + 1 /\ pipe' = Append(pipe, pw + 1)
  /\ IF pw = 0 THEN Ev("ready") ELSE UNCHANGED order
  /\ UNCHANGED <<ps, code, sigp, sigs, tailDone, killed, reaped, hold, file, fstate, comp, readyEv>>
  /\ UnchangedCase /\ UnchangedClient

\* ready = "die": ends at once with an error code -- possibly only after the client looked (a loaded machine)
ProcDie ==
  /\ Live
  /\ ps = "run" /\ sc.ready = "die"
  /\ ps' = "dead" /\ code' = 2 /\ Ev("exit")
  /\ UNCHANGED <<sigp, sigs, pw, tailDone, killed, reaped>>
  /\ UnchangedCase /\ UnchangedClient /\ UnchangedComp

\* then = "exit": leaves by itself with an error code after the header (interface went down, ...)
ProcSelfExit ==
  /\ Live
  /\ ps = "run" /\ sc.ready = "header" /\ sc.then = "exit" /\ pw >= 1
  /\ ps' = "dead" /\ code' = 1 /\ Ev("exit")
  /\ UNCHANGED <<sigp, sigs, pw, tailDone, killed, reaped>>
  /\ UnchangedCase /\ UnchangedClient /\ UnchangedComp

ProcSignal ==
  /\ Live
  /\ ps = "run" /\ sigp
  /\ sigp' = FALSE /\ sigs' = sigs + 1
  /\ IF sigs = 0 THEN Ev("sig") ELSE UNCHANGED order
  /\ CASE sc.on_term = "exit"   -> ps' = "dead" /\ code' = 0 /\ UNCHANGED <<pw, pipe, tailDone>>
       [] sc.on_term = "tail"   -> ps' = "dead" /\ code' = 0 /\ pw' = pw + 1 /\ pipe' = Append(pipe, pw + 1)
                                   /\ tailDone' = TRUE
       [] sc.on_term = "ignore" -> UNCHANGED <<ps, code, pw, pipe, tailDone>>
  /\ UNCHANGED <<killed, reaped, hold, file, fstate, comp, readyEv>>
  /\ UnchangedCase /\ UnchangedClient

\* the harness kills a process that ignored the signal the client now waits for
HKill ==
  /\ Live
  /\ ps = "run" /\ sigs > 0 /\ ~sigp /\ Ignoring(sc) /\ pc \in {"WaitProc", "WaitComp"} /\ ~Writing
  /\ ps' = "dead" /\ code' = 9 /\ killed' = 1
  /\ UNCHANGED <<sigp, sigs, pw, tailDone, reaped, order>>
  /\ UnchangedCase /\ UnchangedClient /\ UnchangedComp

Reap ==
  /\ Live
  /\ ps = "dead" /\ ~reaped /\ reaped' = TRUE
  /\ UNCHANGED <<ps, code, sigp, sigs, pw, tailDone, killed, order>>
  /\ UnchangedCase /\ UnchangedClient /\ UnchangedComp

(* ------------------------------ the compressor task ------------------------------ *)
Dropping == Dev_DropAfterTerm /\ sigs > 0

CompRead ==
  /\ Live
  /\ comp = "run" /\ hold = <<>> /\ Len(pipe) > 0 /\ ~Dropping
  /\ hold' = pipe /\ pipe' = <<>> /\ readyEv' = TRUE
  /\ UNCHANGED <<file, fstate, comp, order>>
  /\ UnchangedCase /\ UnchangedClient /\ UnchangedProc

CompWrite ==
  /\ Live
  /\ comp = "run" /\ hold # <<>>
  /\ file' = IF Dev_DupChunk THEN file \o hold \o hold ELSE file \o hold
  /\ hold' = <<>>
  /\ UNCHANGED <<pipe, fstate, comp, readyEv, order>>
  /\ UnchangedCase /\ UnchangedClient /\ UnchangedProc

CompEof ==
  /\ Live
  /\ comp = "run" /\ hold = <<>>
  /\ (ps = "dead" /\ pipe = <<>>) \/ Dropping
  /\ comp' = "done" /\ fstate' = "closed"
  /\ UNCHANGED <<pipe, hold, file, readyEv, order>>
  /\ UnchangedCase /\ UnchangedClient /\ UnchangedProc

Next ==
  \/ ScanNotAvailable \/ ScanConnectFirst \/ Begin \/ StartCheck \/ SyncOk \/ SyncTimeout
  \/ Connect \/ Main \/ Teardown \/ Go \/ StopCall \/ CleanupWait \/ Terminate \/ WaitProc \/ WaitComp
  \/ ProcWrite \/ ProcDie \/ ProcSelfExit \/ ProcSignal \/ HKill \/ Reap
  \/ CompRead \/ CompWrite \/ CompEof

Spec == Init /\ [][Next]_vars

----------------------------------------------------------------------------
(* the observation the harness would make when the client is done *)
Ideal  == [i \in 1..pw |-> i]
CommonPrefix(a, b) ==
  LET n == IF Len(a) < Len(b) THEN Len(a) ELSE Len(b)
      good == {k \in 0..n : \A i \in 1..k : a[i] = b[i]}
  IN  CHOOSE k \in good : \A j \in good : j <= k

AliveAtRet == IF ps = "run" THEN "alive" ELSE IF ps = "dead" /\ ~reaped THEN "zombie" ELSE IF ps = "none" THEN "na" ELSE "gone"
Pending    == IF comp = "run" THEN 1 ELSE 0
Script     == [ready |-> sc.ready, on_term |-> sc.on_term, then |-> sc.then]

Common == [tgt |-> TgtOf(tg), script |-> Script, path |-> path, spawned |-> spawned, argv |-> argv, order |-> order,
           nsig |-> sigs, files |-> IF fstate = "none" THEN 0 ELSE 1,
           gz |-> IF fstate = "closed" THEN "complete" ELSE IF fstate = "open" THEN "broken" ELSE "none",
           got |-> Len(file), want |-> pw, prefix |-> CommonPrefix(file, Ideal), alive_at_ret |-> AliveAtRet,
           killed |-> killed, fexit |-> IF ps = "dead" THEN code ELSE -1]

ObsCls == Common @@ [start |-> startR, sync |-> syncR, sync_long |-> 1, slow |-> 0, stop |-> stopR, reported |-> reported, cleanup_ms |-> CLEANUP_MS,
                     term_after_stop_ms |-> termGap, pending |-> Pending]

ObsScan == Common @@ [cfg |-> [dumpcap |-> 1, art |-> 1, main |-> mainHow, connect |-> connHow], exit |-> exitC,
                      hang |-> 0, slow |-> 0, errlog |-> errlog, connected |-> connected]

FinCls  == pc = "Fin" /\ mode = "cls"
FinScan == pc = "Fin" /\ mode = "scan"

A_Cmd_Inv    == FinCls => A_Cmd(ObsCls) = "ok"
R_Report_Inv == FinCls => R_Report(ObsCls) = "ok"
T_Stop_Inv   == FinCls => T_Stop(ObsCls) = "ok"
G_File_Inv   == FinCls => G_File(ObsCls) = "ok"
S_Scan_Inv   == FinScan => S_Scan(ObsScan) = "ok"
S_Life_Inv   == FinScan => S_Life(ObsScan) = "ok"

\* the client always gets to the end (no action left = the case is over); an ignoring process is killed by the harness
NoStall == pc # "Fin" => ENABLED Next

\* labels of the violated clause (printed by the negative controls)
Label == IF FinCls THEN ClsVerdict(ObsCls) ELSE IF FinScan THEN ScanVerdict(ObsScan) ELSE "ok"
LabelSeen == Label = "ok" \/ PrintT(<<"L", Label>>)
=============================================================================
