SPECIFICATION Spec
CONSTANTS
  Cfgs <- CfgsD
  DscModes <- DscAll
  SreadModes <- SreadAll
  AnsClasses <- AnsCore
  NAns = 1
  MaxRetry = 1
  Retries = 1
  Dev_IgnoreCheckResult = FALSE
  Dev_NoSetBeforeCheck = FALSE
  Dev_DtcSessionIgnored = FALSE
  Dev_ExitZeroOnRefusal = FALSE
  Dev_SuccessOnNegative = FALSE
  Dev_StopSendsStart = FALSE
  Dev_SendTwice = TRUE
  Dev_PingOneMore = FALSE
  Dev_NoDelay = FALSE
  Dev_SwapAlfi = FALSE
  Dev_DataNotReported = FALSE
INVARIANT TypeOK
INVARIANT R0_Inv
INVARIANT R1_Reject_Inv
INVARIANT R1_Invalid_Inv
INVARIANT R1_Shape_Inv
INVARIANT R1_Once_Inv
INVARIANT R1_Sent_Inv
INVARIANT R2_Session_Inv
INVARIANT R3_Refused_Inv
INVARIANT R3_RefusedExit_Inv
INVARIANT R3_Check_Inv
INVARIANT R3_CheckExit_Inv
INVARIANT R4_Delay_Inv
INVARIANT R4_Interval_Inv
INVARIANT O1_Pos_Inv
INVARIANT O1_Exit_Inv
INVARIANT O2_Nrc_Inv
INVARIANT O2_Success_Inv
INVARIANT O2_Exit_Inv
INVARIANT O3_Data_Inv
INVARIANT O3_Dtc_Inv
INVARIANT O4_Silent_Inv
INVARIANT VerdictOk
INVARIANT Progress
CHECK_DEADLOCK FALSE
