----------------------------- MODULE MC_CliTree -----------------------------
(* Model-checking wrapper of X17: the scenario universes.

   Plugin trees over the names a, b with paths  a | b | a a | a b | b a  (every
   prefix-free subset), the description of the group "a" none / d1 / d2; the
   second plugin brings its own classes (c2..) or REGISTERS THE CLASSES OF THE
   FIRST (c1.., the "same class twice" case).  Registries of transports over the
   schemes t, tl (t is a prefix of tl), u in every order; every sequence of
   per-command defaults of one configuration key up to length 3.               *)
EXTENDS CliTree

APaths == {{}, {<<"a">>}, {<<"a", "a">>}, {<<"a", "b">>}, {<<"a", "a">>, <<"a", "b">>}}
BPaths == {{}, {<<"b">>}, {<<"b", "a">>}}
NameOf(p) == CASE p = <<"a">> -> "a" [] p = <<"b">> -> "b" [] p = <<"a", "a">> -> "aa"
               [] p = <<"a", "b">> -> "ab" [] p = <<"b", "a">> -> "ba"
ClsOf(pl, p) == "c" \o pl \o NameOf(p)
HasA(A) == \E p \in A : Len(p) = 2

Trees(pl, DS) ==
  UNION {{[leaves |-> {[path |-> p, cls |-> ClsOf(pl, p)] : p \in A \cup B}, desc |-> d] :
             d \in {e \in DS : HasA(A) \/ e = ""}} : A \in APaths, B \in BPaths}

Scn(P1, P2, ex) == [pls |-> <<P1, P2>>, tr |-> <<>>, names |-> {}, defs |-> <<>>, ex |-> ex]

AllD == {"", "d1", "d2"}
MergeScenarios ==
  {Scn(P1, P2, FALSE) : P1 \in Trees("1", AllD), P2 \in Trees("2", AllD) \cup Trees("1", AllD)}

DispatchScenarios ==
  {Scn(P1, P2, Cardinality(P1.leaves) + Cardinality(P2.leaves) >= 3) : P1 \in Trees("1", {""}), P2 \in Trees("2", {""})}

Keys == {<<"t">>, <<"t", "l">>, <<"u">>}
KName(key) == CASE key = <<"t">> -> "T_t" [] key = <<"t", "l">> -> "T_tl" [] key = <<"u">> -> "T_u"
Perms(S) == {s \in UNION {[1..n -> S] : n \in 0..Cardinality(S)} :
               \A i \in DOMAIN s, j \in DOMAIN s : i # j => s[i] # s[j]}
LookupScenarios ==
  {[pls |-> <<>>, tr |-> [i \in DOMAIN s |-> [key |-> s[i], cls |-> KName(s[i])]],
    names |-> Keys \cup {<<"x">>, <<"t", "l", "x">>, <<>>}, defs |-> <<>>, ex |-> TRUE] : s \in Perms(Keys)}

TemplateScenarios ==
  {[pls |-> <<>>, tr |-> <<>>, names |-> {}, defs |-> d, ex |-> TRUE] :
     d \in UNION {[1..n -> {"0", "1"}] : n \in 1..3}}

AllScenarios == MergeScenarios \cup DispatchScenarios \cup LookupScenarios \cup TemplateScenarios
SmallScenarios == DispatchScenarios \cup LookupScenarios \cup TemplateScenarios
AllJobs == {"dispatch", "lookup", "list", "template"}
=============================================================================
