---------------------- MODULE UdsClientMutexContract ----------------------
(* Contract layer of property C05, from the statement:
     M1  between the transmission of a request and the delivery of its final
         reply (incl. responsePending extensions and retries) no other request is
         transmitted on that transport (and nobody else reads from it or
         reconnects it)
     M2  every caller receives the reply to its own request or an error, never
         a reply that belongs to a different request
     M3  a cancelled or failed caller releases the client: every other caller
         still finishes
   Monitor over the totally ordered event sequence recorded at the shared
   transport and at the entry/exit of the client's request/reconnect calls:
     [e |-> "Arrive", task, req]   task enters request() with request id req (0: a reconnect call)
     [e |-> "W", task, req]        transport.write(); req = id decoded from the bytes written
     [e |-> "R", task]             transport.read() returned / raised
     [e |-> "RC", task]            transport reconnect
     [e |-> "Done", task, kind, req]  request()/reconnect() returned: kind \in {"Reply","Error","Cancelled"};
                                   for "Reply", req = id the reply bytes belong to
     [e |-> "Final", pending]      end of run; pending = tasks that arrived, were not cancelled, never finished
*)
EXTENDS Naturals, Integers, Sequences, FiniteSets, TLC

M0 == [cur |-> "", req |-> [t \in {} |-> 0], inside |-> {}, fail |-> "ok"]
Fail(m, l) == [m EXCEPT !.fail = l]
ReqOf(m, t) == IF t \in DOMAIN m.req THEN m.req[t] ELSE -1

Step(m, e) ==
  CASE e.e = "Arrive" -> [m EXCEPT !.req = [t \in DOMAIN m.req \cup {e.task} |-> IF t = e.task THEN e.req ELSE m.req[t]],
                                   !.inside = @ \cup {e.task}]
    [] e.e = "W" ->
         IF m.cur # "" /\ m.cur # e.task THEN Fail(m, "M1/request-transmitted-during-another-exchange")
         ELSE IF e.req # ReqOf(m, e.task) THEN Fail(m, "M2/bytes-on-the-wire-are-not-the-callers-request")
         ELSE [m EXCEPT !.cur = e.task]
    [] e.e = "R" ->
         \* a read belongs to the reader's own open exchange - or happens while NOBODY's exchange is open, by a task
         \* that is inside request()/reconnect() (e.g. discarding late replies before it transmits): that interleaves
         \* with nothing.  A read that returns while ANOTHER caller's exchange is open is the violation.
         IF m.cur = e.task \/ (m.cur = "" /\ e.task \in m.inside) THEN m
         ELSE Fail(m, "M1/read-outside-the-callers-own-exchange")
    [] e.e = "RC" ->
         IF m.cur # "" /\ m.cur # e.task THEN Fail(m, "M1/reconnect-during-another-exchange") ELSE m
    [] e.e = "Done" ->
         IF e.kind = "Reply" /\ e.req # ReqOf(m, e.task) THEN Fail(m, "M2/reply-belongs-to-a-different-request")
         ELSE [m EXCEPT !.cur = (IF m.cur = e.task THEN "" ELSE m.cur), !.inside = @ \ {e.task}]
    [] e.e = "Final" ->
         IF e.pending # <<>> THEN Fail(m, "M3/caller-never-finished") ELSE m
    [] OTHER -> Fail(m, "trace/unknown-event")
=============================================================================
