---------------------------- MODULE MC_EcuFlows ----------------------------
(* Finite instances of the X11 design layer: one family of cases per flow (cfg files cannot hold records). *)
EXTENDS EcuFlows

GAll == [s \in 1..4 |-> {1, 2, 3, 4}]
GChain == (1 :> {1, 2}) @@ (2 :> {1, 2, 3}) @@ (3 :> {1, 3, 4}) @@ (4 :> {1, 4})
GNone == [s \in 1..4 |-> {1}]
RowSets == {<<>>, <<<<1>>>>, <<<<1, 2>>>>, <<<<1, 2, 3>>>>, <<<<1, 4>>>>, <<<<>>>>, <<<<1>>, <<1, 2>>>>}

MCSetCfgs ==
  {[c |-> [e |-> "Start", flow |-> "set", level |-> lv, skip |-> sk, usedb |-> ud, hasdb |-> hd, rows |-> r,
           s0 |-> s, sec0 |-> 5],
    E |-> [edges |-> g]] :
     lv \in 2..4, sk \in BOOLEAN, ud \in BOOLEAN, hd \in BOOLEAN, r \in RowSets, s \in 1..3, g \in {GAll, GChain, GNone}}
MCSetSmall == {x \in MCSetCfgs : x.E.edges = GChain /\ x.c.level = 3 /\ x.c.s0 = 1}

MCLeaveCfgs ==
  {[c |-> [e |-> "Start", flow |-> "leave", level |-> lv, supply |-> sp, sleep |-> sl, s0 |-> lv, sec0 |-> sc],
    E |-> [reset |-> r, down |-> d, drop |-> dr, dsc1 |-> d1]] :
     lv \in {2, 3}, sp \in BOOLEAN, sl \in {-1, 300, 2000}, sc \in {-1, 5}, r \in Outs, d \in {0, 1300, 12000},
     dr \in BOOLEAN, d1 \in Outs}
MCLeaveEdge ==   \* thorough: silences around the 10 s limit of wait_for_ecu
  {[c |-> [e |-> "Start", flow |-> "leave", level |-> 2, supply |-> sp, sleep |-> sl, s0 |-> 2, sec0 |-> 5],
    E |-> [reset |-> r, down |-> d, drop |-> dr, dsc1 |-> d1]] :
     sp \in BOOLEAN, sl \in {-1, 0, 700}, r \in Outs, d \in {400, 700, 9400, 9600, 10000, 10400, 25000},
     dr \in BOOLEAN, d1 \in Outs}
MCLeaveSmall == {x \in MCLeaveCfgs : x.c.level = 2 /\ x.c.sec0 = 5 /\ x.c.sleep = 300}

Data(n) == [i \in 1..n |-> (7 + 3 * (i - 1)) % 251]
XC(bl, mb, n, na, sa, rt) ==
  [c |-> [e |-> "Start", flow |-> "xfer", bl |-> bl, maxbl |-> mb, data |-> Data(n)],
   E |-> [negAt |-> na, silentAt |-> sa, rte |-> rt]]
MCXferCfgs ==
  {XC(bl, mb, n, na, sa, rt) : bl \in {0, 1, 2, 3, 4, 5, 7}, mb \in {4095, 4}, n \in {0, 1, 2, 3, 4, 5, 6, 7, 10, 11},
                               na \in 0..3, sa \in {0, 2}, rt \in Outs}
MCXferLong ==
  {XC(bl, 4095, n, na, 0, "pos") : bl \in {3}, n \in {255, 256, 257, 300, 513}, na \in {0, 256}}
  \cup {XC(4, 4095, n, 0, 0, "pos") : n \in {510, 511, 512, 513, 514}}
MCXferFixed == {x \in MCXferCfgs : BlockLen(x.c) >= 2 \/ Len(x.c.data) = 0}   \* the family without finding S2

MCRefreshCfgs ==
  {[c |-> [e |-> "Start", flow |-> "refresh", reset |-> r, s0 |-> s, sec0 |-> sc], E |-> [out |-> o, s |-> rs]] :
     r \in BOOLEAN, s \in {1, 3}, sc \in {-1, 5}, o \in Outs, rs \in 1..3}

MCBookCfgs == {[c |-> [e |-> "Start", flow |-> "book", s0 |-> 1, sec0 |-> -1], E |-> [none |-> 0]]}
MCBookSymbols ==
  {<<"dsc", 2, "pos">>, <<"dsc", 3, "pos">>, <<"dsc", 1, "pos">>, <<"dsc", 3, "neg">>, <<"dsc", 2, "silent">>,
   <<"reset", 1, "pos">>, <<"reset", 1, "neg">>, <<"seed", 3, "pos">>, <<"key", 4, "pos">>, <<"key", 4, "neg">>,
   <<"rs", 1, "pos">>, <<"rs", 2, "pos">>, <<"rs", 0, "neg">>, <<"tp", 0, "pos">>, <<"other", 0, "pos">>}
=============================================================================
