------------------------------- MODULE Penlog -------------------------------
(* Design layer of property C17: the PenlogReader of gallia.log as a state
   machine shaped like the code, checked by TLC against the contract layer
   (PenlogContract) for every log, every operation and every sequence of
   operations on one reader object (the offset table is lazy state).

   File positions are abstracted to line numbers 0..N (N = number of records;
   every record is one newline-terminated line because JSON escapes newlines;
   N = end of file).  The code's state:
     pos     file_mmap.tell()            as a line number
     cur     _current_record_index       (may go negative: Python indexing)
     parsed  _parsed
     offs    _record_offsets             sequence of line numbers
   One action per step of the generator `records()` (seek, readline+yield,
   seek_to_previous_record), so that a generator abandoned half way (head n =
   itertools.islice) leaves the reader in the intermediate state, exactly as
   the code does.  Environment actions: Open (which log), Call (which
   operation next on the same reader).

   Deviation constants reproduce the behaviour found in the pinned tree; with
   all of them FALSE the machine is the intended design and satisfies the
   contract, with any one TRUE TLC finds a counterexample (negative controls):
     Dev_S24_OffsetsFromCurrentPos  _parse_file_structure scans from tell(),
                                    not from 0: table shifted on a used reader
     Dev_S25_ReverseWraps           records(reverse=True) starts at record 0
                                    and walks cur = -1, -2, ... through
                                    Python's negative indexing until IndexError
     Dev_S26_TailBeyondLen          records(offset=-n) with n > len: IndexError
     Dev_S26_EmptyLogUnreadable     mmap of an empty file raises ValueError  *)
EXTENDS PenlogContract

CONSTANTS
  MaxLen,        \* logs of length 0..MaxLen
  Prios,         \* priorities a record may have
  Thresholds,    \* priority thresholds a reader may be asked for
  MaxN,          \* head/tail counts and offsets 0..MaxN
  MaxOps,        \* operations per reader object
  Dev_S24_OffsetsFromCurrentPos,
  Dev_S25_ReverseWraps,
  Dev_S26_TailBeyondLen,
  Dev_S26_EmptyLogUnreadable

VARIABLES log, pos, cur, parsed, offs, pc, op, out, res, left, nops
vars == <<log, pos, cur, parsed, offs, pc, op, out, res, left, nops>>

N == Len(log)

LogsOfLen(n) == { [i \in 1..n |-> [id |-> i, prio |-> f[i]]] : f \in [1..n -> Prios] }
AllLogs == UNION { LogsOfLen(n) : n \in 0..MaxLen }

NoOp  == [mode |-> "none", p |-> 0, n |-> 0, off |-> 0]
NoRes == [t |-> "None"]
OpenOp == [mode |-> "open", p |-> 0, n |-> 0, off |-> 0]

Ops ==
  [mode : {"fwd"},  p : Thresholds, n : {0},      off : 0..MaxN] \cup
  [mode : {"tail"}, p : Thresholds, n : 1..MaxN,  off : {0}] \cup
  [mode : {"head"}, p : Thresholds, n : 0..MaxN,  off : {0}] \cup
  [mode : {"rev"},  p : Thresholds, n : {0},      off : {0}] \cup
  [mode : {"len"},  p : {0},        n : {0},      off : {0}]

----------------------------------------------------------------------------
(* ------------------------- the lazy offset table ------------------------- *)

\* _parse_file_structure(): one entry per line, scanning to the end of file
ScanFrom(start) == [i \in 1..(N - start) |-> start + i - 1]
ParseTable == IF Dev_S24_OffsetsFromCurrentPos THEN ScanFrom(pos) ELSE ScanFrom(0)
Table == IF parsed THEN offs ELSE ParseTable

\* Python list indexing
InRange(s, i) == IF i >= 0 THEN i < Len(s) ELSE -i <= Len(s)
PyAt(s, i)    == IF i >= 0 THEN s[i + 1] ELSE s[Len(s) + i + 1]

\* seek_to_record(q): _lookup_offset(0) = 0 without looking at the table
SeekOk(q, tbl)  == q = 0 \/ InRange(tbl, q)
SeekPos(q, tbl) == IF q = 0 THEN 0 ELSE PyAt(tbl, q)

Finish(r) == pc' = "done" /\ res' = r

----------------------------------------------------------------------------
(* ------------------------------- actions -------------------------------- *)

Init ==
  /\ log \in AllLogs
  /\ pos = 0 /\ cur = 0 /\ parsed = FALSE /\ offs = <<>>
  /\ pc = "new" /\ op = NoOp /\ out = <<>> /\ res = NoRes /\ left = -1 /\ nops = 0

\* PenlogReader(path): mmap of the (decompressed) file
Open ==
  /\ pc = "new"
  /\ op' = OpenOp
  /\ Finish(IF N = 0 /\ Dev_S26_EmptyLogUnreadable THEN ExcRes("ValueError") ELSE OkRes)
  /\ UNCHANGED <<log, pos, cur, parsed, offs, out, left, nops>>

\* environment: the next operation on this reader object
Call(o) ==
  /\ pc = "idle" /\ nops < MaxOps
  /\ op' = o /\ out' = <<>>
  /\ left' = IF o.mode = "head" THEN o.n ELSE -1
  /\ IF o.mode = "head" /\ o.n = 0
     THEN Finish(SeqRes(<<>>))            \* islice(gen, 0) never starts the generator
     ELSE /\ pc' = CASE o.mode = "len" -> "len" [] o.mode = "rev" -> "revstart" [] OTHER -> "start"
          /\ UNCHANGED res
  /\ UNCHANGED <<log, pos, cur, parsed, offs, nops>>

\* records(): self.seek_to_record(offset)
Start ==
  /\ pc = "start"
  /\ LET q    == IF op.mode = "tail" THEN -op.n ELSE IF op.mode = "fwd" THEN op.off ELSE 0
         tbl  == Table
         qq   == IF q < 0 /\ ~Dev_S26_TailBeyondLen THEN Max(q, -Len(tbl)) ELSE q
         need == q # 0
     IN /\ parsed' = (parsed \/ need)
        /\ offs' = IF need THEN tbl ELSE offs
        /\ IF SeekOk(qq, tbl)
           THEN pos' = SeekPos(qq, tbl) /\ cur' = qq /\ pc' = "fwd" /\ UNCHANGED res
           ELSE Finish(ExcRes("IndexError")) /\ UNCHANGED <<pos, cur>>
  /\ UNCHANGED <<log, op, out, left, nops>>

\* forward loop: readline(); at EOF stop; yield if the priority passes
Fwd ==
  /\ pc = "fwd"
  /\ IF pos = N
     THEN Finish(SeqRes(out)) /\ UNCHANGED <<pos, out, left>>
     ELSE LET r == log[pos + 1] IN
          /\ pos' = pos + 1
          /\ IF Keep(r, op.p)
             THEN /\ out' = Append(out, r.id)
                  /\ IF left = 1
                     THEN left' = 0 /\ Finish(SeqRes(out'))     \* islice is satisfied: generator abandoned
                     ELSE left' = (IF left > 1 THEN left - 1 ELSE left) /\ UNCHANGED <<pc, res>>
             ELSE UNCHANGED <<out, left, pc, res>>
  /\ UNCHANGED <<log, cur, parsed, offs, op, nops>>

\* reverse, as found (Dev_S25): seek_to_record(0), then read / seek_to_previous_record
\* reverse, intended: n = len(self); for index n-1 .. 0: seek, read
RevStart ==
  /\ pc = "revstart"
  /\ IF Dev_S25_ReverseWraps
     THEN pos' = 0 /\ cur' = 0 /\ pc' = "revread" /\ UNCHANGED <<parsed, offs>>
     ELSE parsed' = TRUE /\ offs' = Table /\ cur' = Len(Table) - 1 /\ pc' = "revloop" /\ UNCHANGED pos
  /\ UNCHANGED <<log, op, out, res, left, nops>>

RevRead ==
  /\ pc = "revread"
  /\ IF pos = N
     THEN Finish(ExcRes("JSONDecodeError")) /\ UNCHANGED <<pos, out>>   \* parse_json(b"")
     ELSE LET r == log[pos + 1] IN
          /\ pos' = pos + 1
          /\ out' = IF Keep(r, op.p) THEN Append(out, r.id) ELSE out
          /\ pc' = "revprev" /\ UNCHANGED res
  /\ UNCHANGED <<log, cur, parsed, offs, op, left, nops>>

RevPrev ==
  /\ pc = "revprev"
  /\ LET q == cur - 1
         tbl == Table
         need == q # 0
     IN /\ cur' = q
        /\ parsed' = (parsed \/ need)
        /\ offs' = IF need THEN tbl ELSE offs
        /\ IF SeekOk(q, tbl)
           THEN pos' = SeekPos(q, tbl) /\ pc' = "revread" /\ UNCHANGED res
           ELSE Finish(SeqRes(out)) /\ UNCHANGED pos            \* except IndexError: break
  /\ UNCHANGED <<log, op, out, left, nops>>

RevLoop ==
  /\ pc = "revloop"
  /\ IF cur < 0
     THEN Finish(SeqRes(out)) /\ UNCHANGED <<pos, cur, out>>
     ELSE LET at == SeekPos(cur, offs)
              r  == log[at + 1] IN
          /\ pos' = at + 1
          /\ out' = IF Keep(r, op.p) THEN Append(out, r.id) ELSE out
          /\ cur' = cur - 1
          /\ UNCHANGED <<pc, res>>
  /\ UNCHANGED <<log, parsed, offs, op, left, nops>>

\* __len__
LenOp ==
  /\ pc = "len"
  /\ parsed' = TRUE /\ offs' = Table
  /\ Finish(LenRes(Len(Table)))
  /\ UNCHANGED <<log, pos, cur, op, out, left, nops>>

\* the caller has its result; the reader object stays as it is (used reader)
Return ==
  /\ pc = "done"
  /\ pc' = IF op.mode = "open" /\ res # OkRes THEN "closed" ELSE "idle"
  /\ nops' = IF op.mode = "open" THEN nops ELSE nops + 1
  /\ op' = NoOp /\ out' = <<>> /\ res' = NoRes /\ left' = -1
  /\ UNCHANGED <<log, pos, cur, parsed, offs>>

Next == Open \/ (\E o \in Ops : Call(o)) \/ Start \/ Fwd \/ RevStart \/ RevRead \/ RevPrev
        \/ RevLoop \/ LenOp \/ Return

Spec == Init /\ [][Next]_vars /\ WF_vars(Next)

----------------------------------------------------------------------------
(* --------------------------- properties (C17) ---------------------------- *)

ClauseHolds(c) == (pc = "done" /\ Clause(op) = c) => Admits(log, op, res)

P1_ReadBackEqualsWritten == ClauseHolds("P1/read-back-equals-written")
P2_PriorityFilter        == ClauseHolds("P2/priority-filter")
P3_ForwardFromOffset     == ClauseHolds("P3/forward-from-offset")
P3_Reverse               == ClauseHolds("P3/reverse")
P3_Head                  == ClauseHolds("P3/head")
P3_Tail                  == ClauseHolds("P3/tail")
P3_EachRecordOnce        == NoDup(out)
P4_Len                   == ClauseHolds("P4/len-is-record-count")
P5_Opens                 == ClauseHolds("P5/container-opens")
\* the same through the total verdict function the trace spec uses
VerdictAgrees ==
  pc = "done" => (OpsVerdict(log, <<[op |-> op, res |-> res]>>, 1)[1] = "ok") = Admits(log, op, res)

\* design invariant (not a contract clause): a built table is the exact table
D_TableExact == parsed => offs = ScanFrom(0)

Quiescent == pc \in {"idle", "closed"}
Terminates == []<>Quiescent

TypeOK ==
  /\ pos \in 0..N /\ cur \in -(MaxLen + 1)..MaxN /\ parsed \in BOOLEAN
  /\ pc \in {"new", "idle", "start", "fwd", "revstart", "revread", "revprev", "revloop", "len", "done", "closed"}
  /\ nops \in 0..MaxOps /\ left \in -1..MaxN
=============================================================================
