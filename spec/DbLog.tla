------------------------------ MODULE DbLog ------------------------------
(* Design layer of property C11, shaped like the code:

     main task:   UDSScanner.main -> ECU.request -> ECU._request
                    try:     UDSClient._request (mutex; transport write; transport read)
                    finally: if implicit_logging: DBHandler.insert_scan_result(state BEFORE, ...)
                                                  -> json encoding -> _execute_queue.put
                             if response: update_state
                  Scanner.teardown -> DBHandler.disconnect:
                             await queue.join(); writer.cancel(); await writer; commit; close
     writer task: DBHandler._executor_func: get -> execute -> commit -> task_done

   One action per await point of the main task (idle between two calls, before the
   write reaches the wire, waiting for the reply) and of the writer task.
   Environment: which request, which outcome, ToggleImplicit, Abort at any await
   point of the main task (cancellation or an exception raised by the scanner).

   Deviation constants (all FALSE = intended design):
     Dev_S17_RowLostNotSerialisable  as found: a positive reply whose decoded
                                     attributes json.dumps cannot encode -> warning, no row
     Dev_LogOutsideFinally           mutation: logging only on the success path
     Dev_NoJoin                      mutation: disconnect does not wait for the queue
     Dev_StateAfterUpdate            mutation: state serialised after update_state       *)
EXTENDS DbLogContract, FiniteSets

CONSTANTS
  MaxLen,        \* maximal number of request calls of one run
  Kinds,         \* subset of {"Plain", "Sess", "Sec"}
  Outcomes,      \* subset of {"Pos", "Neg", "Timeout", "Mismatch", "Malformed", "ConnErr"}
  Tags,          \* subset of BOOLEAN: may the caller tag a request ANALYZE
  MayToggle,     \* BOOLEAN: ToggleImplicit enabled
  MayAbort,      \* BOOLEAN: Abort enabled
  Dev_S17_RowLostNotSerialisable,
  Dev_LogOutsideFinally,
  Dev_NoJoin,
  Dev_StateAfterUpdate

VARIABLES
  pc,        \* main task: "idle" | "presend" | "sent" | "teardown" | "cancelw" | "close" | "done"
  cur,       \* the call in progress: [kind, ana, t0]
  wire,      \* exchanges in transmission order (records of the contract layer)
  queue,     \* DBHandler._execute_queue
  wst,       \* writer task: "wait" | "exec" | "dead"
  wrow,      \* the row the writer is executing
  rows,      \* rows committed to the file
  implicit,  \* ECU.implicit_logging
  cstate,    \* ECU.state: <<session, level>>
  clock,     \* logical time of the run
  aborted,   \* the run was cancelled / raised
  phase      \* handler: "Open" | "Closed"

vars == <<pc, cur, wire, queue, wst, wrow, rows, implicit, cstate, clock, aborted, phase>>

NoCall == [kind |-> "none", ana |-> FALSE, t0 |-> 0]
NoRow  == [okDecode |-> TRUE, req |-> <<>>, hasResp |-> FALSE, resp |-> <<>>, hasExc |-> FALSE,
           st |-> <<0, 0>>, mode |-> "none", send |-> 0, hasRecv |-> FALSE, recv |-> 0]

Sid(kind) == CASE kind = "Plain" -> 34 [] kind = "Sess" -> 16 [] kind = "Sec" -> 39
ReqBytes(kind) == <<Sid(kind)>>
ReplyBytes(kind, o) ==
  CASE o \in {"Pos", "PosUnser"} -> <<Sid(kind) + 64>>
    [] o = "Neg"        -> <<127, Sid(kind), 49>>
    [] o = "Mismatch"   -> <<Sid(kind) + 65>>
    [] o = "Malformed"  -> <<Sid(kind) + 64, 255>>
    [] OTHER            -> <<>>
HasReply(o)   == o \in {"Pos", "PosUnser", "Neg", "Mismatch", "Malformed"}
Returns(o)    == o \in {"Pos", "PosUnser", "Neg"}
\* "Cut": the caller wrapped the call in a timeout of its own (asyncio.wait_for, as ECU.wait_for_ecu does with its
\* pings) which fired while the request was on the wire; the call is cancelled, the run goes on
Env(o)        == IF o = "cancel" THEN "cancel" ELSE IF o = "Cut" THEN "cut" ELSE IF Returns(o) THEN "ret" ELSE "exc"

\* ECU.update_state: driven by positive replies only
Updated(st, kind, o) ==
  IF o \notin {"Pos", "PosUnser"} THEN st
  ELSE CASE kind = "Sess" -> <<IF st[1] = 1 THEN 3 ELSE 1, -1>>
         [] kind = "Sec"  -> <<st[1], 1>>
         [] OTHER         -> st

AllOutcomes == Outcomes \cup (IF Dev_S17_RowLostNotSerialisable THEN {"PosUnser"} ELSE {})

Init ==
  /\ pc = "idle" /\ cur = NoCall /\ wire = <<>> /\ queue = <<>> /\ wst = "wait" /\ wrow = NoRow
  /\ rows = <<>> /\ implicit = TRUE /\ cstate = <<1, -1>> /\ clock = 0 /\ aborted = FALSE
  /\ phase = "Open"

----------------------------------------------------------------------------
(* main task *)

StartCall(kind, ana) ==          \* ECU._request entered: send_time taken, then the mutex/transport awaits
  /\ pc = "idle" /\ Len(wire) < MaxLen
  /\ cur' = [kind |-> kind, ana |-> ana, t0 |-> clock + 1]
  /\ clock' = clock + 1
  /\ pc' = "presend"
  /\ UNCHANGED <<wire, queue, wst, wrow, rows, implicit, cstate, aborted, phase>>

Exch(nw, o) ==
  [req |-> ReqBytes(cur.kind), nw |-> nw,
   replies |-> IF HasReply(o) THEN <<ReplyBytes(cur.kind, o)>> ELSE <<>>,
   out |-> Env(o), st |-> cstate, impl |-> IF implicit THEN "on" ELSE "off", ana |-> cur.ana,
   illegal |-> o \in {"Mismatch", "Malformed"},
   done |-> HasReply(o)]

Send ==                           \* transport.write: the request is on the wire
  /\ pc = "presend"
  /\ wire' = Append(wire, Exch(1, "cancel"))   \* outcome filled in when the call ends
  /\ pc' = "sent"
  /\ UNCHANGED <<cur, queue, wst, wrow, rows, implicit, cstate, clock, aborted, phase>>

\* the finally-block of ECU._request; runs without suspension (unbounded queue)
Row(o, now) ==
  [okDecode |-> TRUE, req |-> ReqBytes(cur.kind),
   hasResp |-> HasReply(o), resp |-> ReplyBytes(cur.kind, o),
   hasExc |-> ~Returns(o) /\ o \notin {"cancel", "Cut"},
   st |-> IF Dev_StateAfterUpdate THEN Updated(cstate, cur.kind, o) ELSE cstate,
   mode |-> IF cur.ana THEN "emphasized" ELSE "implicit",
   send |-> cur.t0, hasRecv |-> Returns(o), recv |-> now]

Logs(o) ==
  /\ implicit
  /\ ~(Dev_S17_RowLostNotSerialisable /\ o = "PosUnser")
  /\ ~(Dev_LogOutsideFinally /\ ~Returns(o))

Finally(o, now) ==
  /\ queue' = IF Logs(o) THEN Append(queue, Row(o, now)) ELSE queue
  /\ cstate' = Updated(cstate, cur.kind, o)
  /\ cur' = NoCall

Reply(o) ==                       \* transport.read returns / raises; the call ends
  /\ pc = "sent"
  /\ clock' = clock + 1
  /\ wire' = [wire EXCEPT ![Len(wire)] = Exch(1, o)]
  /\ Finally(o, clock + 1)
  /\ pc' = "idle"
  /\ UNCHANGED <<wst, wrow, rows, implicit, aborted, phase>>

ToggleImplicit ==
  /\ MayToggle /\ pc = "idle" /\ Len(wire) < MaxLen
  /\ implicit' = ~implicit
  /\ UNCHANGED <<pc, cur, wire, queue, wst, wrow, rows, cstate, clock, aborted, phase>>

\* cancellation / exception at an await point of the main task
Abort ==
  /\ MayAbort /\ pc \in {"idle", "presend", "sent"}
  /\ aborted' = TRUE
  /\ pc' = "teardown"
  /\ clock' = clock + 1
  /\ CASE pc = "idle"    -> UNCHANGED <<cur, wire, queue, cstate>>
       [] pc = "presend" -> /\ wire' = Append(wire, Exch(0, "cancel"))   \* never reached the wire
                            /\ Finally("cancel", clock + 1)
       [] pc = "sent"    -> /\ UNCHANGED wire                            \* outcome stays "cancel"
                            /\ Finally("cancel", clock + 1)
  /\ UNCHANGED <<wst, wrow, rows, implicit, phase>>

Finish ==                         \* main() returns
  /\ pc = "idle"
  /\ pc' = "teardown"
  /\ UNCHANGED <<cur, wire, queue, wst, wrow, rows, implicit, cstate, clock, aborted, phase>>

DiscJoin ==                       \* await self._execute_queue.join()
  /\ pc = "teardown"
  /\ Dev_NoJoin \/ (queue = <<>> /\ wst = "wait")
  /\ pc' = "cancelw"
  /\ UNCHANGED <<cur, wire, queue, wst, wrow, rows, implicit, cstate, clock, aborted, phase>>

DiscCancelWriter ==               \* self._executor_task.cancel(); await it
  /\ pc = "cancelw"
  /\ wst' = "dead" /\ wrow' = NoRow
  /\ pc' = "close"
  /\ UNCHANGED <<cur, wire, queue, rows, implicit, cstate, clock, aborted, phase>>

DiscClose ==                      \* commit; close
  /\ pc = "close"
  /\ phase' = "Closed" /\ pc' = "done"
  /\ UNCHANGED <<cur, wire, queue, wst, wrow, rows, implicit, cstate, clock, aborted>>

----------------------------------------------------------------------------
(* writer task *)

WriterTake ==
  /\ wst = "wait" /\ queue # <<>>
  /\ wrow' = Head(queue) /\ queue' = Tail(queue) /\ wst' = "exec"
  /\ UNCHANGED <<pc, cur, wire, rows, implicit, cstate, clock, aborted, phase>>

WriterCommit ==
  /\ wst = "exec"
  /\ rows' = Append(rows, wrow) /\ wrow' = NoRow /\ wst' = "wait"
  /\ UNCHANGED <<pc, cur, wire, queue, implicit, cstate, clock, aborted, phase>>

----------------------------------------------------------------------------
Main == \/ \E k \in Kinds, a \in Tags : StartCall(k, a)
        \/ Send
        \/ \E o \in AllOutcomes : Reply(o)
        \/ ToggleImplicit \/ Abort \/ Finish
Disc   == DiscJoin \/ DiscCancelWriter \/ DiscClose
Writer == WriterTake \/ WriterCommit

Next == Main \/ Disc \/ Writer

\* the environment may stop sending; the writer and the shutdown path are fair
Spec == Init /\ [][Next]_vars /\ WF_vars(Writer) /\ WF_vars(Disc) /\ WF_vars(Finish \/ Send \/ \E o \in AllOutcomes : Reply(o))

----------------------------------------------------------------------------
(* properties (C11) *)

Obs == [exch |-> wire, rows |-> rows, closed |-> phase = "Closed", aborted |-> aborted, stray |-> 0]
V   == Verdict(Obs)

\* at every moment the rows written so far are right (only completeness waits for Closed)
B1_OncePerExchangeInOrder == V[1] # "B1"
B2_RowHoldsTheExchange    == V[1] # "B2"
B3_SilentWhileOff         == V[1] # "B3"
B4_CompleteAfterClose     == V[1] # "B4"
Contract                  == phase = "Closed" => V[1] = "ok"

\* liveness: once the shutdown path is entered the queue drains and the handler closes
Drains == (pc = "teardown") ~> (phase = "Closed" /\ queue = <<>> /\ wst = "dead")
\* the design never cancels a busy writer
Terminates == <>(pc = "done")
WriterIdleWhenCancelled == [][pc = "cancelw" /\ pc' = "close" => wst = "wait" /\ queue = <<>>]_vars

TypeOK ==
  /\ pc \in {"idle", "presend", "sent", "teardown", "cancelw", "close", "done"}
  /\ wst \in {"wait", "exec", "dead"}
  /\ Len(wire) <= MaxLen /\ Len(rows) <= MaxLen /\ Len(queue) <= MaxLen
  /\ implicit \in BOOLEAN /\ aborted \in BOOLEAN /\ phase \in {"Open", "Closed"}
=============================================================================
