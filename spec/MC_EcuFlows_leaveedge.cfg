\* X11 design layer
SPECIFICATION Spec
CONSTANTS
  Cfgs <- MCLeaveEdge
  BookSymbols <- MCBookSymbols
  BookLen = 0
  Dev_S1_FallbackStepsIgnoreSkipHooks = FALSE
  Dev_S2_TinyBlockLengthSendsNothing = FALSE
  Dev_NoCounterWrap = FALSE
  Dev_NoWaitAfterReset = FALSE
  Dev_NoPowerCycle = FALSE
  Dev_NoDbFallback = FALSE
  Dev_RefreshIgnoresAnswer = FALSE
  Dev_KeyLevelOffByOne = FALSE
  Dev_NoPostHook = FALSE
INVARIANT ContractHolds
INVARIANT DoneIsTotal
INVARIANT Progress
PROPERTY Terminates
CHECK_DEADLOCK FALSE
