SPECIFICATION Spec
CONSTANTS
  Cfgs <- CfgsD
  Classes <- ClassesD
  RefuseSets <- RefuseSome
  MaxRetry = 1
  Dev_NoSkipOnRefusal = FALSE
  Dev_TimeoutNotCounted = FALSE
  Dev_IllegalEndsRun = FALSE
  Dev_LenOffByOne = FALSE
  Dev_StatsCarryOver = FALSE
  Dev_OneIterationMore = FALSE
  Dev_StopRoutine = FALSE
INVARIANT TypeOK
INVARIANT P1_Shape_Inv
INVARIANT P2_Session_Inv
INVARIANT P3_Skip_Inv
INVARIANT P4_Total_Inv
INVARIANT P4_Pos_Inv
INVARIANT P4_Neg_Inv
INVARIANT P4_Ill_Inv
INVARIANT P4_Tmo_Inv
INVARIANT P4_Struct_Inv
INVARIANT P5_Pairs_Inv
INVARIANT P6_Continue_Inv
INVARIANT VerdictOk
INVARIANT Progress
CHECK_DEADLOCK FALSE
