------------------------------ MODULE ArgFields ------------------------------
(* Growth property X20 -- design layer: a state machine shaped like the code
   (pydantic_argparse/argparse/parser.py + argparse + pydantic validation).

     args      argparse consumes the argument vector one option occurrence at a
               time into the namespace (BooleanOptionalAction: flag / negated flag;
               _StoreAction with nargs None / "?" (const) / "*" (containers);
               unknown options and stray values are collected; the LAST occurrence
               of an option replaces the earlier ones)
     endargs   required options / positionals that are missing => usage error
     validate  _NestedArgumentParser.validate(): pydantic converts every raw
               namespace entry by the field's type (BeforeValidators of
               gallia.command.config); the first failing field => _validation_error
     report    ArgumentParser.error / _validation_error: usage, message naming the
               argument, exit status EXIT_ERROR
     help      `--help`: one listing entry per non-hidden field (arg_names,
               description() with "(default: ...)"), exit status 0
     config    GalliaBaseModel.__init_subclass__ registry + attributes_from_config

   Where the contract is silent the design records what the code does today (a
   disagreement of the real code with these choices is reported as DRIFT, never as
   a violation): last occurrence wins, abbreviations are accepted, "-3" is a value
   but "-0x10" / "-x" are option-like, `--flag=v` is refused, plain int / float take
   "010" and "3.0", a plain Enum is given by value only, a union of int | str keeps
   the text, a plain dict can never be given.

   Deviation constants (negative controls; all FALSE = the design meets the contract):
     Dev_NegSetsTrue       --no-flag sets True
     Dev_ConstNeedsValue   an option with const refuses to stand alone
     Dev_RequiredOptional  a missing required argument is not noticed
     Dev_ValidationRaises  an invalid value escapes as a Python exception
     Dev_ExitOne           usage errors exit with status 1
     Dev_HiddenOnCli       a hidden field has an option
     Dev_UnknownIgnored    unknown options / stray values are ignored
     Dev_ListFirstOnly     a container keeps only its first value
     Dev_HexIntDecimal     HexInt is read like AutoInt
     Dev_EnumByValueOnly   EnumArg refuses member names
     Dev_DefaultLost       an omitted optional field becomes None
     Dev_ErrorNamesNothing the validation error does not name the argument
     Dev_HelpListsHidden / Dev_HelpOmitsDefault   help listing
     Dev_SectionClassWins  the section given at the field is ignored
   As found in the pinned tree (findings/X20-*.md), also negative controls:
     Dev_AutoLitEnumOnly   AutoLiteral resolves enum members only: int and bytes
                           members can never be given on the command line
     Dev_HelpPercent       --help raises when a description / default carries "%"
     Dev_HiddenInRegistry  a hidden field is registered as a config key          *)
EXTENDS ArgFieldsContract

CONSTANTS Cases, ModelFields(_),
          Dev_NegSetsTrue, Dev_ConstNeedsValue, Dev_RequiredOptional, Dev_ValidationRaises, Dev_ExitOne,
          Dev_HiddenOnCli, Dev_UnknownIgnored, Dev_ListFirstOnly, Dev_HexIntDecimal, Dev_EnumByValueOnly,
          Dev_DefaultLost, Dev_ErrorNamesNothing, Dev_HelpListsHidden, Dev_HelpOmitsDefault, Dev_SectionClassWins,
          Dev_AutoLitEnumOnly, Dev_HelpPercent, Dev_HiddenInRegistry

VARIABLES job, pc, i, ns, err, out, hist
vars == <<job, pc, i, ns, err, out, hist>>

NoErr == [why |-> "", f |-> ""]
NoOut == [res |-> "", code |-> -1, vals |-> <<>>, mention |-> <<>>]
Unset == [set |-> FALSE, how |-> "", b |-> FALSE, toks |-> <<>>, form |-> ""]
JF == ModelFields(job.m)
NF == Len(JF)
FieldIdx(name) == CHOOSE k \in 1..NF : JF[k].name = name

Init ==
  /\ job \in Cases
  /\ pc = IF job.job = "parse" THEN "args" ELSE job.job
  /\ i = 1 /\ ns = [k \in 1..Len(ModelFields(job.m)) |-> Unset] /\ err = NoErr /\ out = NoOut /\ hist = <<>>

\* ---- args: one option occurrence (argparse)
OptionLike(it) == \E j \in 1..Len(it.toks) : Dashed(it, j) /\ it.toks[j].c # "neg"
Step(n, e, it) ==
  LET fail(w) == [ns |-> n, err |-> IF e.why = "" THEN [why |-> w, f |-> it.f] ELSE e]
      put(k, r) == [ns |-> [n EXCEPT ![k] = r], err |-> e]
  IN
  IF it.f = "" THEN (IF Dev_UnknownIgnored THEN [ns |-> n, err |-> e] ELSE fail("unknown"))
  ELSE LET k == FieldIdx(it.f)  fd == JF[k] IN
    IF fd.hidden /\ ~Dev_HiddenOnCli THEN fail("unknown")
    ELSE IF fd.kind = "bool" THEN
      IF it.toks # <<>> THEN fail("explicit")
      ELSE IF it.form \in {"long", "short", "abbr"} THEN put(k, [Unset EXCEPT !.set = TRUE, !.how = "flag", !.b = TRUE])
      ELSE IF it.form = "neg" THEN put(k, [Unset EXCEPT !.set = TRUE, !.how = "flag", !.b = Dev_NegSetsTrue])
      ELSE fail("unknown")
    ELSE IF it.form = "neg" THEN fail("unknown")
    ELSE IF OptionLike(it) THEN fail("optionlike")
    ELSE IF IsContainer(fd) THEN put(k, [Unset EXCEPT !.set = TRUE, !.how = "toks", !.toks = it.toks])
    ELSE IF it.toks = <<>> THEN
      (IF fd.hasconst /\ ~Dev_ConstNeedsValue THEN put(k, [Unset EXCEPT !.set = TRUE, !.how = "const"]) ELSE fail("novalue"))
    ELSE IF Len(it.toks) > 1 THEN fail("unknown")
    ELSE put(k, [Unset EXCEPT !.set = TRUE, !.how = "toks", !.toks = it.toks])

Take ==
  /\ pc = "args" /\ i <= Len(job.items)
  /\ LET r == Step(ns, err, job.items[i]) IN ns' = r.ns /\ err' = r.err
  /\ i' = i + 1 /\ hist' = Append(hist, "Take")
  /\ UNCHANGED <<job, pc, out>>

EndArgs ==
  /\ pc = "args" /\ i > Len(job.items)
  /\ LET missing == {k \in 1..NF : JF[k].req /\ ~ns[k].set}
         e == IF err.why = "" /\ missing # {} /\ ~Dev_RequiredOptional
              THEN [why |-> "required", f |-> JF[CHOOSE k \in missing : TRUE].name] ELSE err
     IN err' = e /\ pc' = IF e.why = "" THEN "validate" ELSE "report"
  /\ hist' = Append(hist, "EndArgs")
  /\ UNCHANGED <<job, i, ns, out>>

\* ---- validate: the design's conversion = the contract's where it speaks, today's code where it is silent
DConv(k, fd, tok) ==
  LET c == Conv(k, fd, tok) IN
  IF Dev_HexIntDecimal /\ k = "hexint" THEN (IF tok.a.t = "i" THEN Ok(tok.a) ELSE Bad)
  ELSE IF Dev_EnumByValueOnly /\ k = "enumarg" /\ tok.c = "ename" THEN Bad
  ELSE IF Dev_AutoLitEnumOnly /\ k = "autolit" /\ tok.c \in NumClasses \cup {"hexl"} THEN Bad
  ELSE IF c.r # "any" THEN c
  ELSE CASE k = "int"   -> IF tok.c \in {"zdec", "intfrac"} THEN Ok(tok.v) ELSE Bad
         [] k = "float" -> IF tok.c \in {"zdec", "intfrac", "exp"} THEN Ok(tok.v) ELSE Bad
         [] k = "path"  -> Ok(VPath(tok.x))
         [] k = "uri"   -> Ok(V("u", 0, tok.x, <<>>))
         [] k = "union" -> Ok(VStr(tok.x))
         [] k = "ranges" -> IF tok.c = "rrev" THEN Ok(V("l", 0, "", <<>>)) ELSE Bad
         [] OTHER -> Bad

RECURSIVE AscSeq(_)
AscSeq(S) == IF S = {} THEN <<>>
              ELSE LET m == CHOOSE x \in S : \A y \in S : x.n <= y.n IN <<m>> \o AscSeq(S \ {m})
Concrete(e) ==      \* the value the code produces for an expected "R" / "D"
  CASE e.t = "R" -> V("l", 0, "", AscSeq(e.q))
    [] e.t = "D" -> V("d", 0, "", [j \in 1..Cardinality(e.q) |->
                        LET m == AscSeq(e.q)[j] IN
                        IF m.none THEN V("kn", m.n, "", <<>>) ELSE V("kv", m.n, "", AscSeq(m.inner))])
    [] e.t = "S" -> V("S", 0, "", AscSeq(ToSet(e.q)))
    [] OTHER -> e

DVal(fd, raw) ==
  IF raw.how = "flag" THEN Ok(VBool(raw.b))
  ELSE IF raw.how = "const" THEN Ok(fd.const)
  ELSE IF IsContainer(fd) THEN
    LET toks == IF Dev_ListFirstOnly /\ Len(raw.toks) > 1 THEN <<raw.toks[1]>> ELSE raw.toks
        cs == [j \in 1..Len(toks) |-> DConv(ElemKind(fd), fd, toks[j])]
        agg == Agg(fd, [j \in 1..Len(toks) |-> cs[j].v])
    IN IF fd.kind = "dict" \/ (\E j \in 1..Len(toks) : cs[j].r # "ok") \/ agg.r # "ok" THEN Bad ELSE Ok(Concrete(agg.v))
  ELSE DConv(fd.kind, fd, raw.toks[1])

Validate ==
  /\ pc = "validate"
  /\ LET cv == [k \in 1..NF |-> IF ns[k].set THEN DVal(JF[k], ns[k])
                                ELSE IF Dev_DefaultLost /\ ~JF[k].req THEN Ok(V("n", 0, "", <<>>))
                                ELSE Ok(JF[k].dflt)]
         bad == {k \in 1..NF : cv[k].r # "ok"}
     IN IF bad = {}
        THEN /\ out' = [res |-> "ok", code |-> 0, mention |-> <<>>,
                        vals |-> [k \in 1..NF |-> [f |-> JF[k].name, v |-> cv[k].v]]]
             /\ pc' = "done" /\ err' = err
        ELSE /\ err' = [why |-> "value", f |-> JF[CHOOSE k \in bad : \A j \in bad : k <= j].name]
             /\ pc' = "report" /\ out' = out
  /\ hist' = Append(hist, "Validate")
  /\ UNCHANGED <<job, i, ns>>

Report ==
  /\ pc = "report"
  /\ out' = IF Dev_ValidationRaises /\ err.why = "value"
            THEN [res |-> "raise", code |-> -1, vals |-> <<>>, mention |-> <<>>]
            ELSE [res |-> "exit", code |-> IF Dev_ExitOne THEN 1 ELSE 2, vals |-> <<>>,
                  mention |-> IF err.why = "value" /\ ~Dev_ErrorNamesNothing THEN <<err.f>> ELSE <<>>]
  /\ pc' = "done" /\ hist' = Append(hist, "Report")
  /\ UNCHANGED <<job, i, ns, err>>

\* ---- help
Help ==
  /\ pc = "help"
  /\ out' = IF job.pct /\ Dev_HelpPercent
            THEN [res |-> "raise", code |-> -1, entries |-> <<>>]
            ELSE [res |-> "exit", code |-> 0,
                  entries |-> [k \in 1..NF |->
                     LET fd == JF[k] IN
                     [n |-> IF fd.hidden /\ ~Dev_HelpListsHidden THEN 0 ELSE 1, names |-> fd.names, desc |-> fd.desc,
                      hasdflt |-> ~fd.req /\ ~Dev_HelpOmitsDefault,
                      dflt |-> IF fd.req THEN "" ELSE fd.renders[1], heading |-> fd.group, mv |-> TRUE]]]
  /\ pc' = "done" /\ hist' = Append(hist, "Help")
  /\ UNCHANGED <<job, i, ns, err>>

\* ---- config sections
Config ==
  /\ pc = "config"
  /\ out' = [obs |-> [k \in 1..NF |->
                LET fd == JF[k]
                    sec == IF ~fd.gallia THEN "-" ELSE IF Dev_SectionClassWins /\ fd.csec # "-" THEN "class" ELSE SectionOf(fd)
                IN [picked |-> IF fd.hidden THEN "-" ELSE sec,
                    inreg |-> IF fd.hidden /\ ~Dev_HiddenInRegistry THEN "-" ELSE sec]]]
  /\ pc' = "done" /\ hist' = Append(hist, "Config")
  /\ UNCHANGED <<job, i, ns, err>>

Next == Take \/ EndArgs \/ Validate \/ Report \/ Help \/ Config
Spec == Init /\ [][Next]_vars

-----------------------------------------------------------------------------
TypeOK == pc \in {"args", "validate", "report", "help", "config", "done"}

DesignVerdict ==
  CASE job.job = "parse" -> ParseVerdictS([fields |-> JF, items |-> job.items, sep |-> job.sep, inter |-> job.inter], out)
    [] job.job = "help" -> HelpVerdictS(JF, out)
    [] job.job = "config" -> ConfigVerdictS(JF, out.obs)

Inv_Parse  == (pc = "done" /\ job.job = "parse")  => DesignVerdict \in OK
Inv_Help   == (pc = "done" /\ job.job = "help")   => DesignVerdict \in OK
Inv_Config == (pc = "done" /\ job.job = "config") => DesignVerdict \in OK

\* spec -> code: every case with the design's outcome and the contract's verdict; the history shows which actions ran
Exported ==
  pc = "done" =>
    PrintT(<<"C", [job |-> job.job, m |-> job.m, ext |-> (job.job = "help" /\ job.ext),
                   items |-> IF job.job = "parse" THEN job.items ELSE <<>>],
             out, DesignVerdict, hist>>)
=============================================================================
