--------------------- MODULE UdsScannerSetupContract ---------------------
(* Growth item X12 part 2, contract layer (operators only): what UDSScanner.setup() / teardown()
   (src/gallia/command/uds.py) promise around a scanner's main().

   Statement (growth/X12.json, last sentence):
   "Every UDS scanner, before its main() runs, triggers the ECUReset given by --ecu-reset (after a refusal once more
    from the default session), waits with TesterPresent requests until the ECU answers unless --no-ping, and reads
    the ECU properties; while main() runs a background task sends TesterPresent at least every two intervals unless
    --no-tester-present; after main() - also when main() failed - the properties are read again, both readings are
    stored (scan_run row of the database, PROPERTIES_PRE/POST.json), a difference is reported as a warning if
    --compare-properties, the tester-present task is stopped and the connection closed; a database write that fails
    during set-up or tear-down is reported as a warning and does not abort the scan."

   Sources of the clauses (documented behaviour only):
     L1/L2  AsyncScript.run(): `await self.setup(); try: await self.main() finally: await self.teardown()`; Scanner
            docstring: "setup() can be overwritten ... for preparation tasks, such as establishing a network connection
            or starting background tasks", "teardown() ... for cleanup tasks, such as terminating a network connection
            or background tasks".
     R1     help text --ecu-reset "Trigger an initial ecu_reset via UDS; reset level is optional"; log texts
            "ECUReset failed: <resp>", "Switching to default session", "ECUReset in session 0x01 failed: <resp>".
     G1     help text --ping/--no-ping "Enable/Disable initial TesterPresent request"; comment "Handles connecting to
            the target and waits until it is ready."; ECU.wait_for_ecu docstring "Wait for ecu to be alive again".
     G2/G3  UDSScanner docstring "A background tasks sends TesterPresent regularly to avoid timeouts."; help texts
            --tester-present "Enable/Disable tester present background worker", --tester-present-interval "Modify the
            interval of the cyclic tester present packets"; teardown() stops the worker and closes the transport
            (comment "It is important to close this new transport as well!").
     H1/H2  help text --properties "Read and store the ECU proporties prior and after scan"; FileNames
            PROPERTIES_PRE.json / PROPERTIES_POST.json; DBHandler.insert_scan_run_properties_pre / complete_scan_run.
     H3     help text --compare-properties "Compare properties before and after the scan"; log text "ecu properties
            differ, please investigate!".
     D1     dedicated handlers `except Exception as e: logger.warning("Could not write the scan run to the database
            ...")`, "Could not write the properties_pre to the database ..." (documented intent: a database problem
            costs the row, not the scan).

   Not demanded (sources silent; every outcome accepted): what happens when set-up itself cannot complete (ECU never
   answers, DiagnosticSessionControl refused after a refused reset) or when the ECU no longer answers during
   tear-down; the cyclic TesterPresent while one of its requests stays unanswered (the client waits for the response
   timeout); the exact period of the cyclic TesterPresent (only an upper bound of two intervals on every gap);
   TesterPresent requests before main() when only the cyclic worker is enabled; the comparison when no artifacts
   directory exists; exit codes and META.json (property C15).

   Observation O of one run (ECU-side ground truth + what the run left behind; times in virtual ms):
     O.cfg   = [ping, tp, interval, props, compare, reset (-1: none), db, art, dbFault ("none"|"scan_run"|"pre"|"post")]
     O.reqs    sequence (time order) of [t, ph, k, res, v, lvl]   request seen by the ECU in phase ph
               ("setup" | "main" | "teardown" | "after"), kind k ("tp" | "reset" | "dsc" | "prop" | "write" | "other"),
               res ("pos" | "neg" | "none"), v = property value returned (prop), lvl = reset level / session
     O.nmain   how often main() was entered;  O.mainStart, O.mainEnd;  O.mainOut "ok" | "raise" | "none"
     O.runEnd, O.runOut  "ok" | "main-exc" | "exc" | "hang";   O.open  connections still open after the run
     O.leaked  background tasks created during the run that are still pending some intervals after it ended
     O.db    = [has, pre, post]   scan_run row present, properties_pre / properties_post as value index (-1: NULL)
     O.files = [pre, post]        PROPERTIES_PRE.json / PROPERTIES_POST.json (-1: missing)
     O.warnTeardown               warnings logged between the end of main() and the end of the run              *)
EXTENDS Naturals, Integers, Sequences, FiniteSets

Idx(O) == 1..Len(O.reqs)
Sel(O, ph, k) == {i \in Idx(O) : O.reqs[i].ph = ph /\ O.reqs[i].k = k}
Last(S) == CHOOSE i \in S : \A j \in S : j <= i
ValOf(O, S) == IF S = {} THEN -1 ELSE O.reqs[Last(S)].v
PreVal(O)  == ValOf(O, Sel(O, "setup", "prop"))
PostVal(O) == ValOf(O, Sel(O, "teardown", "prop"))

\* D1: a failing database write neither prevents main() nor changes how the run ends
D1_DbFaultTolerated(O) ==
  O.cfg.dbFault # "none" => O.nmain = 1 /\ (O.mainOut = "ok" => O.runOut = "ok")

L1_MainOnce(O)   == O.nmain = 1
L2_RunOutcome(O) == /\ O.mainOut = "ok" => O.runOut = "ok"
                    /\ O.mainOut = "raise" => O.runOut = "main-exc"

R1_Reset(O) ==
  LET R == Sel(O, "setup", "reset") IN
  IF O.cfg.reset < 0 THEN R = {} /\ Sel(O, "teardown", "reset") = {}
  ELSE /\ R # {} /\ \A i \in R : O.reqs[i].lvl = O.cfg.reset
       /\ LET f == CHOOSE i \in R : \A j \in R : i <= j IN
            O.reqs[f].res = "neg" =>
              \E d \in Sel(O, "setup", "dsc") : d > f /\ O.reqs[d].lvl = 1 /\ \E r \in R : r > d

G1_Ping(O) ==
  /\ O.cfg.ping => \E i \in Sel(O, "setup", "tp") : O.reqs[i].res = "pos"
  /\ (~O.cfg.ping /\ ~O.cfg.tp) => Sel(O, "setup", "tp") = {}

TpMain(O) == {i \in Idx(O) : O.reqs[i].k = "tp" /\ O.reqs[i].t >= O.mainStart /\ O.reqs[i].t <= O.mainEnd}
\* an unanswered cyclic TesterPresent occupies the client for the response timeout: nothing is demanded then
TpAllAnswered(O) == \A i \in Idx(O) : (O.reqs[i].k = "tp" /\ O.reqs[i].ph # "setup") => O.reqs[i].res = "pos"
G2_TesterPresentDuringMain(O) ==
  LET W == 2 * O.cfg.interval IN
  IF O.cfg.tp /\ ~TpAllAnswered(O) THEN TRUE
  ELSE IF O.cfg.tp
  THEN /\ (\E i \in TpMain(O) : O.reqs[i].t - O.mainStart <= W) \/ O.mainEnd - O.mainStart <= W
       /\ \A i \in TpMain(O) : \/ O.mainEnd - O.reqs[i].t <= W
                               \/ \E j \in TpMain(O) : j > i /\ O.reqs[j].t - O.reqs[i].t <= W
  ELSE \A i \in Idx(O) : O.reqs[i].k = "tp" => O.reqs[i].ph = "setup"

G3_StoppedAfterwards(O) == (\A i \in Idx(O) : O.reqs[i].ph # "after") /\ O.open = 0 /\ O.leaked = 0

H1_PropsRead(O) ==
  IF O.cfg.props THEN Sel(O, "setup", "prop") # {} /\ Sel(O, "teardown", "prop") # {}
  ELSE \A i \in Idx(O) : O.reqs[i].k # "prop"

H2_PropsStored(O) ==
  IF O.cfg.props
  THEN /\ (O.cfg.db /\ O.cfg.dbFault \in {"none", "post"}) => O.db.has /\ O.db.pre = PreVal(O)
       /\ (O.cfg.db /\ O.cfg.dbFault \in {"none", "pre"})  => O.db.has /\ O.db.post = PostVal(O)
       /\ O.cfg.art => O.files.pre = PreVal(O) /\ O.files.post = PostVal(O)
  ELSE O.db.pre = -1 /\ O.db.post = -1 /\ O.files.pre = -1 /\ O.files.post = -1

H3_Compare(O) ==
  (O.cfg.props /\ O.cfg.art /\ O.cfg.dbFault = "none" /\ TpAllAnswered(O)) =>
     IF O.cfg.compare /\ PreVal(O) # PostVal(O) THEN O.warnTeardown > 0 ELSE O.warnTeardown = 0

Verdict(O) ==
  IF O.runOut = "hang"                     THEN "L0/run-does-not-terminate"
  ELSE IF ~D1_DbFaultTolerated(O)          THEN "D1/database-write-failure-aborts-the-scan"
  ELSE IF ~L1_MainOnce(O)                  THEN "L1/main-not-run-exactly-once"
  ELSE IF ~L2_RunOutcome(O)                THEN "L2/run-outcome-differs-from-main"
  ELSE IF ~R1_Reset(O)                     THEN "R1/ecu-reset"
  ELSE IF ~G1_Ping(O)                      THEN "G1/initial-tester-present"
  ELSE IF ~G2_TesterPresentDuringMain(O)   THEN "G2/cyclic-tester-present-during-main"
  ELSE IF ~G3_StoppedAfterwards(O)         THEN "G3/not-quiet-after-teardown"
  ELSE IF ~H1_PropsRead(O)                 THEN "H1/properties-not-read-before-and-after"
  ELSE IF ~H2_PropsStored(O)               THEN "H2/stored-properties-differ-from-what-the-ecu-said"
  ELSE IF ~H3_Compare(O)                   THEN "H3/comparison-warning"
  ELSE "ok"

\* cases the statement does not decide (counted, never a violation)
Unspecified(O) == (IF O.cfg.props /\ ~O.cfg.art /\ O.cfg.compare THEN 1 ELSE 0)
                  + (IF ~O.cfg.ping /\ O.cfg.tp THEN 1 ELSE 0) + (IF ~TpAllAnswered(O) THEN 1 ELSE 0)
=============================================================================
