---- MODULE MC_Reconnect ----
EXTENDS Reconnect
====
