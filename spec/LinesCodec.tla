----------------------------- MODULE LinesCodec -----------------------------
(* The documented wire format of the tcp-lines / unix-lines transports and of
   the virtual ECU's tcp-lines/unix-lines server ("UDS messages are sent
   linebased in ascii hex encoding", docs/transports.md): one message =
   lower-case hex digits of its bytes followed by one newline.
   Pure operators (no variables): used by the design layer LinesStream and, for
   the byte-level sample, by the trace spec.  Bytes are 0..255. *)
EXTENDS Naturals, Sequences

NL == 10                                                   \* "\n"

HexChar(n) == IF n < 10 THEN 48 + n ELSE 87 + n            \* '0'..'9', 'a'..'f'
HexVal(c)  == IF c \in 48..57 THEN c - 48
              ELSE IF c \in 97..102 THEN c - 87
              ELSE IF c \in 65..70 THEN c - 55             \* decoders accept 'A'..'F'
              ELSE 16                                      \* not a hex digit

Hex(m) == [i \in 1..(2 * Len(m)) |->
             IF i % 2 = 1 THEN HexChar(m[(i + 1) \div 2] \div 16)
                          ELSE HexChar(m[i \div 2] % 16)]

EncodeLine(m) == Hex(m) \o <<NL>>

RECURSIVE EncodeFrom(_, _)
EncodeFrom(ms, i) == IF i > Len(ms) THEN <<>> ELSE EncodeLine(ms[i]) \o EncodeFrom(ms, i + 1)
Encode(ms) == EncodeFrom(ms, 1)                            \* the byte stream of a message sequence

\* index of the first newline of b, 0 if there is none: the frame rule of the format
RECURSIVE LineEndFrom(_, _)
LineEndFrom(b, i) == IF i > Len(b) THEN 0 ELSE IF b[i] = NL THEN i ELSE LineEndFrom(b, i + 1)
LineEnd(b) == LineEndFrom(b, 1)

\* hex digits -> bytes; odd length or a non-digit is an error
Unhex(cs) ==
  IF Len(cs) % 2 = 1 \/ \E i \in 1..Len(cs) : HexVal(cs[i]) = 16
  THEN [ok |-> FALSE, m |-> <<>>]
  ELSE [ok |-> TRUE,
        m  |-> [i \in 1..(Len(cs) \div 2) |-> 16 * HexVal(cs[2 * i - 1]) + HexVal(cs[2 * i])]]

\* a line as handed out by the reader (with or, at end-of-stream, without newline)
StripNL(line) == IF Len(line) > 0 /\ line[Len(line)] = NL THEN SubSeq(line, 1, Len(line) - 1) ELSE line
DecodeLine(line) == Unhex(StripNL(line))
=============================================================================
