------------------------------ MODULE MC_VEcu ------------------------------
(* Small exhaustive model of the virtual ECU: 3 sessions, one service of every
   shape (plain: ReadDataByIdentifier, WriteDataByIdentifier, ReadMemoryByAddress (no handler); sub-function:
   DiagnosticSessionControl, TesterPresent, ECUReset; specialised sub-function:
   SecurityAccess; RoutineControl), every structural request class, every subset
   of the nine behaviour switches.  Service ids are the real ISO ones so that the
   harness can replay the printed transitions into a real RandomUDSServer whose
   `services` is this model. *)
EXTENDS VEcu

Sf(subs) == [sf |-> TRUE,  subs |-> subs]
Plain    == [sf |-> FALSE, subs |-> {}]

MCM ==
  (1 :> (16 :> Sf({1, 2, 3}) @@ 62 :> Sf({0}) @@ 34 :> Plain @@ 35 :> Plain)) @@
  (2 :> (16 :> Sf({1, 2})    @@ 62 :> Sf({0}) @@ 34 :> Plain @@ 39 :> Sf({1, 2})
         @@ 49 :> Sf({1, 2, 3}) @@ 17 :> Sf({1, 4}))) @@
  (3 :> (16 :> Sf({1, 3})    @@ 39 :> Sf({1, 2, 3, 4}) @@ 46 :> Plain))

\* what gallia's request codec treats as sub-function services
MCSfSids == {16, 17, 39, 40, 62, 133, 44, 25, 49}

R(b, p)     == [b |-> b, n |-> Len(b), p |-> p, key |-> "na"]
RK(b, key)  == [b |-> b, n |-> Len(b), p |-> TRUE, key |-> key]

MCReqSeq == <<
  \* one byte only: every shape, known / known elsewhere / unknown
  R(<<16>>, FALSE), R(<<17>>, FALSE), R(<<34>>, FALSE), R(<<39>>, FALSE), R(<<49>>, FALSE),
  R(<<62>>, FALSE), R(<<46>>, FALSE), R(<<40>>, FALSE), R(<<186>>, FALSE), R(<<20>>, FALSE),
  \* DiagnosticSessionControl: offered here, offered elsewhere, offered nowhere, suppress bit, malformed
  R(<<16, 1>>, TRUE), R(<<16, 2>>, TRUE), R(<<16, 3>>, TRUE), R(<<16, 5>>, TRUE),
  R(<<16, 130>>, TRUE), R(<<16, 131>>, TRUE), R(<<16, 133>>, TRUE), R(<<16, 1, 0>>, FALSE),
  \* ECUReset
  R(<<17, 1>>, TRUE), R(<<17, 129>>, TRUE), R(<<17, 2>>, TRUE), R(<<17, 4>>, TRUE),
  \* ReadDataByIdentifier: session DID, other DID, malformed
  R(<<34, 241, 134>>, TRUE), R(<<34, 18, 52>>, TRUE), R(<<34, 241>>, FALSE),
  \* SecurityAccess: seed, key (right / wrong / out of sequence), suppress bit, unknown level, malformed key
  R(<<39, 1>>, TRUE), R(<<39, 129>>, TRUE), RK(<<39, 2, 170>>, "right"), RK(<<39, 2, 170>>, "wrong"),
  RK(<<39, 130, 170>>, "right"), R(<<39, 3>>, TRUE), RK(<<39, 4, 170>>, "right"), R(<<39, 5>>, TRUE),
  R(<<39, 2>>, FALSE),
  \* RoutineControl (exempt from the sub-function rule): valid, unknown type, too short, suppress bit
  R(<<49, 1, 18, 52>>, TRUE), R(<<49, 5, 18, 52>>, FALSE), R(<<49, 1>>, FALSE), R(<<49, 129, 18, 52>>, TRUE),
  \* TesterPresent
  R(<<62, 0>>, TRUE), R(<<62, 128>>, TRUE), R(<<62, 1>>, FALSE), R(<<62, 0, 0>>, FALSE),
  \* WriteDataByIdentifier
  R(<<46, 18, 52, 86>>, TRUE), R(<<46, 18>>, FALSE),
  \* services in no session: sub-function shaped, plain, not a UDS service at all
  R(<<40, 1, 1>>, TRUE), R(<<40, 129, 1>>, TRUE), R(<<20, 255, 255, 255>>, TRUE), R(<<186, 1>>, FALSE),
  \* a plain service for which the server has no handler (ReadMemoryByAddress): generalReject / silence
  R(<<35, 17, 32, 4>>, TRUE), R(<<35, 17>>, FALSE)
>>

\* one request per structural class (indices into MCReqSeq), for the 2^9-subset run of the quick tier
MCReqSeqSmall == [k \in 1..23 |-> MCReqSeq[<<1, 3, 8, 9, 11, 12, 14, 15, 18, 19, 20, 23, 24, 25, 26, 28, 30, 35, 36, 39, 40, 45, 50>>[k]]]
AllOn == Rules
BFamAll == SUBSET Rules
\* quick export family: everything on, exactly one off, exactly one on, nothing on, some mixed sets
BFamExport == {Rules, {}} \cup {Rules \ {r} : r \in Rules} \cup {{r} : r \in Rules}
              \cup {Rules \ {"msf", "sfns"}, Rules \ {"sns", "fmt"}, Rules \ {"sc", "sr", "tp"},
                    Rules \ {"none", "supp"}, {"sc", "supp"}, {"sns", "sfns", "none"},
                    Rules \ {"sns", "msf", "sfns", "fmt"}}
\* spec -> code: the export configs print the model and the request list once, so that the
\* harness has no copy of its own
ASSUME Export => /\ \A i \in 1..Len(ReqSeq) : PrintT(<<"Q", i, ReqSeq[i].b, ReqSeq[i].p, ReqSeq[i].key>>)
                 /\ \A s \in DOMAIN M : \A sid \in DOMAIN M[s] :
                        PrintT(<<"M", s, sid, M[s][sid].sf, M[s][sid].subs>>)
BFamDefault == {Rules}
\* enough to take every action of the design layer once (coverage run)
BFamCov     == {Rules, Rules \ {"none"}}
BFamNoSfns  == {Rules \ {"sfns"}}
\* "disabling one behaviour": everything on, and exactly one off
BFamOneOff == {Rules} \cup {Rules \ {r} : r \in Rules}
=============================================================================
