------------------------ MODULE MemoryScanContract ------------------------
(* Growth item X05 -- `gallia scan uds memory` (MemoryFunctionsScanner), contract layer: operators only.

   STATEMENT (growth/X05.json)
     Every memory probe the scan sends is a well-formed ISO 14229-1 request of the chosen service (0x23 / 0x3D /
     0x34 / 0x35) and is sent only while the scanner's latest evidence says the ECU is in the configured session;
     every address answered with anything but requestOutOfRange is reported as a result for exactly that address,
     an unanswered address is reported as a timeout, and neither ends the scan: which addresses are probed does
     not depend on what the ECU answers.  With check_session=n the session is read at least every n-th address,
     a session loss is repaired by re-entering the session before probing goes on (the scan is aborted only if
     that fails), and a completed scan leaves the session.

   SOURCES of the clauses (docs/uds/scan_modes.md "Memory Scan" is a TODO, so: help texts, docstrings,
   comments / log messages / dedicated handlers of commands/scan/uds/memory.py, ISO 14229-1)
     M1 layout     ISO 14229-1 10.3 (0x23), 10.8 (0x3D), 14.2/14.3 (0x34/0x35): [sid] [dataFormatIdentifier, only
                   0x34/0x35] addressAndLengthFormatIdentifier (high nibble = byte length of memorySize, low nibble =
                   byte length of memoryAddress, both >= 1) memoryAddress memorySize [dataRecord, only 0x3D, exactly
                   memorySize bytes].  Scanner docstring: "... which all share the same packet structure, except for
                   0x3d which requires an additional data field"; comment: "RequestUpload and RequestDownload require
                   a DataFormatIdentifier byte that defines encryption and compression. 00 is neither."; option help:
                   "Service 0x3d requires a data payload which can be specified with this flag as a hex string";
                   `uds_memory_parameters` docstring: without an explicit format the ints are turned into "the
                   minimal byte length".
     M2 session    option help "set session to perform test"; main(): a refused session change is logged as
                   critical "could not change to session" and the scan exits.
     M3/M4 report  the result branches: `logger.result("Address ...: <response>")` for positive and for negative
                   responses, `logger.info` (no result) in the dedicated requestOutOfRange branch, and the dedicated
                   `except TimeoutError: logger.result("Address ...: timeout"); continue` handler.
     M5 sweep      the same handler `continue`s, no branch leaves the loop: the scan goes on whatever the answer.
                   WHICH addresses make up the sweep is documented nowhere: the contract takes it from a reference
                   run of the same options against an ECU that answers requestOutOfRange everywhere (measured, not
                   copied from the code) and demands only that it does not depend on the answers.
     M6 check      option help "Check current session via read DID [for every nth MemoryAddress] and try to recover
                   session"; comment "Check session and try to recover from wrong session (max 3 times), else skip
                   session"; log "Aborting scan on session ..."; ECU.check_and_set_session docstring ("Returns True
                   ... if read_session is not supported by the ECU or in the current session": the scan goes on).
     M7 leave      log "Leaving session ... via hook"; ECU.leave_session docstring.
   Where these sources are silent every outcome is accepted (counted as "unspecified", see Unspec): an empty data
   record for 0x3D, silent / otherwise refused session changes and session reads answered with an NRC that does
   not mean "not supported" (check_and_set_session documents that it raises), how often a probe is retried, how
   many recovery attempts are made, the order of the sweep, repeated probes of one address.

   OBSERVATION (events in order of occurrence, ECU side and scanner log interleaved)
     [k |-> "q", t, p, r, v]   request bytes p seen by the ECU while its ground-truth session was t; answer code r
                               (0 positive, 256 none, otherwise the NRC); v = session entered by a positive
                               DiagnosticSessionControl / reported by a positive session read (0 otherwise)
     [k |-> "res", a, w]       one result-tagged log record naming address a (minimal big-endian bytes),
                               w = "timeout" or "resp"
   Addresses are byte sequences (TLC integers are 32 bit, the sweep reaches 0xFF00000000).                     *)
EXTENDS Naturals, Sequences, FiniteSets, SequencesExt, TLC

POSITIVE == 0
NONE     == 256      \* no answer
LATE     == 257      \* ECU model class only: silent once, then positive
CRASH    == 258      \* ECU model class only: no answer, connection closed, ECU back in its default session
ROOR     == 49       \* 0x31 requestOutOfRange
LENERR   == 19       \* 0x13 (what the fake answers to a request it cannot read at all)
NotSupportedNrcs == {17, 127, 18, 126, 49}   \* helpers.suggests_identifier_not_supported

HasDfi(svc) == svc \in {52, 53}
Off(svc)    == IF HasDfi(svc) THEN 2 ELSE 1       \* bytes in front of the addressAndLengthFormatIdentifier

\* ISO decoding of a memory request: [ok, addr, size, data] (the three fields as byte sequences)
Decode(svc, p) ==
  LET off == Off(svc)
      okh == Len(p) >= off + 1
      al  == IF okh THEN p[off + 1] ELSE 0
      na  == al % 16
      ns  == al \div 16
  IN IF okh /\ na >= 1 /\ ns >= 1 /\ Len(p) >= off + 1 + na + ns
     THEN [ok |-> TRUE, addr |-> SubSeq(p, off + 2, off + 1 + na),
           size |-> SubSeq(p, off + 2 + na, off + 1 + na + ns), data |-> SubSeq(p, off + 2 + na + ns, Len(p))]
     ELSE [ok |-> FALSE, addr |-> <<>>, size |-> <<>>, data |-> <<>>]
Readable(svc, p)  == Decode(svc, p).ok
AddrField(svc, p) == Decode(svc, p).addr

RECURSIVE Strip(_)
Strip(s) == IF Len(s) > 1 /\ s[1] = 0 THEN Strip(Tail(s)) ELSE s
Minimal(s) == Len(s) = 1 \/ s[1] # 0
RECURSIVE Val(_)
Val(s) == IF s = <<>> THEN 0 ELSE Val(SubSeq(s, 1, Len(s) - 1)) * 256 + s[Len(s)]

(* Configuration C = [session, svc, data (bytes), check (0 = off, else n)] *)

\* first broken layout rule of a probe with decoding d, "" if the request is well-formed
LayoutD(C, p, d) ==
  IF ~d.ok THEN "M1/probe-not-an-iso-memory-request"
  ELSE IF HasDfi(C.svc) /\ p[2] # 0 THEN "M1/data-format-identifier-not-00"
  ELSE IF C.svc = 61 /\ C.data = <<>> THEN ""          \* unspecified: "requires a data payload"
  ELSE IF C.svc = 61 /\ d.data # C.data THEN "M1/data-record-differs-from-the-configured-data"
  ELSE IF C.svc = 61 /\ (Len(Strip(d.size)) > 3 \/ Val(Strip(d.size)) # Len(C.data))
       THEN "M1/memory-size-differs-from-the-data-record-length"
  ELSE IF C.svc # 61 /\ d.data # <<>> THEN "M1/trailing-bytes"
  ELSE IF ~Minimal(d.addr) \/ ~Minimal(d.size) THEN "M1/field-width-not-minimal"
  ELSE ""
Layout(C, p) == LayoutD(C, p, Decode(C.svc, p))

(* ECU model E = [fn : function <<session, address>> -> code, dflt : function session -> code]; elsewhere ROOR *)
ModelCode(E, t, a) ==
  IF <<t, a>> \in DOMAIN E.fn THEN E.fn[<<t, a>>]
  ELSE IF t \in DOMAIN E.dflt THEN E.dflt[t] ELSE ROOR

\* the fake answered as its model says (adr = the decoded address, leading zero bytes stripped)
FakeOkD(E, e, d, adr) ==
  IF ~d.ok THEN e.r = LENERR
  ELSE LET c == ModelCode(E, e.t, adr)
       IN IF c = LATE THEN e.r \in {NONE, POSITIVE} ELSE IF c = CRASH THEN e.r = NONE ELSE e.r = c

IsQ(e)        == e.k = "q"
IsProbe(C, e) == IsQ(e) /\ Len(e.p) >= 1 /\ e.p[1] = C.svc
IsRead(e)     == IsQ(e) /\ e.p = <<34, 241, 134>>
IsDsc(e)      == IsQ(e) /\ Len(e.p) = 2 /\ e.p[1] = 16
IsReset(e)    == IsQ(e) /\ Len(e.p) = 2 /\ e.p[1] = 17
IsTp(e)       == IsQ(e) /\ Len(e.p) >= 1 /\ e.p[1] = 62

A0 == [known |-> 0, lastp |-> <<>>, lastr |-> 0, lasta |-> <<>>, since |-> 0, maxsince |-> 0, nwrong |-> 0,
       bad |-> "", m0 |-> TRUE, probed |-> <<>>, ans |-> <<>>, sil |-> <<>>, resA |-> <<>>, toA |-> <<>>,
       streak |-> FALSE, tried |-> FALSE, resetNo |-> FALSE, dscNo |-> FALSE, unspec |-> 0, nprobe |-> 0]

\* close the probe episode that is still open (its last attempt decides)
Close(a) ==
  IF a.lastp = <<>> THEN a
  ELSE [a EXCEPT !.lastp = <<>>,
                 !.ans = IF a.lastr \notin {NONE, ROOR} THEN Append(@, a.lasta) ELSE @,
                 !.sil = IF a.lastr = NONE THEN Append(@, a.lasta) ELSE @]

Step(C, E, a, e) ==
  CASE e.k = "res" ->
         IF e.w = "timeout" THEN [a EXCEPT !.toA = Append(@, e.a)] ELSE [a EXCEPT !.resA = Append(@, e.a)]
    [] IsProbe(C, e) ->
         LET retry == a.lastp = e.p /\ a.lastr = NONE
             b     == IF retry THEN a ELSE Close(a)
             d     == Decode(C.svc, e.p)
             lay   == LayoutD(C, e.p, d)
             adr   == IF d.ok THEN Strip(d.addr) ELSE <<>>
             n     == IF retry THEN b.since ELSE b.since + 1
         IN [b EXCEPT !.lastp = e.p, !.lastr = e.r, !.lasta = adr,
                      !.since = n,
                      !.maxsince = IF n > @ THEN n ELSE @,
                      !.nwrong = IF b.known # C.session THEN @ + 1 ELSE @,
                      !.bad = IF @ = "" THEN lay ELSE @,
                      !.m0 = @ /\ FakeOkD(E, e, d, adr),
                      !.probed = IF retry \/ adr = <<>> THEN @ ELSE Append(@, adr),
                      !.unspec = IF C.svc = 61 /\ C.data = <<>> THEN @ + 1 ELSE @,
                      !.nprobe = @ + 1,
                      !.resetNo = FALSE, !.dscNo = FALSE]
    [] IsRead(e) ->
         LET k2 == IF e.r = POSITIVE THEN e.v ELSE a.known
             mismatch == e.r = POSITIVE /\ e.v # C.session
         IN [a EXCEPT !.known = k2, !.since = 0,
                      !.streak = IF e.r = POSITIVE THEN mismatch ELSE @,
                      !.tried = IF mismatch /\ ~a.streak THEN FALSE ELSE @,
                      !.unspec = IF e.r \notin ({POSITIVE, NONE} \cup NotSupportedNrcs) THEN @ + 1 ELSE @]
    [] IsDsc(e) ->
         [a EXCEPT !.known = IF e.r = POSITIVE THEN e.p[2] % 128 ELSE @,
                   !.streak = IF e.r = POSITIVE /\ e.p[2] % 128 = C.session THEN FALSE ELSE @,
                   !.tried = IF e.p[2] % 128 = C.session THEN TRUE ELSE @,
                   !.dscNo = IF e.p[2] % 128 = 1 /\ e.r # POSITIVE THEN TRUE ELSE @,
                   !.unspec = IF e.r = NONE THEN @ + 1 ELSE @]
    [] IsReset(e) ->
         [a EXCEPT !.known = IF e.r = POSITIVE THEN 1 ELSE @,
                   !.resetNo = IF e.r # POSITIVE THEN TRUE ELSE @,
                   !.unspec = IF e.r = NONE THEN @ + 1 ELSE @]
    [] OTHER -> a

Acc(C, E, ev) == Close(FoldLeft(LAMBDA a, e : Step(C, E, a, e), A0, ev))

(* sweep = set of addresses of the reference run;
   done = "ok" (run() returned), "exit" (SystemExit with a non-zero code), "exc" (another exception), "hang" *)
VerdictOf(C, sweep, a, done) ==
  LET probed == ToSet(a.probed)
      ans == ToSet(a.ans)
      sil == ToSet(a.sil)
      resA == ToSet(a.resA)
      toA == ToSet(a.toA)
  IN
  IF done = "hang" THEN "M8/scan-does-not-terminate"
  ELSE IF ~a.m0 THEN "M0/fake-ecu-inconsistent-with-its-model"
  ELSE IF a.bad # "" THEN a.bad
  ELSE IF a.nwrong > 0 THEN "M2/probe-without-evidence-of-the-configured-session"
  ELSE IF C.check > 0 /\ a.maxsince > C.check THEN "M6/more-than-n-addresses-without-session-check"
  ELSE IF ~(resA \subseteq ans) THEN "M4/result-for-an-address-without-reportable-answer"
  ELSE IF ~(toA \subseteq sil) THEN "M4/timeout-result-for-an-address-that-was-not-silent"
  ELSE IF ~(ans \subseteq resA) THEN "M3/answered-address-not-reported"
  ELSE IF ~(sil \subseteq toA) THEN "M3/silent-address-not-reported-as-timeout"
  ELSE IF ~(probed \subseteq sweep) THEN "M5/probed-addresses-depend-on-the-answers"
  ELSE IF done = "ok" THEN
       (IF ~(sweep \subseteq probed) THEN "M5/sweep-incomplete"
        ELSE IF a.nprobe > 0 /\ a.known # 1 /\ ~(a.resetNo /\ a.dscNo) THEN "M7/session-not-left"
        ELSE "ok")
  ELSE IF done = "exit" THEN
       (IF a.known = C.session THEN "M6/scan-aborted-although-in-the-configured-session"
        ELSE IF a.streak /\ ~a.tried THEN "M6/scan-aborted-without-recovery-attempt"
        ELSE "ok")
  ELSE IF a.unspec > 0 THEN "ok"            \* exception in a situation the sources are silent about
  ELSE "M5/scan-ended-by-an-exception"

Verdict(C, E, sweep, ev, done) == VerdictOf(C, sweep, Acc(C, E, ev), done)
Unspec(C, E, ev) == Acc(C, E, ev).unspec

M1Labels == {"M1/probe-not-an-iso-memory-request", "M1/data-format-identifier-not-00",
             "M1/data-record-differs-from-the-configured-data", "M1/memory-size-differs-from-the-data-record-length",
             "M1/trailing-bytes", "M1/field-width-not-minimal"}
M3Labels == {"M3/answered-address-not-reported", "M3/silent-address-not-reported-as-timeout"}
M4Labels == {"M4/result-for-an-address-without-reportable-answer", "M4/timeout-result-for-an-address-that-was-not-silent"}
M5Labels == {"M5/probed-addresses-depend-on-the-answers", "M5/sweep-incomplete", "M5/scan-ended-by-an-exception"}
M6Labels == {"M6/more-than-n-addresses-without-session-check", "M6/scan-aborted-although-in-the-configured-session",
             "M6/scan-aborted-without-recovery-attempt"}
=============================================================================
