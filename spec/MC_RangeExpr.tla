---------------------------- MODULE MC_RangeExpr ----------------------------
(* Enumerated AST families for the design layer of RangeExpr (cfg files cannot
   hold sets of tuples).  Items over a universe U: every listed number and every
   range a-b incl. single-element (a = b) and reversed (a > b) ones.            *)
EXTENDS RangeExpr

Items(U)       == {<<n>> : n \in U} \cup {<<a, b>> : a \in U, b \in U}
SeqsUpTo(S, n) == UNION {[1..k -> S] : k \in 0..n}
Exprs(U, n)    == SeqsUpTo(Items(U), n)
Entries(O, I)  == {<<o>> : o \in O} \cup {<<o, i>> : o \in O, i \in I}

\* ---- quick: <= 2 items over 0..6, <= 3 items over 0..2
Q_Asts1 == Exprs(0..6, 2) \cup Exprs(0..2, 3)
\* <= 2 entries (outer, inner <= 1 item over 0..1) and 3 entries over a tiny
\* family that has repeated outer keys, bare keys, reversed and empty parts
Q_E2a == Entries(Exprs(0..1, 1), Exprs(0..1, 1))
Q_E2b == Entries({<< <<0>> >>, << <<1>> >>, << <<0, 1>> >>}, {<< <<0>> >>, << <<1>> >>, << <<1, 0>> >>})
Q_Asts2 == SeqsUpTo(Q_E2a, 2) \cup SeqsUpTo(Q_E2b, 3)

\* ---- thorough: every expression of <= 3 items over 0..6 (178 809 ASTs)
T_Asts1 == Exprs(0..6, 3)
T_E2a == Entries(Exprs(0..2, 1), Exprs(0..2, 1))
T_E2c == Entries(Exprs(0..2, 1), Exprs(0..2, 2))
T_Asts2 == SeqsUpTo(T_E2a, 2) \cup SeqsUpTo(Q_E2b, 4) \cup SeqsUpTo(Q_E2a, 2) \cup SeqsUpTo(T_E2c, 1)

\* ---- tiny: liveness and negative controls
S_Asts1 == Exprs(0..3, 2)
S_Asts2 == SeqsUpTo(Q_E2b, 2)
=============================================================================
