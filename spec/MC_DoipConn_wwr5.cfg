SPECIFICATION Spec
CONSTANTS
  MaxFrames = 5
  Script <- ScriptWWR
  Dev_S12_AliveNeedsMutex = FALSE
  Dev_S13_RequeueAtTail = FALSE
INVARIANT D2_InOrder
INVARIANT D3_NothingLost
INVARIANT D4_AckedWritesSucceed
INVARIANT D5_AliveNotStalled
INVARIANT MutexSane
PROPERTY Terminates
CHECK_DEADLOCK FALSE
