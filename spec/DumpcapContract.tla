---------------------------- MODULE DumpcapContract ----------------------------
(* Growth item X16 -- the capture life cycle of gallia: gallia.dumpcap.Dumpcap (start / sync / stop and the
   compressor task) and its use by Scanner.setup() / Scanner.teardown() (`--dumpcap / --no-dumpcap`).

   CONTRACT LAYER: operators only, written from the statement in growth/X16.json.  Nothing here is taken from the
   control flow of the code.  A clause returns "ok" or its label; `ClsVerdict` / `ScanVerdict` return the label of
   the first clause broken (verdicts are total).

   Sources of the clauses
     A1  log record "Dumpcap does not support unix domain sockets" (dumpcap.py); return type `Self | None` of start().
     A2  docs/transports.md, isotp: "The can interface is specified as a host, e.g. `can0`"; dumpcap(1): -i names
         the capture interface.
     A4  comment in Scanner.setup(): "Start dumpcap as the first subprocess; otherwise network traffic might be
         missing" and the help text of --dumpcap "Enable/Disable creating a pcap file": the file is the record of
         the traffic of THIS run, so the capture filter (dumpcap -f, pcap-filter(7) semantics) has to ACCEPT the
         packets of the connection the transport makes to the target -- both directions, TCP, the address the URI
         names (for a host name: one of the addresses it resolves to) and the port the transport connects to
         (docs/transports.md: "scheme://host:port"; ISO 13400-2: TCP_DATA 13400 is what a DoIP URI without a port
         means, the transports supply their documented defaults).  CAN: comment in _can_cmd "can_id is in little
         endian": the frames that carry src_addr / dst_addr (docs/transports.md: ISO-TP source / destination
         address; 11 bit identifiers, ISO 11898) have to be accepted.  What ELSE a filter lets through is not
         documented anywhere: accepted (the driver reports selectivity as design drift only).
         "Extended CAN Ids are currently not supported!" / "TODO: Support extended CAN IDs": ids above 0x7FF are
         unspecified.
     R0..R5  `async def start(...) -> Self | None`; dedicated handler `except Exception: logger.error("Could not
         start dumpcap: ...")  return None`; "dumpcap terminated with exit code: [..]"; comment in _compressor:
         "Dumpcap first writes the pcap header. It does this once the tool is ready. We can use this is as a poor
         man's synchronization primitive"; `sync(self, timeout: float = 1)`: waits for readiness at most `timeout`.
     T0..T4  Scanner docstring: "pcap logfiles can be recorded via a Dumpcap background task", "teardown() ... for
         cleanup tasks, such as terminating a network connection or background tasks"; log record "Waiting {cleanup}s
         for dumpcap to receive all packets" followed by terminate(); dedicated handler `except ProcessLookupError:
         logger.warning("dumpcap terminated before gallia")`; dumpcap(1): the capture is stopped by SIGINT / SIGTERM
         (a process that is killed outright cannot flush the packets it still buffers).
     G0..G2  --dumpcap "creating a pcap file", file name `*.pcap.gz` in the artifacts directory; RFC 1952: a gzip
         file is a sequence of members, each closed by CRC32 + ISIZE -- "the pcap file" of a finished run is a
         complete gzip file whose content is what dumpcap wrote to its output, byte for byte.
     S0..S6  Scanner.setup(): RuntimeError("--dumpcap specified but `dumpcap` is not available"); log record
         "`dumpcap` could not be started!" (level error); the comment quoted under A4 (capture first, then connect);
         AsyncScript.run(): teardown() in `finally`; ScannerConfig.dumpcap help text.
   Where these sources are silent every outcome is accepted and counted (operator `ClsUnspec` / `ScanUnspec`):
   a capture process that ignores SIGTERM, what is left behind when setup() itself fails after the capture was
   started, extended CAN ids, URIs without a port for transports without a default, host names.

   Data shapes (all measured by harness/x16_run.py; integers < 2^31)
     tgt    = [kind |-> "eth"|"can"|"unix", addrs |-> Seq([a, fam]), port, iface, ids |-> Seq(Nat), named]
     script = [ready |-> "header"|"never"|"die", on_term |-> "exit"|"tail"|"ignore", then |-> "idle"|"exit"]
     argv   = [iface, wdash, nf, filt]            filt = syntax tree of the -f expression (harness/x16_filter.py)
     cls    = [tgt, script, path |-> "fake"|"none"|"noexec", start, sync, sync_long, slow, stop, spawned, reported, order, cleanup_ms,
               term_after_stop_ms, nsig, fexit, files, gz, got, want, prefix, alive_at_ret, pending, killed, argv]
     scan   = [tgt, script, path, cfg |-> [dumpcap, art, main, connect], exit, hang, slow, spawned, errlog, order, connected,
               nsig, fexit, files, gz, got, want, prefix, alive_at_ret, killed, argv]
*)
EXTENDS Integers, Sequences, FiniteSets, TLC

----------------------------------------------------------------------------
(* ------------------- pcap-filter(7) semantics (the part used) ------------------- *)

\* packets: [kind |-> "ip", fam, proto, src, dst, sport, dport]  |  [kind |-> "link", b |-> Seq(0..255)]
RECURSIVE Accepts(_, _)
Accepts(n, p) ==
  CASE n.op = "true"  -> TRUE
    [] n.op = "and"   -> Accepts(n.l, p) /\ Accepts(n.r, p)
    [] n.op = "or"    -> Accepts(n.l, p) \/ Accepts(n.r, p)
    [] n.op = "not"   -> ~Accepts(n.l, p)
    [] n.op = "host"  -> /\ p.kind = "ip"
                         /\ (n.fam = "any" \/ n.fam = p.fam)
                         /\ \/ (n.dir \in {"any", "src"} /\ p.src = n.addr)
                            \/ (n.dir \in {"any", "dst"} /\ p.dst = n.addr)
    [] n.op = "port"  -> /\ p.kind = "ip"
                         /\ p.proto \in {"tcp", "udp"}
                         /\ (n.proto = "any" \/ n.proto = p.proto)
                         /\ \/ (n.dir \in {"any", "src"} /\ n.lo <= p.sport /\ p.sport <= n.hi)
                            \/ (n.dir \in {"any", "dst"} /\ n.lo <= p.dport /\ p.dport <= n.hi)
    [] n.op = "proto" -> p.kind = "ip" /\ (n.p = p.proto \/ n.p = p.fam)
    [] n.op = "bytes" -> /\ p.kind = "link"
                         /\ n.off + Len(n.val) <= Len(p.b)
                         /\ LET m == \A i \in 1..Len(n.val) : n.care[i] = 0 \/ p.b[n.off + i] = n.val[i]
                            IN  m # (n.neg = 1)
    [] OTHER          -> FALSE

Client == "client"                       \* an address that is not the target's
Eph(port) == IF port = 61001 THEN 61002 ELSE 61001   \* some port of the client's

ToTarget(a, port)   == [kind |-> "ip", fam |-> a.fam, proto |-> "tcp", src |-> Client, dst |-> a.a,
                        sport |-> Eph(port), dport |-> port]
FromTarget(a, port) == [kind |-> "ip", fam |-> a.fam, proto |-> "tcp", src |-> a.a, dst |-> Client,
                        sport |-> port, dport |-> Eph(port)]

\* SocketCAN frame as the capture sees it (can_id little endian, "can_id is in little endian"), standard id
CanFrame(id) == <<id % 256, (id \div 256) % 256, 0, 0, 8, 0, 0, 0, 2, 16, 1, 0, 0, 0, 0, 0>>
StdId(id) == id >= 0 /\ id <= 2047

\* Is the filter documented for this target at all?
FilterSpecified(tgt) ==
  \/ tgt.kind = "eth" /\ Len(tgt.addrs) > 0 /\ tgt.port > 0
  \/ tgt.kind = "can" /\ Len(tgt.ids) = 2 /\ \A i \in 1..2 : StdId(tgt.ids[i])

AcceptsTargetTraffic(filt, tgt) ==
  IF tgt.kind = "eth"
  THEN \E i \in 1..Len(tgt.addrs) :
         Accepts(filt, ToTarget(tgt.addrs[i], tgt.port)) /\ Accepts(filt, FromTarget(tgt.addrs[i], tgt.port))
  ELSE \A i \in 1..Len(tgt.ids) : Accepts(filt, [kind |-> "link", b |-> CanFrame(tgt.ids[i])])

\* (not part of the contract: reported as design drift)  traffic that is not the target's
Foreign(tgt) ==
  IF tgt.kind = "eth"
  THEN LET a == tgt.addrs[1] IN
       { [ToTarget(a, tgt.port) EXCEPT !.dst = "other"], [ToTarget(a, tgt.port) EXCEPT !.dport = Eph(tgt.port)],
         [ToTarget(a, tgt.port) EXCEPT !.proto = "udp"] }
  ELSE { [kind |-> "link", b |-> CanFrame(id)] : id \in {1, 2046} \ {tgt.ids[1], tgt.ids[2]} }
Selective(filt, tgt) == \A p \in Foreign(tgt) : ~Accepts(filt, p)

----------------------------------------------------------------------------
(* ------------------------------ helpers ------------------------------ *)

Pos(s, x)       == IF \E i \in 1..Len(s) : s[i] = x THEN CHOOSE i \in 1..Len(s) : s[i] = x /\ \A j \in 1..(i - 1) : s[j] # x
                   ELSE 0
Before(s, a, b) == Pos(s, a) > 0 /\ Pos(s, b) > 0 /\ Pos(s, a) < Pos(s, b)

Spawnable(t) == t.path = "fake"
Healthy(sc)  == sc.ready = "header" /\ sc.then = "idle"     \* becomes ready, stays until told to stop
EndsByItself(sc) == sc.ready = "die" \/ (sc.ready = "header" /\ sc.then = "exit")
Obeys(sc)    == sc.on_term \in {"exit", "tail"} \/ EndsByItself(sc)   \* ends when signalled (or by itself)
Ignoring(sc) == ~Obeys(sc)

First(labels) == IF \E i \in 1..Len(labels) : labels[i] # "ok"
                 THEN labels[CHOOSE i \in 1..Len(labels) : labels[i] # "ok" /\ \A j \in 1..(i - 1) : labels[j] = "ok"]
                 ELSE "ok"

----------------------------------------------------------------------------
(* ------------------------------ A: the command line ------------------------------ *)

A_Cmd(t) ==
  First(<<
    IF t.tgt.kind = "unix" /\ (t.spawned # 0) THEN "A1/capture-started-for-a-unix-socket-target" ELSE "ok",
    IF t.spawned = 1 /\ t.tgt.kind = "can" /\ t.argv.iface # t.tgt.iface
      THEN "A2/capture-not-on-the-can-interface-of-the-target" ELSE "ok",
    IF t.spawned = 1 /\ FilterSpecified(t.tgt) /\ ~AcceptsTargetTraffic(t.argv.filt, t.tgt)
      THEN "A4/capture-filter-rejects-the-traffic-of-the-target" ELSE "ok"
  >>)

----------------------------------------------------------------------------
(* ------------------------------ R: start / sync report failures ------------------------------ *)

R_Report(t) ==
  First(<<
    IF t.start = "hang" THEN "R0/start-does-not-return" ELSE "ok",
    IF t.tgt.kind = "unix" /\ t.start \notin {"none", "exc"} THEN "A1/capture-started-for-a-unix-socket-target" ELSE "ok",
    IF FilterSpecified(t.tgt) /\ ~Spawnable(t) /\ t.start # "none" THEN "R1/missing-executable-not-answered-with-None" ELSE "ok",
    IF t.start = "none" /\ t.reported = 0 THEN "R5/start-returned-None-without-a-log-record" ELSE "ok",
    IF t.start = "obj" /\ t.sync = "hang" THEN "R3/sync-does-not-return" ELSE "ok",
    IF t.start = "obj" /\ t.script.ready = "die" /\ t.sync = "ok"
      THEN "R2/capture-process-that-died-at-once-passes-for-ready" ELSE "ok",
    IF t.start = "obj" /\ t.script.ready = "never" /\ t.sync = "ok" /\ ~Before(t.order, "ready", "sync_ret")
      THEN "R3/capture-process-that-never-became-ready-passes-for-ready" ELSE "ok",
    IF t.start = "obj" /\ t.sync = "ok" /\ ~Before(t.order, "ready", "sync_ret")
      THEN "R4/sync-returned-before-the-capture-was-ready" ELSE "ok",
    \* (sync_long: the caller allowed sync() plenty of time -- how fast a capture becomes ready is nowhere promised)
    \*  slow = 1: the process needed unusually long for its header, by script or because the machine is loaded)
    IF Spawnable(t) /\ t.tgt.kind # "unix" /\ FilterSpecified(t.tgt) /\ Healthy(t.script) /\ t.sync_long = 1 /\ t.slow = 0
       /\ ~(t.start = "obj" /\ t.sync = "ok")
      THEN "R6/healthy-capture-process-not-usable" ELSE "ok"
  >>)

----------------------------------------------------------------------------
(* ------------------------------ T: the stop protocol ------------------------------ *)

Stopped(t)  == t.start = "obj" /\ t.stop \in {"ok", "hang"}      \* stop() has returned (hang: only after the harness killed the process)

T_Stop(t) ==
  IF t.start # "obj" THEN "ok" ELSE
  First(<<
    IF t.stop = "stuck" THEN "T0/stop-does-not-return-although-the-process-is-gone" ELSE "ok",
    IF Obeys(t.script) /\ t.stop \in {"hang", "hang-exc"} THEN "T0/stop-does-not-return" ELSE "ok",
    IF Obeys(t.script) /\ t.stop = "exc" THEN "T0/stop-raises" ELSE "ok",
    IF Stopped(t) /\ t.alive_at_ret # "gone" THEN "T1/capture-process-not-terminated-and-reaped-after-stop" ELSE "ok",
    IF t.stop = "ok" /\ t.nsig > 0 /\ t.cleanup_ms >= 0 /\ 10 * t.term_after_stop_ms < 9 * t.cleanup_ms
      THEN "T2/signal-sent-before-the-cleanup-wait-was-over" ELSE "ok",
    IF t.stop = "ok" /\ t.pending # 0 THEN "T3/background-task-left-after-stop" ELSE "ok",
    \* asked to stop (SIGTERM / SIGINT, dumpcap(1): "stops capturing"), not killed: a killed dumpcap cannot write out
    \* what it still holds -- fexit is the exit status the process itself reported before leaving
    \* (only for a process that would have obeyed and never saw a signal it can handle: a fallback kill() for one that
    \* does not react is not excluded by any source)
    IF t.stop = "ok" /\ Obeys(t.script) /\ t.killed = 0 /\ t.spawned = 1 /\ t.fexit < 0 /\ t.nsig = 0
      THEN "T4/capture-process-killed-instead-of-asked-to-stop" ELSE "ok"
  >>)

----------------------------------------------------------------------------
(* ------------------------------ G: the pcap file ------------------------------ *)

G_Of(t) ==
  First(<<
    IF t.want > 0 /\ t.files # 1 THEN "G0/not-exactly-one-pcap-file-in-the-artifacts-directory" ELSE "ok",
    IF t.files >= 1 /\ t.gz # "complete" THEN "G0/pcap-file-is-not-a-complete-gzip-file" ELSE "ok",
    IF t.prefix < t.want THEN "G1/bytes-of-the-capture-lost" ELSE "ok",
    IF t.got # t.prefix THEN "G2/pcap-file-holds-bytes-the-capture-process-did-not-write" ELSE "ok",
    \* a process that was killed (fexit < 0: it did not report its own exit) may have written bytes its journal does not know of
    IF t.killed = 0 /\ t.fexit >= 0 /\ t.got > t.want THEN "G2/pcap-file-holds-bytes-the-capture-process-did-not-write" ELSE "ok"
  >>)

G_File(t) == IF Stopped(t) THEN G_Of(t) ELSE "ok"

ClsVerdict(t) == First(<<A_Cmd(t), R_Report(t), T_Stop(t), G_File(t)>>)

ClsUnspec(t) ==
    (IF t.start = "obj" /\ Ignoring(t.script) THEN 1 ELSE 0)
  + (IF t.spawned = 1 /\ ~FilterSpecified(t.tgt) THEN 1 ELSE 0)
  + (IF t.start = "exc" THEN 1 ELSE 0)
  + (IF t.tgt.kind = "eth" /\ t.tgt.named = 1 THEN 1 ELSE 0)
  + t.slow

----------------------------------------------------------------------------
(* ------------------------------ S: Scanner --dumpcap ------------------------------ *)

Wanted(t)   == t.cfg.dumpcap # 0 /\ t.cfg.art = 1
MainFails(t) == t.cfg.main # "ok"

S_Scan(t) ==
  First(<<
    IF t.hang = 1 /\ ~Ignoring(t.script) THEN "S0/command-does-not-end" ELSE "ok",
    IF t.cfg.dumpcap = 0 /\ (t.spawned # 0 \/ t.files # 0) THEN "S5/capture-made-although-switched-off" ELSE "ok",
    IF t.tgt.kind = "unix" /\ t.spawned # 0 THEN "A1/capture-started-for-a-unix-socket-target" ELSE "ok",
    IF Wanted(t) /\ t.tgt.kind # "unix" /\ ~Spawnable(t) /\ t.exit = 0
      THEN "S1/dumpcap-not-available-but-the-command-reports-success" ELSE "ok",
    IF Wanted(t) /\ t.tgt.kind # "unix" /\ Spawnable(t) /\ t.script.ready \in {"die", "never"} /\ t.exit = 0 /\ t.errlog = 0
      THEN "S4/capture-that-could-not-be-started-is-not-reported" ELSE "ok",
    IF t.spawned = 1 /\ t.tgt.kind = "can" /\ t.argv.iface # t.tgt.iface
      THEN "A2/capture-not-on-the-can-interface-of-the-target" ELSE "ok",
    IF t.spawned = 1 /\ FilterSpecified(t.tgt) /\ ~AcceptsTargetTraffic(t.argv.filt, t.tgt)
      THEN "A4/capture-filter-rejects-the-traffic-of-the-target" ELSE "ok"
  >>)

\* the run in which the documented life cycle applies: capture wanted, executable there, it becomes ready, ends when
\* signalled or by itself, the connection can be made
\* (a process that left by itself before setup() was over is the "could not be started" case, see S4)
Regular(t) == /\ Wanted(t) /\ t.tgt.kind = "eth" /\ Spawnable(t) /\ t.script.ready = "header"
              /\ Obeys(t.script) /\ t.cfg.connect = "ok" /\ t.hang = 0
              /\ (Healthy(t.script) \/ Before(t.order, "setup_done", "exit"))

S_Life(t) ==
  IF ~Regular(t) THEN "ok" ELSE
  First(<<
    IF t.spawned # 1 THEN "S2/capture-not-started" ELSE "ok",
    IF t.connected = 1 /\ ~Before(t.order, "ready", "connect") /\ Healthy(t.script)
      THEN "S2/connection-made-before-the-capture-was-ready" ELSE "ok",
    \* (slow = 1: the capture process needed longer to become ready than setup() waits -- nowhere promised, not judged)
    IF Healthy(t.script) /\ t.connected = 0 /\ t.slow = 0 THEN "S6/healthy-capture-keeps-the-command-from-connecting" ELSE "ok",
    IF t.connected = 1 /\ Healthy(t.script) /\ ~MainFails(t) /\ t.exit # 0 THEN "S6/healthy-capture-changes-the-exit-code" ELSE "ok",
    IF t.connected = 1 /\ MainFails(t) /\ t.exit = 0 THEN "S6/failed-main-reported-as-success" ELSE "ok",
    IF t.connected = 1 /\ t.alive_at_ret # "gone" THEN "S3/capture-process-not-stopped-by-teardown" ELSE "ok",
    IF t.connected = 1 /\ Healthy(t.script) /\ t.nsig = 0 /\ t.fexit < 0 THEN "S3/capture-process-not-stopped-by-teardown" ELSE "ok",
    IF t.connected = 1 /\ t.script.then = "exit" /\ ~MainFails(t) /\ t.exit # 0 THEN "S6/capture-that-ended-by-itself-changes-the-exit-code" ELSE "ok",
    IF t.connected = 1 THEN G_Of(t) ELSE "ok"
  >>)

ScanVerdict(t) == First(<<S_Scan(t), S_Life(t)>>)

ScanUnspec(t) ==
    (IF Ignoring(t.script) /\ t.spawned = 1 THEN 1 ELSE 0)
  + (IF t.spawned = 1 /\ t.connected = 0 THEN 1 ELSE 0)        \* setup() failed after the capture was started
  + (IF t.cfg.art = 0 THEN 1 ELSE 0)
  + (IF t.tgt.kind = "unix" THEN 1 ELSE 0)
  + t.slow
=============================================================================
