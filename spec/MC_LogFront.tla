---------------------------- MODULE MC_LogFront ----------------------------
(* Model-checking configurations of LogFront (X19): small constants, exhaustive.
   MC_LogFront_sinks   routing: 2 nodes, 2 files, levels, re-setup, add / remove
   MC_LogFront_colour  colour modes x tty x NO_COLOR x volatile x line length
   MC_LogFront_env     GALLIA_LOGLEVEL values incl. 0 / 1
   MC_LogFront_dev*    one deviation each (negative controls)
   MC_LogFront_sim     simulation config for spec -> code replay (KeepHist)     *)
EXTENDS LogFront

MCPalette367 == {3, 6, 7}
MCEnvAll == {-1, 0, 1, 3, 8}      \* -1: GALLIA_LOGLEVEL unset
MCEnvSim == {-1, 2, 5, 7, 8}
=============================================================================
