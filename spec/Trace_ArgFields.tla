--------------------------- MODULE Trace_ArgFields ---------------------------
(* Code -> spec for X20: validates, against ArgFieldsContract, what the REAL
   gallia argument parser did with the harness's synthetic config models
   (harness/props/x20.py, harness/x20_run.py).  One initial state per recorded
   execution; total verdicts ("ok" | "ok-unspecified" | label of the first
   clause broken).

   Batch: models = sequence of [m, fields] (the harness's own record of what it
   declared), traces = sequence of
     [id, kind "parse",  m, items, sep, inter, out [res, code, vals, mention]]
     [id, kind "help",   m, h [res, code, entries]]
     [id, kind "config", m, obs]                                               *)
EXTENDS ArgFieldsContract, Json, IOUtils

Batch == JsonDeserialize(IOEnv.TRACE_FILE)
T == Batch.traces
FieldsOf(m) == (CHOOSE x \in ToSet(Batch.models) : x.m = m).fields

VARIABLES tid, verdict
tvars == <<tid, verdict>>

FullVerdict(x) ==
  CASE x.kind = "parse" ->
         ParseJudge([fields |-> FieldsOf(x.m), items |-> x.items, sep |-> x.sep, inter |-> x.inter], x.out)
    [] x.kind = "help" -> [verdict |-> HelpVerdictS(FieldsOf(x.m), x.h), culprit |-> ""]
    [] x.kind = "config" -> [verdict |-> ConfigVerdictS(FieldsOf(x.m), x.obs), culprit |-> ""]
    [] OTHER -> [verdict |-> "machinery/unknown-record-kind", culprit |-> ""]

TInit == tid \in 1..Len(T) /\ verdict = "?"
TNext == /\ verdict = "?"
         /\ LET j == FullVerdict(T[tid]) IN
              /\ verdict' = j.verdict
              /\ PrintT(<<"V", T[tid].id, j.verdict, j.culprit>>)
         /\ tid' = tid
TSpec == TInit /\ [][TNext]_tvars
=============================================================================
