-------------------------- MODULE UdsClientLockInd --------------------------
(* Lock core of the C05 design layer (spec/UdsClientMutex.tla) in a form Apalache can
   type: callers, the FIFO asyncio.Lock (holder + waiters), the caller whose exchange is
   open on the wire (cur, = mon.cur of the contract monitor).  Every caller may be
   cancelled at every await point (UdsClientMutex cancels one chosen victim; this is
   more general).  Purpose: an INDUCTIVE invariant IndInv, discharged by Apalache for
   behaviours of ANY length (Init => IndInv, IndInv /\ Next => IndInv'), which implies
   M1 (a write only happens while no other caller's exchange is open).
   UdsClientMutex refines this module (checked by TLC: MC_UdsClientMutex_refine.cfg). *)
EXTENDS Naturals, Sequences, FiniteSets

CONSTANTS
  \* @type: Set(Str);
  Callers,
  \* @type: Bool;
  Dev_ReleaseInPending

VARIABLES
  \* @type: Str -> Str;
  pc,
  \* @type: Str;
  holder,
  \* @type: Seq(Str);
  waiters,
  \* @type: Str;
  cur

vars == <<pc, holder, waiters, cur>>

PcVals == {"idle", "wait", "read", "pread", "done"}

\* @type: (Seq(Str)) => Set(Str);
Range(s) == {s[i] : i \in DOMAIN s}

Init ==
  /\ pc = [c \in Callers |-> "idle"]
  /\ holder = "none"
  /\ waiters = <<>>
  /\ cur = ""

Release ==
  IF waiters = <<>> THEN holder' = "none" /\ UNCHANGED waiters
  ELSE holder' = Head(waiters) /\ waiters' = Tail(waiters)

Arrive(c) ==
  /\ pc[c] = "idle"
  /\ IF holder = "none" /\ waiters = <<>> THEN holder' = c /\ UNCHANGED waiters
     ELSE waiters' = Append(waiters, c) /\ UNCHANGED holder
  /\ pc' = [pc EXCEPT ![c] = "wait"]
  /\ UNCHANGED cur

Write(c) ==
  /\ pc[c] = "wait" /\ holder = c
  /\ pc' = [pc EXCEPT ![c] = "read"]
  /\ cur' = c
  /\ UNCHANGED <<holder, waiters>>

\* a read that does not end the exchange (responsePending)
ReadPending(c) ==
  /\ pc[c] = "read" /\ holder = c
  /\ pc' = [pc EXCEPT ![c] = "pread"]
  /\ (IF Dev_ReleaseInPending THEN Release ELSE UNCHANGED <<holder, waiters>>)   \* negative control
  /\ UNCHANGED cur

\* a read that ends the exchange (final reply, stale reply refused, timeout, connection error)
ReadFinal(c) ==
  /\ pc[c] \in {"read", "pread"} /\ (holder = c \/ (Dev_ReleaseInPending /\ pc[c] = "pread"))
  /\ pc' = [pc EXCEPT ![c] = "done"]
  /\ cur' = ""
  /\ Release

\* @type: (Seq(Str), Str) => Seq(Str);
Without(s, c) ==
  LET \* @type: (Str) => Bool;
      Keep(x) == x # c
  IN SelectSeq(s, Keep)

Cancel(c) ==
  /\ pc[c] \in {"wait", "read", "pread"}
  /\ pc' = [pc EXCEPT ![c] = "done"]
  /\ IF holder = c THEN Release /\ cur' = "" 
     ELSE waiters' = Without(waiters, c) /\ UNCHANGED <<holder, cur>>

Next == \E c \in Callers : Arrive(c) \/ Write(c) \/ ReadPending(c) \/ ReadFinal(c) \/ Cancel(c)
Spec == Init /\ [][Next]_vars

------------------------------------------------------------------------------
TypeOK ==
  /\ pc \in [Callers -> PcVals]
  /\ holder \in Callers \cup {"none"}
  /\ cur \in Callers \cup {""}
  /\ Range(waiters) \subseteq Callers
  /\ Len(waiters) <= Cardinality(Callers)

IndInv ==
  /\ TypeOK
  /\ "none" \notin Callers /\ "" \notin Callers
  \* the lock is handed over directly: free only when nobody waits
  /\ holder = "none" => waiters = <<>>
  \* the holder is inside request(); everybody in an exchange is the holder
  /\ holder # "none" => pc[holder] \in {"wait", "read", "pread"}
  /\ \A c \in Callers : pc[c] \in {"read", "pread"} => holder = c
  \* waiters: distinct, waiting, not the holder; everybody waiting is the holder or queued
  /\ \A i, j \in DOMAIN waiters : i # j => waiters[i] # waiters[j]
  /\ \A i \in DOMAIN waiters : pc[waiters[i]] = "wait" /\ waiters[i] # holder
  /\ \A c \in Callers : pc[c] = "wait" => (c = holder \/ c \in Range(waiters))
  \* the open exchange belongs to the holder
  /\ cur # "" => (cur = holder /\ pc[cur] \in {"read", "pread"})
  /\ \A c \in Callers : pc[c] \in {"read", "pread"} => cur = c

\* M1, as an action-level statement turned into a state invariant by IndInv:
\* whenever a Write(c) is enabled no other caller's exchange is open
M1_WriteOnlyWhenWireFree == \A c \in Callers : (pc[c] = "wait" /\ holder = c) => cur = ""
\* at most one caller between write and final outcome
M1_AtMostOneInExchange == \A a, b \in Callers : (pc[a] \in {"read", "pread"} /\ pc[b] \in {"read", "pread"}) => a = b
\* M3 core: when nobody is inside request() the lock is free
M3_FreeWhenQuiet == (\A c \in Callers : pc[c] \in {"idle", "done"}) => (holder = "none" /\ waiters = <<>>)
Safety == M1_WriteOnlyWhenWireFree /\ M1_AtMostOneInExchange /\ M3_FreeWhenQuiet
=============================================================================
