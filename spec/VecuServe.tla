---------------------------- MODULE VecuServe ----------------------------
(* Growth item X21, design layer: the line server as implemented after the repair (handle_client closes its
   connection when the loop ends; serve() stops listening, closes the clients that are still connected and then
   waits for the server).

   Dev_AsFound reproduces the tree as found (15e34d4): handle_client never closes its StreamWriter, run() relies
   on `async with server: serve_forever()`.  With Python >= 3.12 asyncio.Server.wait_closed() waits for every
   accepted connection, so the cancelled run() only returns if no connection is left: a connection stays "left"
   when the client is still connected, or when it hung up after at least one request (nobody closes the server
   side).  A client that hangs up WITHOUT a request makes the handler die with ZeroDivisionError (average of an
   empty list) -- the connection is then collected, but the exception is unhandled.
   Kept as negative control: must violate ContractHolds.                                                          *)
EXTENDS Naturals, Sequences, FiniteSets, TLC, VecuServeContract

CONSTANTS Clients, MaxReq, MaxLen, Dev_AsFound

VARIABLES st,     \* client -> "idle" | "conn" | "gone"
          nreq,   \* client -> requests sent on its connection
          srv,    \* "up" | "down" | "stuck"
          hist    \* the event sequence the contract judges
vars == <<st, nreq, srv, hist>>

Init == /\ st = [c \in Clients |-> "idle"] /\ nreq = [c \in Clients |-> 0] /\ srv = "up" /\ hist = <<>>

Connect(c) == /\ srv = "up" /\ st[c] = "idle" /\ Len(hist) < MaxLen
              /\ st' = [st EXCEPT ![c] = "conn"] /\ hist' = Append(hist, [e |-> "Connect", c |-> c])
              /\ UNCHANGED <<nreq, srv>>
Request(c) == /\ srv = "up" /\ st[c] = "conn" /\ nreq[c] < MaxReq /\ Len(hist) < MaxLen
              /\ nreq' = [nreq EXCEPT ![c] = @ + 1]
              /\ hist' = Append(hist, [e |-> "Request", c |-> c, ok |-> TRUE])
              /\ UNCHANGED <<st, srv>>
Close(c)   == /\ srv = "up" /\ st[c] = "conn" /\ Len(hist) < MaxLen
              /\ st' = [st EXCEPT ![c] = "gone"] /\ hist' = Append(hist, [e |-> "Close", c |-> c])
              /\ UNCHANGED <<nreq, srv>>

\* connections the server side still holds when it is stopped (as found)
Left == {c \in Clients : st[c] = "conn" \/ (st[c] = "gone" /\ nreq[c] > 0)}
Crashed == {c \in Clients : st[c] = "gone" /\ nreq[c] = 0}
SeqOf(S) == LET RECURSIVE F(_) F(T) == IF T = {} THEN <<>> ELSE LET x == CHOOSE y \in T : TRUE IN <<x>> \o F(T \ {x}) IN F(S)

Stop ==
  /\ srv = "up"
  /\ LET ended == IF Dev_AsFound THEN Left = {} ELSE TRUE
         open  == IF Dev_AsFound /\ ~ended THEN SeqOf({c \in Clients : st[c] = "conn"}) ELSE <<>>
         excs  == IF Dev_AsFound THEN Cardinality(Crashed) ELSE 0
     IN /\ srv' = IF ended THEN "down" ELSE "stuck"
        /\ hist' = hist \o << [e |-> "Stop", ended |-> ended], [e |-> "Final", open |-> open, excs |-> excs] >>
  /\ UNCHANGED <<st, nreq>>

Next == Stop \/ \E c \in Clients : Connect(c) \/ Request(c) \/ Close(c)
Spec == Init /\ [][Next]_vars /\ WF_vars(Stop)

ContractHolds == Verdict(hist) = "ok"
StopEnds == srv # "stuck"
Eventually == <>(srv # "up")
\* export: one line per finished scenario (the actions only; the driver replays them on the real server)
Export == srv = "up" \/ PrintT(<<"S", [i \in 1..Len(hist) |-> IF hist[i].e \in {"Connect", "Request", "Close"}
                                                              THEN <<hist[i].e, hist[i].c>> ELSE <<hist[i].e, 0>>]>>)
=============================================================================
