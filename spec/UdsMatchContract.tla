------------------------- MODULE UdsMatchContract -------------------------
(* C03 -- contract layer (operators only, no variables).

   "A genuine reply - a negative response naming the request's service id, or
    the positive response of that service (id + 0x40) echoing the request's
    sub-function / data identifier / routine identifier / block counter /
    memory fields - is always accepted as the answer to the outstanding
    request.  A reply of another service, a negative response naming another
    service, or a positive reply whose echoed primary identifier differs is
    always refused with a request/response-mismatch error, and an undecodable
    reply of the right service with a malformed-response error, so stale or
    foreign replies never become results of the current probe."

   Written from that statement and from ISO 14229-1 (message layouts, Annex A
   response codes), NOT from gallia's service.py.  PDUs are Seq(0..255),
   numbers are decimal with the hex value in comments.

   The oracle is the SET  Allowed(req, raw, reply)  of admissible outcomes
   ("Accept" | "Mismatch" | "Malformed" | "Other");  Expected(...) names the
   single demanded outcome or "Unspecified".  Where the statement is silent or
   ISO leaves the layout open, every outcome is admissible:
     - one-byte 0x7F, negative responses longer than 3 bytes, response codes
       of the range ISO reserves "for specific conditions not correct"
       (0x95..0xEF): accepted or malformed;
     - positive replies LONGER than the ISO layout (trailing bytes), replies
       whose optional/conditional part cannot be judged: accepted or malformed
       ("undecodable" is only demanded when mandatory fields are missing);
     - a reply whose sub-function byte has bit 7 set; ReadMemoryByAddress
       replies of another length than requested; multi-DID reads beyond the
       first DID; secondary echoes (DDDI identifier, DTC of the ext-data
       record, IO control parameter): free;
     - requests the caller sent as raw bytes: only the service id is demanded
       (a stricter answer is admissible).                                   *)
EXTENDS Integers, Sequences, FiniteSets

Outcomes   == {"Accept", "Mismatch", "Malformed"}
AnyOutcome == Outcomes \cup {"Other"}
NEG        == 127                                   \* 0x7F

Min(a, b) == IF a <= b THEN a ELSE b
Hi(b)     == b \div 16
Lo(b)     == b % 16

---------------------------------------------------------------------------
(* ISO 14229-1:2020 Table A.1 -- negative response codes with a defined
   meaning.  Everything else is ISOSAEReserved, except 0x95..0xEF which the
   standard sets aside for future "specific conditions not correct" codes
   (treated as unsure).                                                     *)
ValidNrc ==
       (16..20)                       \* 0x10..0x14
  \cup {33, 34, 36, 37, 38}           \* 0x21 0x22 0x24 0x25 0x26
  \cup {49}                           \* 0x31
  \cup (51..58)                       \* 0x33..0x3A
  \cup (80..93)                       \* 0x50..0x5D
  \cup (112..115)                     \* 0x70..0x73
  \cup {120, 126, 127}                \* 0x78 0x7E 0x7F
  \cup (129..141)                     \* 0x81..0x8D
  \cup (143..148)                     \* 0x8F..0x94
  \cup (240..254)                     \* 0xF0..0xFE
UnsureNrc   == 149..239               \* 0x95..0xEF
ReservedNrc == (0..255) \ (ValidNrc \cup UnsureNrc)

---------------------------------------------------------------------------
(* Minimal structural knowledge per service id (ISO 14229-1 clauses 9-14). *)
SubFnSids  == {16, 17, 39, 40, 62, 133, 25, 44}
              \* 0x10 0x11 0x27 0x28 0x3E 0x85 0x19 0x2C : echo = sub-function (bits 6..0)
RoutineSid == 49                      \* 0x31: routine control type + routine identifier
DidSids    == {34, 46, 47}            \* 0x22 0x2E 0x2F  : echo = data identifier
NoEchoSids == {20, 35, 52, 53, 55}    \* 0x14 0x23 0x34 0x35 0x37 : nothing echoed
BlockSid   == 54                      \* 0x36: block sequence counter
WmbaSid    == 61                      \* 0x3D: addressAndLengthFormatIdentifier + address + size
Modelled   == SubFnSids \cup DidSids \cup NoEchoSids \cup {RoutineSid, BlockSid, WmbaSid}
(* services ISO defines but whose layout this module does not transcribe *)
IsoUnmodelled == (1..10) \cup {36, 41, 42, 56, 131, 132, 134, 135}
              \* OBD 0x01..0x0A, 0x24 0x29 0x2A 0x38 0x83 0x84 0x86 0x87

HasSf(s) == s \in SubFnSids \/ s = RoutineSid

(* is the request long enough for its echoed fields to be defined? *)
ReqOk(req) ==
  LET s == req[1]
      n == Len(req) IN
  CASE s \in SubFnSids  -> n >= 2
    [] s = RoutineSid   -> n >= 4
    [] s = 34           -> n >= 3 /\ (n - 1) % 2 = 0
    [] s \in {46, 47}   -> n >= 3
    [] s = 35           -> n >= 2 /\ Lo(req[2]) >= 1 /\ Hi(req[2]) >= 1
                           /\ n >= 2 + Lo(req[2]) + Hi(req[2])
    [] s \in NoEchoSids -> TRUE
    [] s = BlockSid     -> n >= 2
    [] s = WmbaSid      -> n >= 2 /\ Lo(req[2]) >= 1 /\ Hi(req[2]) >= 1
                           /\ n >= 2 + Lo(req[2]) + Hi(req[2])
    [] OTHER            -> FALSE

(* the bytes a genuine positive reply carries at positions 2..(1+Len) *)
Echo(req) ==
  LET s == req[1] IN
  CASE s \in SubFnSids -> << req[2] % 128 >>
    [] s = RoutineSid  -> << req[2] % 128, req[3], req[4] >>
    [] s \in DidSids   -> << req[2], req[3] >>
    [] s = BlockSid    -> << req[2] >>
    [] s = WmbaSid     -> SubSeq(req, 2, 2 + Lo(req[2]) + Hi(req[2]))
    [] OTHER           -> << >>

BE(s) == IF Len(s) = 1 THEN s[1]
         ELSE IF Len(s) = 2 THEN s[1] * 256 + s[2]
         ELSE s[1] * 65536 + s[2] * 256 + s[3]

(* requested memory size of a ReadMemoryByAddress request, -1 if wider than 3 bytes *)
RmbaSize(req) ==
  LET a == Lo(req[2])
      z == Hi(req[2]) IN
  IF z > 3 THEN -1 ELSE BE(SubSeq(req, 3 + a, 2 + a + z))

(* ReadDataByIdentifier with several identifiers: can the reply be cut into
   DID_j dataRecord_j (>= 1 byte) ... in the order of the request? *)
RECURSIVE DidChain(_, _, _, _)
DidChain(r, pos, req, j) ==
  /\ pos + 2 <= Len(r)
  /\ r[pos] = req[2 * j] /\ r[pos + 1] = req[2 * j + 1]
  /\ IF 2 * j + 1 = Len(req) THEN TRUE
     ELSE \E q \in (pos + 3)..(Len(r) - 2) : DidChain(r, q, req, j + 1)

(* ReadDTCInformation report types by response layout *)
DtcCountTypes  == {1, 7, 17, 18}          \* 59 sf mask format countHi countLo
DtcListTypes   == {2, 10, 15, 19, 21}     \* 59 sf mask (DTC(3) status)*
DtcSingleTypes == {11, 12, 13, 14}        \* 59 sf mask [DTC(3) status]

(* Dec: can a reply of the RIGHT service be decoded per its ISO layout?
   "no"     mandatory fields are missing (truncated)
   "yes"    complete and consistent
   "unsure" longer than the layout / conditional parts / edition dependent *)
Dec(req, r) ==
  LET s  == req[1]
      n  == Len(r)
      sf == IF n >= 2 THEN r[2] % 128 ELSE 0 IN
  CASE s = 16 -> IF n < 2 THEN "no" ELSE IF n = 6 THEN "yes" ELSE "unsure"
    [] s = 17 -> IF n < 2 THEN "no"
                 ELSE IF (n = 2 /\ sf # 4) \/ (n = 3 /\ sf = 4) THEN "yes" ELSE "unsure"
    [] s = 39 -> IF n < 2 THEN "no"
                 ELSE IF sf \in 1..126 /\ ((sf % 2 = 1 /\ n >= 3) \/ (sf % 2 = 0 /\ n = 2))
                      THEN "yes" ELSE "unsure"
    [] s \in {40, 133} -> IF n < 2 THEN "no" ELSE IF n = 2 THEN "yes" ELSE "unsure"
    [] s = 62 -> IF n < 2 THEN "no" ELSE IF n = 2 /\ r[2] = 0 THEN "yes" ELSE "unsure"
    [] s = 34 -> IF n < 3 THEN "no" ELSE IF n = 3 THEN "unsure"
                 ELSE IF Len(req) = 3 \/ DidChain(r, 2, req, 1) THEN "yes" ELSE "unsure"
    [] s = 35 -> IF RmbaSize(req) >= 1 /\ n - 1 = RmbaSize(req) THEN "yes" ELSE "unsure"
    [] s = 44 -> IF n < 2 THEN "no"
                 ELSE IF sf \in {1, 2} THEN (IF n < 4 THEN "no" ELSE IF n = 4 THEN "yes" ELSE "unsure")
                 ELSE IF sf = 3 THEN (IF (n = 2 /\ Len(req) = 2) \/ (n = 4 /\ Len(req) = 4)
                                      THEN "yes" ELSE "unsure")
                 ELSE "unsure"
    [] s = 46 -> IF n < 3 THEN "no" ELSE IF n = 3 THEN "yes" ELSE "unsure"
    [] s = 61 -> IF n < 2 THEN "no"
                 ELSE IF Lo(r[2]) = 0 \/ Hi(r[2]) = 0 THEN "unsure"
                 ELSE IF n < 2 + Lo(r[2]) + Hi(r[2]) THEN "no"
                 ELSE IF n = 2 + Lo(r[2]) + Hi(r[2]) THEN "yes" ELSE "unsure"
    [] s = 20 -> IF n = 1 THEN "yes" ELSE "unsure"
    [] s = 25 -> IF n < 2 THEN "no"
                 ELSE IF sf \in DtcCountTypes
                      THEN (IF n < 6 THEN "no" ELSE IF n = 6 /\ r[4] <= 3 THEN "yes" ELSE "unsure")
                 ELSE IF sf \in DtcListTypes
                      THEN (IF n < 3 THEN "no" ELSE IF (n - 3) % 4 = 0 THEN "yes" ELSE "unsure")
                 ELSE IF sf \in DtcSingleTypes
                      THEN (IF n < 3 THEN "no" ELSE IF n \in {3, 7} THEN "yes" ELSE "unsure")
                 ELSE IF sf = 6          \* 59 06 DTC(3) status [recordNumber data+]*
                      THEN (IF n < 6 THEN "no" ELSE IF n = 6 THEN "yes"
                            ELSE IF n >= 8 /\ r[7] \in 1..239 THEN "yes" ELSE "unsure")
                 ELSE "unsure"
    [] s = 47 -> IF n < 3 THEN "no" ELSE IF n = 3 THEN "unsure" ELSE "yes"
    [] s = 49 -> IF n < 4 THEN "no" ELSE IF sf \in {1, 2, 3} THEN "yes" ELSE "unsure"
    [] s \in {52, 53} -> IF n < 2 THEN "no"
                 ELSE IF Hi(r[2]) = 0 THEN "unsure"
                 ELSE IF n < 2 + Hi(r[2]) THEN "no"
                 ELSE IF n = 2 + Hi(r[2]) /\ Lo(r[2]) = 0 THEN "yes" ELSE "unsure"
    [] s = 54 -> IF n < 2 THEN "no" ELSE "yes"
    [] s = 55 -> "yes"
    [] OTHER  -> "unsure"

---------------------------------------------------------------------------
(* Positive reply of the right, modelled service to a well-formed request. *)
PosClass(req, raw, r) ==
  LET s       == req[1]
      n       == Len(r)
      E       == Echo(req)
      k       == Len(E)
      avail   == Min(k, n - 1)
      rb(i)   == IF i = 1 /\ HasSf(s) THEN r[2] % 128 ELSE r[i + 1]
      differs == \E i \in 1..avail : rb(i) # E[i]
      short   == avail < k
      sup     == HasSf(s) /\ n >= 2 /\ r[2] >= 128
      d       == Dec(req, r)
      free    == \/ (s = 35 /\ d # "yes")                    \* RMBA reply of another length
                 \/ (s = 34 /\ Len(req) > 3 /\ d = "unsure" /\ n > 3)  \* multi-DID beyond the first
  IN
  IF sup /\ ~differs THEN "Free"
  ELSE IF sup \/ (differs /\ d # "yes") THEN "DiffersUndecodable"
  ELSE IF differs THEN "Differs"
  ELSE IF short THEN "Truncated"
  ELSE IF free THEN "Free"
  ELSE IF d = "yes" THEN "Genuine"
  ELSE IF d = "no" THEN "Truncated"
  ELSE "Unsure"

(* Class of the pair: which sentence of the statement decides it. *)
Class(req, raw, r) ==
  LET s == req[1]
      n == Len(r) IN
  IF n = 0 \/ Len(req) = 0 THEN "Free"
  ELSE IF s = 63 THEN "Free"                 \* 0x3F + 0x40 = 0x7F: no positive id
  ELSE IF r[1] = NEG THEN
       IF n = 1 THEN "Free"
       ELSE IF r[2] # s THEN "NegOther"
       ELSE IF n = 2 THEN "NegUndecodable"
       ELSE IF r[3] \in ReservedNrc THEN "NegUndecodable"
       ELSE IF n = 3 /\ r[3] \in ValidNrc THEN "NegGenuine"
       ELSE "NegUnsure"
  ELSE IF r[1] # s + 64 THEN "PosOther"
  ELSE IF s \in IsoUnmodelled THEN "Free"
  ELSE IF s \notin Modelled THEN "SidOnly"
  ELSE IF ~ReqOk(req) THEN "Free"
  ELSE PosClass(req, raw, r)

Allowed(req, raw, r) ==
  LET c      == Class(req, raw, r)
      rawAcc == IF raw THEN {"Accept"} ELSE {} IN
  CASE c = "NegGenuine"         -> {"Accept"}
    [] c = "NegOther"           -> {"Mismatch"}
    [] c = "NegUndecodable"     -> {"Malformed"}
    [] c = "NegUnsure"          -> {"Accept", "Malformed"}
    [] c = "PosOther"           -> {"Mismatch"}
    [] c = "SidOnly"            -> {"Accept"}
    [] c = "Genuine"            -> {"Accept"}
    [] c = "Differs"            -> {"Mismatch"} \cup rawAcc
    [] c = "DiffersUndecodable" -> {"Mismatch", "Malformed"} \cup rawAcc
    [] c = "Truncated"          -> {"Malformed"} \cup rawAcc
    [] c = "Unsure"             -> {"Accept", "Malformed"}
    [] OTHER                    -> AnyOutcome

Expected(req, raw, r) ==
  LET A == Allowed(req, raw, r) IN
  IF A = {"Accept"} THEN "Accept"
  ELSE IF A = {"Mismatch"} THEN "Mismatch"
  ELSE IF "Accept" \notin A /\ "Malformed" \in A THEN "Malformed"
  ELSE "Unspecified"

(* One label per sentence of the statement. *)
Clause(req, raw, r) ==
  LET c == Class(req, raw, r) IN
  CASE c = "NegGenuine"         -> "G1/negative-naming-request-sid-accepted"
    [] c = "Genuine"            -> "G2/positive-echoing-request-accepted"
    [] c = "SidOnly"            -> "G3/service-without-echo-fields-sid-only"
    [] c = "PosOther"           -> "F1/reply-of-another-service-is-mismatch"
    [] c = "NegOther"           -> "F2/negative-naming-another-service-is-mismatch"
    [] c = "Differs"            -> "F3/echoed-identifier-differs-is-mismatch"
    [] c = "DiffersUndecodable" -> "F3/echoed-identifier-differs-never-accepted"
    [] c = "Truncated"          -> "M1/undecodable-reply-of-right-service-is-malformed"
    [] c = "NegUndecodable"     -> "M2/undecodable-negative-of-right-service-is-malformed"
    [] c = "NegUnsure"          -> "U1/negative-of-right-service-never-mismatch"
    [] c = "Unsure"             -> "U2/right-service-right-echo-never-mismatch"
    [] OTHER                    -> "U0/unspecified"

Verdict(req, raw, r, observed) ==
  IF observed \in Allowed(req, raw, r) THEN "ok" ELSE Clause(req, raw, r)

(* End to end (UDSClient.request): a genuine responsePending (0x78) keeps the
   exchange open -- what happens next is property C04's subject. *)
IsPending(req, r) == Len(r) = 3 /\ r[1] = NEG /\ r[2] = req[1] /\ r[3] = 120
VerdictE2e(req, raw, r, observed) ==
  IF IsPending(req, r) THEN "ok" ELSE Verdict(req, raw, r, observed)

(* "total mapping response code -> exception class": every accepted negative
   response maps to the exception registered for exactly its code.
   map = the RESPONSE_CODE of the exception produced, -1 if none. *)
VerdictMap(r, observed, map) ==
  IF observed = "Accept" /\ Len(r) >= 3 /\ r[1] = NEG /\ map # r[3]
  THEN "T1/response-code-maps-to-its-exception" ELSE "ok"
=============================================================================
