\* thorough: no mandatory session, ECUReset optional
SPECIFICATION Spec
CONSTANTS
  Cand <- Cand4
  MandSeq <- MandNone
  DscMandatory = TRUE
  FlipReset = TRUE
  Export = FALSE
  Dev_NoBackEdge = FALSE
  Dev_NoAttach = FALSE
  Dev_AttachNoEdge = FALSE
  Dev_DscNotForced = TRUE
INVARIANT TypeOK
INVARIANT Inv_W0
INVARIANT Inv_W1
INVARIANT Inv_W2
INVARIANT Inv_W3
INVARIANT Inv_W4
INVARIANT Inv_Verdict
INVARIANT Inv_LoopGraph
INVARIANT Inv_ClosureAgrees
PROPERTY Terminates
CHECK_DEADLOCK FALSE
