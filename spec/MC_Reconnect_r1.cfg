SPECIFICATION Spec
CONSTANTS
  MaxRetry = 1
  HasTimeout = TRUE
  Retrying = FALSE
  Dev_S15_WaiterNotWoken = FALSE
INVARIANT L3_Recovers
INVARIANT L2_NoFabrication
PROPERTY L1_Ends
CHECK_DEADLOCK FALSE
