--------------------------- MODULE DbLogContract ---------------------------
(* Contract layer of property C11: "every exchange is recorded once, in order
   and byte-exact, in the scan database".  Operators only, written from the
   statement of the property, not from the code.

   An observed run x is a record
     x.exch    sequence of exchanges, in transmission order.  One exchange is one
               call of the ECU client's request function:
         req      Seq(0..255)  the request bytes the transport saw (or, when the
                               call never reached the wire, the bytes it would
                               have sent; <<>> if unknown)
         nw       Nat          number of transmissions of the call (0: never on the wire)
         replies  Seq(Seq(0..255))  the replies the transport delivered to the
                               call, in order (pending/busy replies included)
         out      "ret"    the call returned a response
                  "exc"    the call raised an exception
                  "cancel" the call was cut by the cancellation of the run
                  "cut"    the call was cut by a timeout its own caller put around it
                           (the run goes on): an outcome like any other ("whatever its
                           outcome"), so the row is due; its exception column is free
         st       <<session, level>>  the client's view of the ECU state before
                               the request (level -1: none)
         done     BOOLEAN      the transport handed a final reply (not pending / busy) to
                               the client before the call ended
         impl     "on" | "off" | "amb"  implicit logging during the exchange
                               ("amb": switched while the call was running)
         ana      BOOLEAN      the caller tagged the request ANALYZE
     x.rows    the scan_result rows of this run ordered by id:
         okDecode BOOLEAN      the stored request/reply columns could be decoded
         req, resp  Seq(0..255);  hasResp, hasExc, hasRecv  BOOLEAN (column not NULL)
         st       <<session, level>> decoded from the state column
         mode     the log_mode column
         send, recv  microseconds since the start of the run
     x.closed  BOOLEAN  the handler was closed (connection closed) at the end
     x.aborted BOOLEAN  the run was cancelled or raised
     x.stray   Nat      rows in the file that belong to no run that was executed

   Clauses (one per sentence of the statement):
     B1  every request put on the wire results in exactly one row, in transmission order
     B2  the row holds the exact request bytes, the exact reply bytes or NULL, the
         exception or NULL, send <= receive, the state before the request, and is
         marked implicit / emphasized as requested
     B3  nothing is recorded while implicit logging is switched off
     B4  after the handler is closed -- also when the run was cancelled or failed --
         no completed exchange is missing
   Where the statement is silent every outcome is accepted:
     - a call that never reached the wire, or that was cut by cancellation, may or
       may not have a row; the row of a call that never reached the wire has no
       place in the transmission order (it may stand anywhere);
     - the reply column of a call that raised for another reason than a refused
       (mismatching / malformed) reply may be NULL or any reply delivered to that
       call; the exception column of a cancelled call is free;
     - a reply that was not accepted (call raised) need not have a receive time;
     - when the handler was never closed, rows may be missing (never wrong).  *)
EXTENDS Integers, Sequences, TLC

Last(s) == s[Len(s)]

\* e.done: the transport had handed a final reply to the client before the call ended.  Such an exchange is
\* complete ("no completed exchange is missing") even when the call was cut by the cancellation afterwards.
MustLog(x, e) == x.closed /\ e.impl = "on" /\ e.nw > 0 /\ (e.out # "cancel" \/ e.done)
MayLog(e)     == e.impl # "off"

\* A reply that was received and refused as mismatching / malformed (e.illegal) is still "what the ECU
\* sent": the row holds exactly those bytes.  Other raised calls (timeout, connection error, pending limit)
\* may hold NULL or any reply delivered to the call.
ReplyOk(r, e) ==
  IF e.out = "ret" \/ (e.out = "exc" /\ e.illegal /\ Len(e.replies) > 0)
  THEN r.hasResp /\ Len(e.replies) > 0 /\ r.resp = Last(e.replies)
  ELSE ~r.hasResp \/ \E k \in 1..Len(e.replies) : r.resp = e.replies[k]

ExcOk(r, e) ==
  CASE e.out = "ret" -> ~r.hasExc
    [] e.out = "exc" -> r.hasExc
    [] OTHER         -> TRUE

\* "ok" or <<clause, what>> of the first sentence of B2 the row breaks for exchange e
RowClause(r, e) ==
  IF ~r.okDecode \/ (e.req # <<>> /\ r.req # e.req)  THEN "request-bytes"
  ELSE IF e.nw = 0                                   THEN "ok"
  ELSE IF ~ReplyOk(r, e)                             THEN "reply-bytes"
  ELSE IF ~ExcOk(r, e)                               THEN "exception"
  ELSE IF e.out = "ret" /\ ~r.hasRecv                THEN "receive-time-missing"
  ELSE IF r.hasRecv /\ ~(r.send <= r.recv)           THEN "send<=receive"
  ELSE IF r.st # e.st                                THEN "state-before-request"
  ELSE IF r.mode # (IF e.ana THEN "emphasized" ELSE "implicit") THEN "log-mode"
  ELSE "ok"

OffWire(x) == {k \in 1..Len(x.exch) : x.exch[k].nw = 0}

\* row r can be the row of the off-wire call k (a call that never reached the wire has
\* no place in the transmission order: its row, if any, may stand anywhere)
FreeRow(x, r, k) == MayLog(x.exch[k]) /\ RowClause(r, x.exch[k]) = "ok"

RECURSIVE Can(_, _, _, _)
\* rows i.. can be attributed, in order, to the on-wire exchanges j.. and, freely, to the
\* off-wire calls not in `used`
Can(x, i, j, used) ==
  IF j > Len(x.exch)
  THEN \/ i > Len(x.rows)
       \/ /\ i <= Len(x.rows)
          /\ \E k \in OffWire(x) \ used : FreeRow(x, x.rows[i], k) /\ Can(x, i + 1, j, used \cup {k})
  ELSE LET e == x.exch[j] IN
       \/ (e.nw = 0 \/ ~MustLog(x, e)) /\ Can(x, i, j + 1, used)
       \/ /\ e.nw > 0 /\ MayLog(e) /\ i <= Len(x.rows)
          /\ RowClause(x.rows[i], e) = "ok"
          /\ Can(x, i + 1, j + 1, used)
       \/ /\ i <= Len(x.rows)
          /\ \E k \in OffWire(x) \ used : FreeRow(x, x.rows[i], k) /\ Can(x, i + 1, j, used \cup {k})

RECURSIVE CanOffLogged(_, _, _, _)
\* Diagnosis only (the verdict is Can's): like Can, but a row may also be attributed to an exchange made while
\* implicit logging was switched off.  When this explains the rows and Can does not, what is wrong with the run
\* is that exchanges were recorded while implicit logging was off (B3) -- however many of them.
CanOffLogged(x, i, j, used) ==
  IF j > Len(x.exch)
  THEN \/ i > Len(x.rows)
       \/ /\ i <= Len(x.rows)
          /\ \E k \in OffWire(x) \ used : FreeRow(x, x.rows[i], k) /\ CanOffLogged(x, i + 1, j, used \cup {k})
  ELSE LET e == x.exch[j] IN
       \/ (e.nw = 0 \/ ~MustLog(x, e)) /\ CanOffLogged(x, i, j + 1, used)
       \/ /\ e.nw > 0 /\ i <= Len(x.rows)
          /\ RowClause(x.rows[i], e) = "ok"
          /\ CanOffLogged(x, i + 1, j + 1, used)
       \/ /\ i <= Len(x.rows)
          /\ \E k \in OffWire(x) \ used : FreeRow(x, x.rows[i], k) /\ CanOffLogged(x, i + 1, j, used \cup {k})

Missing(x, j) == IF x.aborted THEN <<"B4", "completed-exchange-missing-after-abort", j>>
                 ELSE <<"B1", "exchange-without-row", j>>

RECURSIVE Diag(_, _, _, _)
\* total diagnosis along a greedy alignment: <<clause, what, index of the exchange (or row)>>
Diag(x, i, j, used) ==
  LET has == i <= Len(x.rows)
      r == x.rows[i]
      free == {k \in OffWire(x) \ used : has /\ FreeRow(x, r, k)}
      kf == CHOOSE k \in free : \A k2 \in free : k <= k2 IN
  IF j > Len(x.exch)
  THEN IF ~has THEN <<"ok", "", 0>>
       ELSE IF free # {} THEN Diag(x, i + 1, j, used \cup {kf})
       ELSE <<"B1", "row-without-exchange", i>>
  ELSE
  LET e == x.exch[j]
      c == IF has THEN RowClause(r, e) ELSE "none" IN
  IF e.nw = 0 THEN Diag(x, i, j + 1, used)
  ELSE IF has /\ MayLog(e) /\ c = "ok" /\ Can(x, i + 1, j + 1, used) THEN Diag(x, i + 1, j + 1, used)
  ELSE IF ~MustLog(x, e) /\ Can(x, i, j + 1, used) THEN Diag(x, i, j + 1, used)
  ELSE IF free # {} /\ Can(x, i + 1, j, used \cup {kf}) THEN Diag(x, i + 1, j, used \cup {kf})
  ELSE IF e.impl = "off" THEN
         IF has /\ r.okDecode /\ r.req = e.req /\ Can(x, i + 1, j + 1, used)
         THEN <<"B3", "recorded-while-implicit-off", j>>
         ELSE IF has /\ RowClause(r, e) = "ok" /\ CanOffLogged(x, i + 1, j + 1, used)
         THEN <<"B3", "recorded-while-implicit-off", j>>
         ELSE Diag(x, i, j + 1, used)
  ELSE IF ~has THEN (IF MustLog(x, e) THEN Missing(x, j) ELSE Diag(x, i, j + 1, used))
  ELSE IF c = "ok" THEN Diag(x, i + 1, j + 1, used)
  ELSE IF r.okDecode /\ r.req = e.req THEN <<"B2", c, j>>
  ELSE IF i > 1 /\ r.req = x.rows[i-1].req /\ r.resp = x.rows[i-1].resp /\ r.send = x.rows[i-1].send
       THEN <<"B1", "duplicate-row", j>>
  ELSE IF /\ \E j2 \in (j+1)..Len(x.exch) : r.req = x.exch[j2].req
          /\ \E i2 \in (i+1)..Len(x.rows) : x.rows[i2].req = e.req
       THEN <<"B1", "transmission-order", j>>
  ELSE IF ~r.okDecode THEN <<"B2", "request-bytes", j>>
  ELSE IF MustLog(x, e) THEN Missing(x, j)
  ELSE Diag(x, i, j + 1, used)

\* Verdict of one observed run: <<"ok","",0>> or the first clause broken.
Verdict(x) ==
  IF x.stray > 0 THEN <<"B1", "row-of-no-run", 0>>
  ELSE IF Can(x, 1, 1, {}) THEN <<"ok", "", 0>>
  ELSE LET d == Diag(x, 1, 1, {}) IN
       IF d[1] = "ok" THEN <<"B1", "rows-not-attributable", 0>> ELSE d
=============================================================================
