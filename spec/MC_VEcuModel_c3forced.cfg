\* intended design: DSC not a mandatory service but always offered by the generator
SPECIFICATION Spec
CONSTANTS
  Cand <- Cand3
  MandSeq <- Mand13
  DscMandatory = FALSE
  FlipReset = TRUE
  Export = FALSE
  Dev_NoBackEdge = FALSE
  Dev_NoAttach = FALSE
  Dev_AttachNoEdge = FALSE
  Dev_DscNotForced = FALSE
INVARIANT TypeOK
INVARIANT Inv_W0
INVARIANT Inv_W1
INVARIANT Inv_W2
INVARIANT Inv_W3
INVARIANT Inv_W4
INVARIANT Inv_Verdict
INVARIANT Inv_LoopGraph
INVARIANT Inv_ClosureAgrees
PROPERTY Terminates
CHECK_DEADLOCK FALSE
