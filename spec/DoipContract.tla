---------------------------- MODULE DoipContract ----------------------------
(* Contract layer of property C06 (DoIP transport), written from the statement.
   A deterministic monitor over the timed, totally ordered event sequence the
   harness records around the real DoIPTransport/DoIPConnection:

     [e |-> "Feed",  t, f]            the gateway's frame f is completely delivered to the client at t
     [e |-> "Out",   t, f]            the client wrote frame f to the TCP stream at t
     [e |-> "Begin", t, op, tmo, d]   the caller starts connect/write/read (tmo = -1: no caller timeout)
     [e |-> "End",   t, op, res, d]   it returns: res \in {"ok","Timeout","ConnErr","Other"}; d = data read
     [e |-> "Closed", t]              the client closed its socket
     [e |-> "Final", t, drained]      end of trace; drained: reads were issued until one timed out

   Frames (records):  k \in {"Ack","Nack","Diag","AliveReq","Unknown","RoutingResp","HeaderNack"}
   for fed frames and {"RoutingReq","Diag","AliveResp","Other"} for written ones; src, dst, code
   (ack/nack/routing response code; activation type for RoutingReq), ver (protocol version of the
   header), d (user data / previous-message data, a sequence of bytes).

   Clauses
     D1  routing activation request carries exactly the configured source address, activation type
         and protocol version; connect succeeds iff the response code is success (0x10)
     D2  reads deliver exactly the user data of Diag(target -> source) frames, in order, unmodified
     D3  frames other than the awaited one are not lost for later reads -- also not by the client giving up the
         connection on its own: a message for us that was completely delivered stays readable unless the
         connection ended for a reason the statement names (a write that failed / is pending) or leaves open
     D4  a write completes iff the gateway acknowledged that message (Nack TargetUnreachable
         tolerated), otherwise fails with a connection error within the acknowledgement time
     D5  every alive-check request is answered within the alive-check time, whatever the client does
   Left open (accepted either way): results of writes once an acknowledgement arrived that no
   write was waiting for (stale ack) or after a generic header NACK; a caller timeout not longer
   than the acknowledgement time surfacing as Timeout.
*)
EXTENDS Naturals, Integers, Sequences, FiniteSets, TLC

\* Deadlines are judged with a tolerance: an event that falls into the last SlackMs before a deadline may be
\* seen or missed (any implementation has processing latency; only the pinned one has none in virtual time).
SlackMs == 150

SuccessCode       == 16   \* 0x10 routing activation successful
TargetUnreachable == 6

M0 == [sent |-> <<>>, ndel |-> 0, alive |-> <<>>, op |-> "none", t0 |-> 0, tmo |-> -1, d |-> <<>>,
       decisive |-> "none", wrote |-> FALSE, unspec |-> FALSE, unspecNext |-> FALSE,
       closedAt |-> -1, rr |-> -1, lastFail |-> [t0 |-> -1, d |-> <<>>, on |-> FALSE], fail |-> "ok",
       \* wfail: a write/connect of the caller has ended in failure; selfClosed: the client closed without cause
       wfail |-> FALSE, selfClosed |-> FALSE,
       \* a read issued by ANOTHER task of the caller and still pending (op "bgread"); at most one
       bg |-> [on |-> FALSE, t0 |-> 0, tmo |-> -1]]

Fail(m, label) == [m EXCEPT !.fail = label]

ForUs(c, f)   == f.src = c.tgt /\ f.dst = c.src
PrevOk(f, d)  == Len(f.d) = 0 \/ (Len(f.d) <= Len(d) /\ f.d = SubSeq(d, 1, Len(f.d)))
AckKind(f)    == IF f.k = "Ack" THEN "pos" ELSE IF f.code = TargetUnreachable THEN "tu" ELSE "bad"

\* the earlier of the acknowledgement deadline and the caller's own deadline
WriteDeadline(c, m) == IF m.tmo # -1 /\ m.tmo < c.ackTime THEN m.t0 + m.tmo ELSE m.t0 + c.ackTime

OnFeed(c, m, t, f) ==
  CASE f.k = "Diag" /\ ForUs(c, f) -> [m EXCEPT !.sent = Append(@, [d |-> f.d, t |-> t])]
    [] f.k = "AliveReq" -> [m EXCEPT !.alive = Append(@, t + c.aliveTime)]
    [] f.k \in {"Ack", "Nack"} /\ ForUs(c, f) ->
         IF m.op = "write" /\ m.decisive = "none" /\ PrevOk(f, m.d)
         THEN [m EXCEPT !.decisive = IF t > WriteDeadline(c, m) - SlackMs THEN "late" ELSE AckKind(f)]
         ELSE IF m.op # "write" /\ m.lastFail.on /\ f.k = "Ack" /\ PrevOk(f, m.lastFail.d)
                 /\ t <= m.lastFail.t0 + c.ackTime - SlackMs /\ m.closedAt = -1
              THEN Fail(m, "D4/write-failed-before-the-acknowledgement-time-although-acknowledged-in-time")
              ELSE [m EXCEPT !.unspecNext = TRUE]   \* an acknowledgement nobody waits for
    [] f.k = "HeaderNack" -> [m EXCEPT !.unspec = TRUE, !.unspecNext = TRUE]
    [] f.k = "RoutingResp" ->
         IF m.op = "connect" /\ m.rr = -1 THEN [m EXCEPT !.rr = f.code] ELSE m
    [] OTHER -> m

OnOut(c, m, t, f) ==
  CASE f.k = "AliveResp" ->
         IF f.src # c.src THEN Fail(m, "D5/alive-response-does-not-carry-the-source-address")
         ELSE IF m.alive = <<>> THEN m
         ELSE IF t > Head(m.alive) THEN Fail(m, "D5/alive-check-answered-late")
         ELSE [m EXCEPT !.alive = Tail(@)]
    [] f.k = "Diag" ->
         IF m.op = "write" /\ ~m.wrote /\ f.src = c.src /\ f.dst = c.tgt /\ f.d = m.d
         THEN [m EXCEPT !.wrote = TRUE]
         ELSE Fail(m, "D4/frame-on-the-wire-is-not-the-written-message")
    [] f.k = "RoutingReq" ->
         IF m.op = "connect" /\ f.src = c.src /\ f.code = c.actType /\ f.ver = c.version
         THEN [m EXCEPT !.wrote = TRUE]
         ELSE Fail(m, "D1/routing-activation-request-fields")
    [] OTHER -> Fail(m, "wire/unexpected-frame-written")

OnBegin(c, m, e) ==
  IF e.op = "bgread" THEN [m EXCEPT !.bg = [on |-> TRUE, t0 |-> e.t, tmo |-> e.tmo]] ELSE
  [m EXCEPT !.op = e.op, !.t0 = e.t, !.tmo = e.tmo, !.d = e.d, !.decisive = "none", !.wrote = FALSE,
            !.unspec = (m.unspec \/ m.unspecNext), !.lastFail = [t0 |-> -1, d |-> <<>>, on |-> FALSE]]

\* a read that started at t0 with caller timeout tmo ends (the foreground read, or the pending background one:
\* D2/D3 do not depend on which task of the caller reads)
EndReadG(c, m, e, t0, tmo) ==
  CASE e.res = "ok" ->
         IF m.ndel < Len(m.sent) /\ e.d = m.sent[m.ndel + 1].d
         THEN [m EXCEPT !.ndel = @ + 1]
         ELSE Fail(m, "D2/read-delivered-something-else-than-the-next-message-for-us")
    [] e.res = "Timeout" ->
         IF m.closedAt = -1 /\ m.ndel < Len(m.sent) /\ m.sent[m.ndel + 1].t < e.t - SlackMs
         THEN Fail(m, "D3/message-for-us-available-but-read-timed-out")
         ELSE IF tmo = -1 \/ e.t < t0 + tmo THEN Fail(m, "read/timeout-before-the-caller-deadline")
         ELSE m
    [] e.res = "ConnErr" ->
         IF m.closedAt = -1 THEN Fail(m, "D2/read-failed-on-an-open-connection")
         ELSE IF m.selfClosed /\ m.ndel < Len(m.sent)
         THEN Fail(m, "D3/message-for-us-lost-the-client-closed-the-connection-without-cause")
         ELSE m
    [] OTHER -> Fail(m, "read/unexpected-exception")

EndRead(c, m, e) == EndReadG(c, m, e, m.t0, m.tmo)

EndWrite(c, m, e) ==
  IF m.unspec \/ (m.closedAt # -1 /\ m.closedAt <= m.t0) THEN
     (IF e.res = "ok" /\ ~m.wrote THEN Fail(m, "D4/write-completed-without-transmission") ELSE m)
  ELSE
  CASE e.res = "ok" ->
         IF ~m.wrote THEN Fail(m, "D4/write-completed-without-transmission")
         ELSE IF m.decisive \in {"pos", "tu", "late"} THEN m
         ELSE Fail(m, "D4/write-completed-without-acknowledgement")
    [] e.res = "ConnErr" ->
         IF m.decisive \in {"pos", "tu"} THEN Fail(m, "D4/write-failed-although-acknowledged")
         ELSE IF m.decisive \in {"bad", "late"} THEN m
         ELSE IF e.t > m.t0 + c.ackTime + SlackMs THEN Fail(m, "D4/connection-error-later-than-the-acknowledgement-time")
         ELSE [m EXCEPT !.lastFail = [t0 |-> m.t0, d |-> m.d, on |-> (m.closedAt = -1 \/ m.closedAt >= e.t)]]
    [] e.res = "Timeout" ->
         IF m.decisive \in {"pos", "tu"} THEN Fail(m, "D4/write-timed-out-although-acknowledged")
         ELSE IF m.tmo # -1 /\ m.tmo <= c.ackTime /\ e.t >= m.t0 + m.tmo THEN m
         ELSE Fail(m, "D4/write-timeout-instead-of-connection-error-within-the-acknowledgement-time")
    [] OTHER -> Fail(m, "write/unexpected-exception")

EndConnect(c, m, e) ==
  CASE e.res = "ok" ->
         IF ~m.wrote THEN Fail(m, "D1/connected-without-routing-activation-request")
         ELSE IF m.rr = SuccessCode THEN m ELSE Fail(m, "D1/usable-without-the-success-code")
    [] e.res \in {"ConnErr", "Timeout"} ->
         IF m.rr = SuccessCode THEN Fail(m, "D1/not-usable-despite-the-success-code")
         ELSE IF m.rr = -1 /\ e.t > m.t0 + c.ackTime THEN Fail(m, "D1/no-response-not-reported-within-the-response-time")
         ELSE m
    [] OTHER -> Fail(m, "connect/unexpected-exception")

OnEnd(c, m, e) ==
  IF e.op = "bgread" THEN [EndReadG(c, m, e, m.bg.t0, m.bg.tmo) EXCEPT !.bg.on = FALSE] ELSE
  LET m1 == CASE e.op = "read" -> EndRead(c, m, e)
              [] e.op = "write" -> EndWrite(c, m, e)
              [] e.op = "connect" -> EndConnect(c, m, e)
              [] OTHER -> m
  IN [m1 EXCEPT !.op = "none", !.wfail = (@ \/ (e.op \in {"write", "connect"} /\ e.res # "ok"))]

\* The client closes its socket.  The statement names one reason for a connection to end: a write that is not
\* acknowledged (fails with a connection error); results after stale acknowledgements / a header NACK are left open.
\* A close while none of these applies (no write or connect pending, none failed before, nothing unspecified) is the
\* client's own doing: whatever was delivered for us before must not be lost by it (judged when a read fails).
OnClosed(c, m, e) ==
  IF m.closedAt # -1 THEN m
  ELSE [m EXCEPT !.closedAt = e.t,
                 !.selfClosed = ~(m.op \in {"write", "connect"} \/ m.wfail \/ m.unspec \/ m.unspecNext)]

OnFinal(c, m, e) ==
  IF \E i \in 1..Len(m.alive) : m.alive[i] <= e.t /\ (m.closedAt = -1 \/ m.closedAt > m.alive[i])
  THEN Fail(m, "D5/alive-check-not-answered-within-the-alive-check-time")
  ELSE IF e.drained /\ m.closedAt = -1 /\ m.ndel < Len(m.sent)
  THEN Fail(m, "D3/message-for-us-lost-for-later-reads")
  ELSE m

\* an alive check overdue at ANY event is already a violation (the client was busy, not closed)
Overdue(c, m, t) == m.alive # <<>> /\ Head(m.alive) < t /\ (m.closedAt = -1 \/ m.closedAt > Head(m.alive))

Step(c, m, e) ==
  IF Overdue(c, m, e.t) THEN Fail(m, "D5/alive-check-not-answered-within-the-alive-check-time")
  ELSE
  CASE e.e = "Feed"   -> OnFeed(c, m, e.t, e.f)
    [] e.e = "Out"    -> OnOut(c, m, e.t, e.f)
    [] e.e = "Begin"  -> OnBegin(c, m, e)
    [] e.e = "End"    -> OnEnd(c, m, e)
    [] e.e = "Closed" -> OnClosed(c, m, e)
    [] e.e = "Final"  -> OnFinal(c, m, e)
    [] OTHER          -> Fail(m, "trace/unknown-event")
=============================================================================
