SPECIFICATION Spec
CONSTANTS
  Sessions <- P3
  Graphs <- Iso3
  Depths <- D12
  Skips <- SmallSkips3
  Thoroughs <- BothModes
  KeepHist = FALSE
  Dev_M1_DepthOffByOne = FALSE
  Dev_M2_RecoverNeverSet = FALSE
  Dev_M3_VisitedWrongElement = FALSE
  Dev_M4_SkipAfterRequest = FALSE
INVARIANT G1_Result
INVARIANT G2_Stacks
INVARIANT G3_Skip
INVARIANT G3_Literal
INVARIANT G4_NoAbort
INVARIANT G4_Bound_Inv
CHECK_DEADLOCK FALSE
