--------------------------- MODULE MC_SeedDump ---------------------------
EXTENDS SeedDump

Cfg(data, check, zk, zkmax, reset, dur, sleep) ==
  [session |-> 2, level |-> 17, data |-> data, check |-> check, zk |-> zk, zkmax |-> zkmax, reset |-> reset,
   dur |-> dur, sleep |-> sleep, retries |-> 0, int |-> -1]

\* a: plain dump, data record, --sleep, --duration (1 minute) / infinite
CfgsA == {Cfg(d, FALSE, -1, 1024, -1, dur, sl) : d \in {<<>>, <<170, 187>>}, dur \in {0, 60000}, sl \in {-1, 25000}}
KindsA == {"pos1", "pos2", "posdrop", "neg", "sil", "mis"}
\* b: zero key, given length / automatic search (ECU key length 2; zkmax 1: search space exhausted)
CfgsB == {Cfg(<<>>, FALSE, zk, zm, -1, 0, sl) : zk \in {0, 2, 3}, zm \in {1, 3}, sl \in {-1, 25000}}
KindsB == {"pos1", "neg"}
KeysB == {"badlen", "invalid", "accept", "sil"}
\* c: --reset (when needed / every 2nd request), --check-session, ECU falling out of the session
CfgsC == {Cfg(<<>>, ck, -1, 1024, rs, 0, -1) : ck \in BOOLEAN, rs \in {-1, 0, 2}}
KindsC == {"pos1", "posdrop", "neg", "sil"}
\* d: everything together, short
CfgsD == {Cfg(<<1>>, TRUE, 0, 3, 2, 60000, 25000), Cfg(<<>>, TRUE, 2, 3, 0, 60000, 25000)}
KindsD == {"pos2", "posdrop", "neg", "sil"}
KeysD == {"badlen", "invalid", "sil"}
\* duration only (long enough to run past duration + slack)
CfgsT == {Cfg(<<>>, FALSE, -1, 1024, -1, 60000, -1)}
KindsT == {"pos1", "neg"}
\* s: simulation (spec -> code): every option, every environment choice
CfgsS == {Cfg(d, ck, zk, 3, rs, dur, sl) : d \in {<<>>, <<170>>}, ck \in BOOLEAN, zk \in {-1, 0, 2}, rs \in {-1, 0, 2},
                                            dur \in {0, 60000}, sl \in {-1, 25000}}
KindsS == {"pos1", "pos2", "posdrop", "neg", "sil", "mis"}
KeysS == {"badlen", "invalid", "accept", "sil"}
\* v: action coverage (every action of the design is taken)
CfgsV == {Cfg(<<1>>, TRUE, 0, 3, 2, 0, 25000), Cfg(<<>>, TRUE, 2, 3, 0, 60000, -1)}
NoKeys == {}
IntSome == {"Write", "Sleep", "Seed", "Key"}
IntNone == {}
=============================================================================
