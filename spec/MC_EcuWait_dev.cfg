SPECIFICATION Spec
CONSTANTS
  Slots = 6
  HasTimeout = TRUE
  Dev_NoReconnect = TRUE
INVARIANT ContractHolds
PROPERTY Terminates
CHECK_DEADLOCK FALSE
