--------------------------- MODULE HsfzDiscover ---------------------------
(* Growth item X12 part 1, design layer: the HSFZ discovery scanner (src/gallia/commands/discover/hsfz.py) shaped
   like the code: main() walks the address range, probe() opens a fresh HSFZ connection per address, _probe() writes
   the request (waits for the HSFZ Ack), then reads until nothing arrives any more, probe() closes the connection.
   One action per await point.  Environment: every assignment of a gateway behaviour to every swept address (beh) and
   the --reversed flag (rev).  Time is abstracted by what arrives before the respective timeout expires.

   Deviation constants (negative controls; all FALSE = the design that satisfies the contract):
     Dev_S1_ReversedRangeEmpty           with --reversed the address generator is empty (range(stop + 1, start))
     Dev_S2_DropAfterAnswerLosesResult   a connection error while draining the receive queue discards the answer
                                         that was already received for this address
     Dev_S3_OddAnswerAborts              a frame that is no response to the payload raises out of main()          *)
EXTENDS HsfzDiscoverContract, TLC

CONSTANTS Addrs, BehNames, Export,
          Dev_S1_ReversedRangeEmpty, Dev_S2_DropAfterAnswerLosesResult, Dev_S3_OddAnswerAborts

Tester  == 244      \* 0xF4
Far     == 119      \* 0x77: an ECU outside the swept range
Timeout == 500
Req     == <<16, 1>>
PosD    == <<80, 1, 0, 50, 1, 244>>
NegD    == <<127, 16, 17>>
OddD    == <<98, 241, 144, 65>>
MinA == CHOOSE a \in Addrs : \A b \in Addrs : a <= b
MaxA == CHOOSE a \in Addrs : \A b \in Addrs : a >= b

A(k, dl) == [k |-> k, delay |-> dl]
\* gateway behaviour per address (same names as harness/x12_gw.py BEHAVIOURS; delays in ms, answers relative to the ack)
B(n) ==
  CASE n = "silent"    -> [ack |-> "none", ackdt |-> 0,   ans |-> <<>>,                          after |-> "keep"]
    [] n = "ackonly"   -> [ack |-> "ack",  ackdt |-> 0,   ans |-> <<>>,                          after |-> "keep"]
    [] n = "pos"       -> [ack |-> "ack",  ackdt |-> 0,   ans |-> <<A("pos", 0)>>,               after |-> "keep"]
    [] n = "neg"       -> [ack |-> "ack",  ackdt |-> 0,   ans |-> <<A("neg", 0)>>,               after |-> "keep"]
    [] n = "pos300"    -> [ack |-> "ack",  ackdt |-> 0,   ans |-> <<A("pos", 300)>>,             after |-> "keep"]
    [] n = "pos800"    -> [ack |-> "ack",  ackdt |-> 0,   ans |-> <<A("pos", 800)>>,             after |-> "keep"]
    [] n = "ack300pos" -> [ack |-> "ack",  ackdt |-> 300, ans |-> <<A("pos", 0)>>,               after |-> "keep"]
    [] n = "lateack"   -> [ack |-> "ack",  ackdt |-> 800, ans |-> <<A("pos", 0)>>,               after |-> "keep"]
    [] n = "err43"     -> [ack |-> "err",  ackdt |-> 0,   ans |-> <<>>,                          after |-> "keep"]
    [] n = "ackerr43"  -> [ack |-> "ack",  ackdt |-> 0,   ans |-> <<A("err", 0)>>,               after |-> "keep"]
    [] n = "close"     -> [ack |-> "none", ackdt |-> 0,   ans |-> <<>>,                          after |-> "close"]
    [] n = "ack_close" -> [ack |-> "ack",  ackdt |-> 0,   ans |-> <<>>,                          after |-> "close"]
    [] n = "pos_close" -> [ack |-> "ack",  ackdt |-> 0,   ans |-> <<A("pos", 0)>>,               after |-> "close"]
    [] n = "neg_close" -> [ack |-> "ack",  ackdt |-> 0,   ans |-> <<A("neg", 0)>>,               after |-> "close"]
    [] n = "pos_err"   -> [ack |-> "ack",  ackdt |-> 0,   ans |-> <<A("pos", 0), A("err", 0)>>,  after |-> "keep"]
    [] n = "pospos"    -> [ack |-> "ack",  ackdt |-> 0,   ans |-> <<A("pos", 0), A("pos", 0)>>,  after |-> "keep"]
    [] n = "odd"       -> [ack |-> "ack",  ackdt |-> 0,   ans |-> <<A("odd", 0)>>,               after |-> "keep"]
    [] n = "odd_pos"   -> [ack |-> "ack",  ackdt |-> 0,   ans |-> <<A("odd", 0), A("pos", 0)>>,  after |-> "keep"]
    [] n = "far"       -> [ack |-> "ack",  ackdt |-> 0,   ans |-> <<A("far", 0)>>,               after |-> "keep"]
    [] n = "far_pos"   -> [ack |-> "ack",  ackdt |-> 0,   ans |-> <<A("far", 0), A("pos", 0)>>,  after |-> "keep"]

VARIABLES
  beh,      \* environment: behaviour of every swept address
  rev,      \* environment: --reversed
  todo,     \* addresses main() still has to probe (the generator)
  pc,       \* "pick" | "connect" | "write" | "ackwait" | "read" | "close" | "report" | "done" | "aborted"
  cur,      \* address being probed
  result,   \* _probe(): an answer has been received
  inbox,    \* what the scanner will see on the current connection before the respective timeout, in order
  probes,   \* gateway-side ground truth (shape of the contract's observation)
  found,    \* main(): found
  repFile, repDb
vars == <<beh, rev, todo, pc, cur, result, inbox, probes, found, repFile, repDb>>

RECURSIVE Asc(_, _), Desc(_, _)
Asc(a, b)  == IF a > b THEN <<>> ELSE <<a>> \o Asc(a + 1, b)
Desc(a, b) == IF a > b THEN <<>> ELSE <<b>> \o Desc(a, b - 1)

Init ==
  /\ beh \in [Addrs -> BehNames] /\ rev \in BOOLEAN
  /\ todo = IF rev THEN (IF Dev_S1_ReversedRangeEmpty THEN <<>> ELSE Desc(MinA, MaxA)) ELSE Asc(MinA, MaxA)
  /\ pc = "pick" /\ cur = 0 /\ result = FALSE /\ inbox = <<>> /\ probes = <<>> /\ found = {}
  /\ repFile = {} /\ repDb = {}

\* for dst_addr in gen
Pick ==
  /\ pc = "pick"
  /\ IF todo = <<>> THEN pc' = "report" /\ UNCHANGED <<cur, todo>>
     ELSE pc' = "connect" /\ cur' = Head(todo) /\ todo' = Tail(todo)
  /\ UNCHANGED <<beh, rev, result, inbox, probes, found, repFile, repDb>>

\* HSFZConnection.connect: a fresh connection for every address
Connect ==
  /\ pc = "connect" /\ pc' = "write" /\ result' = FALSE /\ inbox' = <<>>
  /\ UNCHANGED <<beh, rev, todo, cur, probes, found, repFile, repDb>>

\* conn.write_diag_request: the request reaches the gateway, which reacts as its behaviour says
AnsData(k)  == CASE k = "neg" -> NegD [] k = "odd" -> OddD [] OTHER -> PosD
IsData(k)   == k \in {"pos", "neg", "odd", "far"}
SeqMap(s, M(_))    == [i \in 1..Len(s) |-> M(s[i])]
Write ==
  /\ pc = "write" /\ pc' = "ackwait"
  /\ LET b     == B(beh[cur])
         ackOk == b.ack = "ack" /\ b.ackdt < Timeout
         InTime(x) == ackOk /\ x.delay < Timeout
         datas == SelectSeq(b.ans, LAMBDA x : IsData(x.k))
         rec   == [src |-> Tester, dst |-> cur, d |-> Req, ack |-> (b.ack = "ack"), ackdt |-> b.ackdt,
                   anss |-> SeqMap(datas, LAMBDA x : [a |-> IF x.k = "far" THEN Far ELSE cur, to |-> Tester,
                                                       d |-> AnsData(x.k), dt |-> b.ackdt + x.delay,
                                                       dl |-> InTime(x)])]
         head  == IF ackOk THEN <<"ack">> ELSE IF b.ack = "err" THEN <<"err">> ELSE <<>>
         body  == IF ackOk THEN SeqMap(SelectSeq(b.ans, InTime), LAMBDA x : x.k) ELSE <<>>
         tail  == IF b.after = "close" THEN <<"eof">> ELSE <<>>
     IN /\ probes' = Append(probes, rec)
        /\ inbox'  = head \o body \o tail
  /\ UNCHANGED <<beh, rev, todo, cur, result, found, repFile, repDb>>

\* the Ack wait inside write_diag_request ends: Ack, or error control word / connection lost / timeout
AckWait ==
  /\ pc = "ackwait"
  /\ IF inbox # <<>> /\ Head(inbox) = "ack"
     THEN pc' = "read" /\ inbox' = Tail(inbox)
     ELSE pc' = "close" /\ UNCHANGED inbox
  /\ UNCHANGED <<beh, rev, todo, cur, result, probes, found, repFile, repDb>>

\* one conn.read_diag_request() of the drain loop
Read ==
  /\ pc = "read"
  /\ IF inbox = <<>>
     THEN pc' = "close" /\ UNCHANGED <<result, inbox>>                                  \* TimeoutError: return result
     ELSE LET h == Head(inbox) IN
          CASE h \in {"pos", "neg"} -> pc' = "read" /\ result' = TRUE /\ inbox' = Tail(inbox)
            [] h = "far"            -> pc' = "read" /\ inbox' = Tail(inbox) /\ UNCHANGED result   \* other address pair: skipped
            [] h = "odd"            -> IF Dev_S3_OddAnswerAborts
                                       THEN pc' = "aborted" /\ UNCHANGED <<result, inbox>>
                                       ELSE pc' = "read" /\ inbox' = Tail(inbox) /\ UNCHANGED result
            [] OTHER                -> /\ pc' = "close" /\ UNCHANGED inbox                        \* "err", "eof"
                                       /\ result' = IF Dev_S2_DropAfterAnswerLosesResult THEN FALSE ELSE result
  /\ UNCHANGED <<beh, rev, todo, cur, probes, found, repFile, repDb>>

\* finally: await conn.close(); if result: found.append(target)
Close ==
  /\ pc = "close" /\ pc' = "pick"
  /\ found' = IF result THEN found \cup {cur} ELSE found
  /\ UNCHANGED <<beh, rev, todo, cur, result, inbox, probes, repFile, repDb>>

\* "Found N targets", ECUs.txt, database
Report ==
  /\ pc = "report" /\ pc' = "done"
  /\ repFile' = found /\ repDb' = found
  /\ Export => PrintT(<<"C", beh, rev, found>>)
  /\ UNCHANGED <<beh, rev, todo, cur, result, inbox, probes, found>>

Next == Pick \/ Connect \/ Write \/ AckWait \/ Read \/ Close \/ Report
Spec == Init /\ [][Next]_vars

Obs ==
  [cfg |-> [host |-> "gw", port |-> 6801, tester |-> Tester, start |-> MinA, stop |-> MaxA, reversed |-> rev,
            timeout |-> Timeout],
   probes |-> probes, repFile |-> repFile, repDb |-> repDb, uris |-> {},
   done |-> CASE pc = "done" -> "ok" [] pc = "aborted" -> "exc" [] OTHER -> "running"]

Done == pc = "done"
\* the contract, clause by clause
Inv_P1_EveryAddressProbed == Done => P1_EveryAddressProbed(Obs)
Inv_P2_OnlyConfigured     == P2_OnlyConfiguredRequests(Obs)
Inv_P3_Order              == P3_Order(Obs)
Inv_F1_FoundSound         == F1_FoundSound(Obs)
Inv_F2_FoundComplete      == Done => F2_FoundComplete(Obs)
Inv_Verdict               == Done => Verdict(Obs) = "ok"
\* T0: the scan always reaches its end: it never aborts and no state short of the end lacks a successor
Inv_T0_NoAbort            == pc # "aborted"
Inv_T0_Progress           == pc # "done" => ENABLED Next
=============================================================================
