--------------------------- MODULE MC_UdsRequest ---------------------------
(* Model-checking wrapper: small limits so that every script crossing the
   pending and silence limits is enumerated exhaustively. *)
EXTENDS UdsRequest
LimMC == [pendTol |-> 2, pendEnd |-> 5, silTol |-> 1000, silEnd |-> 3000]
\* the code's constants: 120 pendings, 40 polls of 500 ms (timeout <= 20 s)
LimReal == [pendTol |-> 10, pendEnd |-> 1000, silTol |-> 2000, silEnd |-> 200000]
=============================================================================
