--------------------------- MODULE Trace_VEcu ---------------------------
(* Code -> spec: validates recorded exchanges of the real virtual ECU
   (UDSServerTransport.handle_request / TCPUDSServerTransport.handle_client /
   UDSClient.request against it) with the contract layer VEcuContract.

   Batch file (JSON, IOEnv.TRACE_FILE):
     models : [ {sess: [s...], svcs: [[{sid, sf, subs: [..]} ...] per session]} ... ]
     traces : [ {id, m (1-based model index), B: [enabled switch names], mode: "E" | "A",
                 indep (TRUE: every step starts in `init`, the steps are alternatives, not a history),
                 init: {s, l}, steps: [ {q: first request bytes, n, p,
                                         pk, pn, pb   reply before suppression ("bytes" | "none" | "unknown"),
                                         vk, vn, vb   reply sent ("bytes" | "none"),
                                         x  exception class or "",  s, l  state after,
                                         a  client verdict,  al  connection loop alive,
                                         g  (optional) seconds since the previous request,
                                         t  (optional, with the trace field m2) the twin's exchange} ... ]} ... ]
   mode "E": clauses E1..E4 of C13;  mode "A": clauses A1..A3 of C14.
   One initial state per trace; the verdict is total: "ok" or the label of the
   first clause broken, plus the set of ALL failing <<step, label>> pairs and
   the number of steps whose verdict relied on an unspecified choice. *)
EXTENDS VEcuContract, Json, IOUtils

Batch == JsonDeserialize(IOEnv.TRACE_FILE)
T == Batch.traces

SeqSet(s) == {s[i] : i \in 1..Len(s)}
MkModel(m) ==
  [s \in SeqSet(m.sess) |->
     LET row == m.svcs[CHOOSE i \in 1..Len(m.sess) : m.sess[i] = s] IN
     [sid \in {row[j].sid : j \in 1..Len(row)} |->
        LET e == row[CHOOSE j \in 1..Len(row) : row[j].sid = sid] IN
        [sf |-> e.sf, subs |-> SeqSet(e.subs)]]]
Views == [i \in 1..Len(Batch.models) |-> View(MkModel(Batch.models[i]))]

VARIABLES tid, verdict
tvars == <<tid, verdict>>

Rep(k, n, b) == [k |-> k, n |-> n, b |-> b]
StateOf(e)   == [session |-> e.s, level |-> e.l]
Before(t, i) == IF i = 1 \/ t.indep THEN StateOf(t.init) ELSE StateOf(t.steps[i - 1])
X(e) == [q |-> [b |-> e.q, n |-> e.n, p |-> e.p],
         pre |-> Rep(e.pk, e.pn, e.pb), vis |-> Rep(e.vk, e.vn, e.vb),
         raised |-> e.x, after |-> StateOf(e), acc |-> e.a, alive |-> e.al]

\* optional step field g: whole seconds of the server's clock between the previous request and this one, during
\* which tester connections may have come and gone (histories over several connections); steps without it are
\* judged as before
SV0(t, i) ==
  IF t.mode = "E"
  THEN IF "g" \in DOMAIN t.steps[i]
       THEN StepVerdictEG(Views[t.m], SeqSet(t.B), Before(t, i), t.steps[i].g, X(t.steps[i]))
       ELSE StepVerdictE(Views[t.m], SeqSet(t.B), Before(t, i), X(t.steps[i]))
  ELSE StepVerdictA(Views[t.m], Before(t, i), X(t.steps[i]))

\* optional trace field m2 + step field t ([E4-only-that-rule]): the exchange of the twin -- the same virtual ECU
\* (seed, parameters, switches, history) whose model m2 offers the service and sub-function in the active session --
\* for the same request: {q, n, p, pk, pn, pb, vk, vn, vb, x, s, l  as in a step;  bs, bl  the twin's state before}.
\* A step that passes E1..E3 is then also held against its twin.
Y(e) == [q |-> [b |-> e.q, n |-> e.n, p |-> e.p], before |-> [session |-> e.bs, level |-> e.bl],
         pre |-> Rep(e.pk, e.pn, e.pb), vis |-> Rep(e.vk, e.vn, e.vb), raised |-> e.x, after |-> StateOf(e)]
HasTwin(t, i) == t.mode = "E" /\ "m2" \in DOMAIN t /\ "t" \in DOMAIN t.steps[i]
SV(t, i) ==
  LET base == SV0(t, i) IN
  IF base = "ok" /\ HasTwin(t, i)
  THEN StepVerdictE4T(Views[t.m], Views[t.m2], SeqSet(t.B), Before(t, i), X(t.steps[i]), Y(t.steps[i].t))
  ELSE base
\* how many steps of the trace were really compared with their twin (guards the family against vacuity)
TwinCount(t) ==
  Cardinality({i \in 1..Len(t.steps) :
                 /\ HasTwin(t, i)
                 /\ TwinJudged(Views[t.m], Views[t.m2], SeqSet(t.B), Before(t, i), X(t.steps[i]), Y(t.steps[i].t))})

Min(S) == CHOOSE x \in S : \A y \in S : x <= y
Result(t) ==
  LET bad == {i \in 1..Len(t.steps) : SV(t, i) # "ok"}
      uns == IF t.mode = "E"
             THEN Cardinality({i \in 1..Len(t.steps) :
                               Unspecified(Views[t.m], SeqSet(t.B), Before(t, i), X(t.steps[i]))})
             ELSE 0
  IN <<IF bad = {} THEN "ok" ELSE SV(t, Min(bad)), {<<i, SV(t, i)>> : i \in bad}, uns>>

TInit == tid \in 1..Len(T) /\ verdict = "?"
TNext == /\ verdict = "?"
         /\ LET r == Result(T[tid]) IN
            /\ verdict' = r[1]
            /\ PrintT(<<"V", T[tid].id, r[1], r[2], r[3]>>)
            /\ IF "m2" \in DOMAIN T[tid] THEN PrintT(<<"W", T[tid].id, TwinCount(T[tid])>>) ELSE TRUE
         /\ tid' = tid
TSpec == TInit /\ [][TNext]_tvars
=============================================================================
