SPECIFICATION Spec
CONSTANTS
  Clients = {1, 2}
  MaxReq = 2
  MaxLen = 6
  Dev_AsFound = FALSE
INVARIANT ContractHolds
INVARIANT StopEnds
INVARIANT Export
PROPERTY Eventually
CHECK_DEADLOCK FALSE
