SPECIFICATION Spec
CONSTANTS
  MaxLen = 3
  Prios <- MCPrios
  Thresholds <- MCThresholds2
  MaxN = 4
  MaxOps = 2
  Dev_S24_OffsetsFromCurrentPos = TRUE
  Dev_S25_ReverseWraps = TRUE
  Dev_S26_TailBeyondLen = TRUE
  Dev_S26_EmptyLogUnreadable = TRUE
INVARIANT TypeOK
PROPERTY Terminates
CHECK_DEADLOCK FALSE
