SPECIFICATION Spec
CONSTANTS
  MaxLen = 4
  Prios <- MCPrios
  Thresholds <- MCThresholds
  MaxN = 6
  MaxOps = 3
  Dev_S24_OffsetsFromCurrentPos = TRUE
  Dev_S25_ReverseWraps = TRUE
  Dev_S26_TailBeyondLen = TRUE
  Dev_S26_EmptyLogUnreadable = TRUE
INVARIANT TypeOK
CHECK_DEADLOCK FALSE
