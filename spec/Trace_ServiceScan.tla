------------------------- MODULE Trace_ServiceScan -------------------------
(* Code -> spec: validates recorded executions of the real ServicesScanner against the
   contract layer (clauses V1..V5 of C10).  One initial state per recorded execution;
   the verdict is total ("ok" or the label of the first clause broken). *)
EXTENDS ServiceScanContract, Json, IOUtils

Batch == JsonDeserialize(IOEnv.TRACE_FILE)
T == Batch.traces

VARIABLES tid, verdict
tvars == <<tid, verdict>>

Decode(code) == << code % 8, (code \div 8) % 8, (code \div 64) % 8, (code \div 512) % 8 >>
Impl(code)   == (code \div 4096) % 2 = 1

CfgOf(x) ==
  [has |-> x.C.has, req |-> ToSet(x.C.req), skipAll |-> ToSet(x.C.skipAll), skip |-> ToSet(x.C.skip),
   respIds |-> x.C.respIds, tp |-> x.C.tp, start |-> x.C.start, U |-> 0..255,
   reset |-> IF "reset" \in DOMAIN x.C THEN x.C.reset ELSE 0]

EcuOf(x) ==
  LET tabs == ToSet(x.tab)
      dom  == {t[1] : t \in tabs}
      Row(s) == (CHOOSE t \in tabs : t[1] = s)[2]
  IN [pl   |-> x.pl,
      dom  |-> dom,
      ans  |-> [k \in dom \X (0..255) |-> Decode(Row(k[1])[k[2] + 1])],
      impl |-> [k \in dom \X (0..255) |-> Impl(Row(k[1])[k[2] + 1])]]

FullVerdict(x) ==
  IF x.done = "hang" THEN "V0/scan-does-not-terminate"
  ELSE Verdict(CfgOf(x), EcuOf(x), x.ev, ToSet(x.result))

TInit == tid \in 1..Len(T) /\ verdict = "?"
TNext == /\ verdict = "?"
         /\ verdict' = FullVerdict(T[tid])
         /\ tid' = tid
         /\ PrintT(<<"V", T[tid].id, verdict'>>)
         /\ PrintT(<<"U", T[tid].id, Unspecified(CfgOf(T[tid]), EcuOf(T[tid]), T[tid].ev)>>)
TSpec == TInit /\ [][TNext]_tvars
=============================================================================
