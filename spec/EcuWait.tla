------------------------------- MODULE EcuWait -------------------------------
(* Design layer of X04: the ping loop of ECU._wait_for_ecu_endless_loop under asyncio.wait_for, time in 500 ms
   slots (sleep 0.5 s, ping with timeout 0.5 s).  The environment decides per ping: answer / silent / connerr. *)
EXTENDS EcuWaitContract
CONSTANTS Slots, HasTimeout, Dev_NoReconnect
VARIABLES now, pc, mon, budget
vars == <<now, pc, mon, budget>>
Tmo == IF HasTimeout THEN Slots * 500 ELSE -1
Init == /\ now = 0 /\ pc = "sleep" /\ budget = Slots + 2
        /\ mon = Step(M0, [e |-> "Start", t |-> 0, tmo |-> Tmo, tp |-> FALSE])
Expired == HasTimeout /\ now >= Tmo
Sleep == /\ pc = "sleep" /\ ~Expired /\ now' = now + 500 /\ pc' = "ping" /\ UNCHANGED <<mon, budget>>
Ping(out) ==
  /\ pc = "ping" /\ ~Expired /\ budget > 0 /\ (~HasTimeout /\ budget = 1 => out = "answer")
  /\ budget' = budget - 1
  /\ mon' = Step(mon, [e |-> "Ping", t |-> now, task |-> "waiter", out |-> out])
  /\ IF out = "answer" THEN pc' = "retT" /\ UNCHANGED now
     ELSE IF out = "silent" THEN pc' = "sleep" /\ now' = now + 500
     ELSE pc' = (IF Dev_NoReconnect THEN "sleep" ELSE "rc") /\ UNCHANGED now
Reconnect == /\ pc = "rc" /\ mon' = Step(mon, [e |-> "RC", t |-> now, task |-> "waiter"]) /\ pc' = "sleep"
             /\ UNCHANGED <<now, budget>>
RetTrue == /\ pc = "retT" /\ mon' = Step(mon, [e |-> "Ret", t |-> now, val |-> "True"]) /\ pc' = "done"
           /\ UNCHANGED <<now, budget>>
RetFalse == /\ pc \in {"sleep", "ping", "rc"} /\ Expired
            /\ mon' = Step(mon, [e |-> "Ret", t |-> Tmo, val |-> "False"]) /\ pc' = "done" /\ UNCHANGED <<now, budget>>
Next == Sleep \/ (\E o \in {"answer", "silent", "connerr"} : Ping(o)) \/ Reconnect \/ RetTrue \/ RetFalse
Spec == Init /\ [][Next]_vars /\ WF_vars(Next)
ContractHolds == mon.fail = "ok"
Terminates == <>(pc = "done")
=============================================================================
