----------------------------- MODULE XcpCodec -----------------------------
(* DESIGN LAYER, part 1 (no variables): the response decoders of gallia.services.xcp.types, shaped like the
   `construct` definitions the client parses with -- a Struct is read front to back with a cursor, a BitStruct is
   a list of (name, width) read from the MOST significant bit, Padding has no name, the 16/32 bit integers are
   IfThenElse(this._.byteOrder == INTEL, little, big).  The field lists below are transcribed from types.py.

   TLC checks (MC_XcpCodec) that, for every byte value at every bit-field position and every byte pair in both
   byte orders, this cursor/list reading yields exactly the fields XcpContract states by position.

   Deviation constants (negative controls):
     Dev_LsbFirst         BitStruct lists read from the least significant bit
     Dev_IgnoreByteOrder  words/dwords always little endian
     Dev_PartialNoStrip   decoders applied to the packet INCLUDING the 0xFF identifier (off by one)          *)
EXTENDS XcpContract

CONSTANTS Dev_LsbFirst, Dev_IgnoreByteOrder, Dev_PartialNoStrip

RECURSIVE WidthUpTo(_, _)
WidthUpTo(fields, i) == IF i = 0 THEN 0 ELSE fields[i][2] + WidthUpTo(fields, i - 1)

\* value of the i-th entry of a BitStruct list in byte b
BSVal(fields, i, b) ==
  LET lo == IF Dev_LsbFirst THEN WidthUpTo(fields, i - 1) ELSE 8 - WidthUpTo(fields, i)
  IN  Field(b, lo, fields[i][2])

BitStruct(fields, pfx, b) ==
  LET named == {i \in DOMAIN fields : fields[i][1] # ""} IN
  [n \in {pfx \o fields[i][1] : i \in named} |->
     BSVal(fields, CHOOSE i \in named : pfx \o fields[i][1] = n, b)]

Pad(w) == <<"", w>>
ResourceTypeBS     == <<Pad(2), <<"dbg", 1>>, <<"pgm", 1>>, <<"stim", 1>>, <<"daq", 1>>, Pad(1), <<"calpag", 1>>>>
CommModeBasicBS    == <<<<"optional", 1>>, <<"slaveBlockMode", 1>>, Pad(3), <<"addressGranularity", 2>>, <<"byteOrder", 1>>>>
SessionStatusBS    == <<<<"resume", 1>>, <<"daqRunning", 1>>, Pad(2), <<"clearDaqRequest", 1>>, <<"storeDaqRequest", 1>>,
                        Pad(1), <<"storeCalRequest", 1>>>>
CommModeOptionalBS == <<Pad(6), <<"interleavedMode", 1>>, <<"masterBlockMode", 1>>>>

Int16u(bo, p, i) == IF bo = "INTEL" \/ Dev_IgnoreByteOrder THEN p[i] + 256 * p[i+1] ELSE 256 * p[i] + p[i+1]
Int32uMsb(bo, p, i) == IF bo = "INTEL" \/ Dev_IgnoreByteOrder THEN <<p[i+3], p[i+2], p[i+1], p[i]>>
                       ELSE <<p[i], p[i+1], p[i+2], p[i+3]>>
Num32(w) == IF w[1] = 0 /\ w[2] = 0 THEN 256 * w[3] + w[4] ELSE Huge

\* what the client hands to the decoders: `resp[1:]`
Strip(resp) == IF Dev_PartialNoStrip THEN resp ELSE Tail(resp)

StreamError == [err |-> "StreamError"]
IsErr(x)    == "err" \in DOMAIN x

\* ConnectResponsePartial: resource, commModeBasic
DConnectPartialBo(p) ==
  IF Len(p) < 2 THEN "none"
  ELSE IF BitStruct(CommModeBasicBS, "comm_", p[2])["comm_byteOrder"] = 0 THEN "INTEL" ELSE "MOTOROLA"

\* ConnectResponse: resource, commModeBasic, maxCto Int8ul, maxDto Int16u, protocolLayerVersion, transportLayerVersion
DConnect(bo, p) ==
  IF Len(p) < 7 THEN StreamError
  ELSE BitStruct(ResourceTypeBS, "resource_", p[1]) @@ BitStruct(CommModeBasicBS, "comm_", p[2]) @@
       [maxCto |-> p[3], maxDto |-> Int16u(bo, p, 4), protocolLayerVersion |-> p[6], transportLayerVersion |-> p[7]]

\* GetStatusResponse: sessionStatus, resourceProtectionStatus, Padding(1), sessionConfiguration Int16u
DStatus(bo, p) ==
  IF Len(p) < 5 THEN StreamError
  ELSE BitStruct(SessionStatusBS, "status_", p[1]) @@ BitStruct(ResourceTypeBS, "protection_", p[2]) @@
       [sessionConfiguration |-> Int16u(bo, p, 4)]

\* GetCommModeInfoResponse: Padding(1), commModeOptional, Padding(1), maxBs, minSt, queueSize, xcpDriverVersionNumber
DCommMode(p) ==
  IF Len(p) < 7 THEN StreamError
  ELSE BitStruct(CommModeOptionalBS, "optional_", p[2]) @@
       [maxBs |-> p[4], minSt |-> p[5], queueSize |-> p[6], xcpDriverVersionNumber |-> p[7]]

\* GetIDResponse: mode Int8ul, Padding(2), length Int32u, identification If(mode == 1, Int8ul[length])
DGetId(bo, p) ==
  IF Len(p) < 7 THEN StreamError
  ELSE LET len == Int32uMsb(bo, p, 4) IN
       IF p[1] = 1 /\ Len(p) < 7 + Num32(len) THEN StreamError
       ELSE [mode |-> p[1], length |-> len] @@
            (IF p[1] = 1 THEN ("identification" :> SubSeq(p, 8, 7 + Num32(len))) ELSE NoFields)

DRaw(p) == ("data" :> p)

Decode(m, bo, resp) ==
  LET p == Strip(resp) IN
  CASE m = "connect"            -> DConnect(DConnectPartialBo(p), p)
    [] m = "get_status"         -> DStatus(bo, p)
    [] m = "get_comm_mode_info" -> DCommMode(p)
    [] m = "get_id"             -> DGetId(bo, p)
    [] OTHER                    -> DRaw(p)
=============================================================================
