---------------------------- MODULE MC_Framing ----------------------------
(* Stand-alone check of Framing: for every stream over a small alphabet and
   every interleaving of Deliver(k) (every segmentation / coalescing) with
   ReadFrame, the frames read so far followed by the reference parse of what is
   still buffered or in flight is the reference parse of the whole stream.
   Three rules: newline-terminated lines, 1-byte length prefix, and -- negative
   control -- "a frame is whatever has arrived" (read(n) instead of readline). *)
EXTENDS Framing, TLC

CONSTANTS Alphabet, MaxLen

VARIABLES frames, whole
mcvars == <<stream, buf, frames, whole>>

NL == 10
MCLineRule(b)   == LineLen(b, NL)
BodyLen(hdr)    == hdr[1]
MCPrefixRule(b) == ExactLen(b, 1, BodyLen)
MCGreedyRule(b) == Len(b)                  \* not prefix-stable

Streams == UNION {[1..n -> Alphabet] : n \in 0..MaxLen}

Init == /\ whole \in Streams /\ stream = whole /\ buf = <<>> /\ frames = <<>>

Next == \/ \E k \in 1..Len(stream) : Deliver(k) /\ UNCHANGED <<frames, whole>>
        \/ FrameReady /\ frames' = Append(frames, Frame) /\ ReadFrame /\ UNCHANGED whole

Spec == Init /\ [][Next]_mcvars /\ WF_mcvars(Next)

Independent == /\ frames \o Frames(buf \o stream) = Frames(whole)
               /\ Residue(buf \o stream) = Residue(whole)
Stable      == PrefixStable
\* the reader never gets stuck before the reference parse is exhausted
Complete    == <>(frames = Frames(whole) /\ buf = Residue(whole) /\ stream = <<>>)
=============================================================================
