"""X11 helpers: scripted ECU models and drivers for the high-level flows of the REAL gallia ECU class.

  set      ECU.set_session(level, config, use_db)      real DBHandler (aiosqlite, temp file) => NORMAL asyncio loop;
                                                        DBHandler.get_session_transition is observed by wrapping
                                                        the bound method of the real handler in the harness process
  leave    ECU.leave_session(level, config, sleep)     ScriptedTransport, virtual time, optional real PowerSupply
                                                        object on a recording driver
  xfer     ECU.request_download + ECU.transmit_data    ScriptedTransport, virtual time
  refresh  ECU.refresh_state(reset_state)              ScriptedTransport, virtual time
  book     raw client calls, ECU.update_state observed ScriptedTransport, virtual time

The ECU model (FlowEnv) records every request together with the outcome it produced (ground truth); Python never
judges: the event lists go to TLC (spec/Trace_EcuFlows.tla).
"""

from __future__ import annotations

import asyncio
from datetime import UTC, datetime
from pathlib import Path
from typing import Any

import gallia.command  # noqa: F401  (import order: avoids the circular import of gallia.db.handler)
from gallia.command.config import GalliaBaseModel
from gallia.db.handler import DBHandler
from gallia.power_supply import PowerSupply
from gallia.services.uds.core.client import UDSRequestConfig
from gallia.services.uds.core.service import NegativeResponse
from gallia.services.uds.ecu import ECU

from harness import vloop
from harness.fakes import ScriptedTransport, ScriptEnv
from harness.vloop import now_ms

DEFAULT_MAX_BLOCK_LENGTH = 0xFFF  # documented default of transmit_data(max_block_length=0xFFF)


def data_pattern(n: int) -> bytes:
    """Data whose every window is position dependent (period 251 is coprime to every block payload used)."""
    return bytes((7 + 3 * i) % 251 for i in range(n))


class FlowEnv(ScriptEnv):
    """Scripted ECU.  `model` keys (all optional):
    sess      ground-truth session at the start
    edges     {"<from>": [to, ...]}: DiagnosticSessionControl(to) accepted in session `from` (absent: accept all)
    silent_dsc  sessions whose DiagnosticSessionControl is never answered
    nrc       NRC of refused requests
    reset     "pos" | "neg" | "silent"; down: ms of silence after an accepted reset / power up; drop: the ECU's
              connections die with the reset / power cycle
    dsc1      outcome of DiagnosticSessionControl(1) in the leave flow ("pos" | "neg" | "silent")
    mnbl      maxNumberOfBlockLength of the RequestDownload response; neg_at / silent_at: block number refused /
              unanswered; rte: outcome of RequestTransferExit
    rs        ["pos", s] | ["neg", nrc] | ["silent"]: answer to the session read
    mutant    self-test of the binding only
    """

    def __init__(self, model: dict[str, Any], timed: bool = True) -> None:
        super().__init__()
        self.m = model
        self.timed = timed
        self.ev: list[dict[str, Any]] = []
        self.sess = int(model.get("sess", 1))
        self.sec = -1
        self.up_at = 0
        self.off = False
        self.dead_upto = 0  # connections numbered <= dead_upto are dead
        self.out = "pos"
        self.resp: bytes = b""
        self.ntd = 0
        self.force: str | None = None  # book flow: outcome of the next request
        self.force_s = 0
        self.rd: str | None = None

    # -- observation
    def t(self) -> int:
        return now_ms() if self.timed else 0

    def rec(self, **kw: Any) -> None:
        if not self.timed:
            kw.setdefault("t", 0)
        super().rec(**kw)
        if kw.get("e") == "RC":
            self.ev.append({"e": "RC", "t": self.t()})

    # -- power supply
    def power(self, on: bool) -> None:
        if on:
            self.ev.append({"e": "PUp", "t": self.t()})
            self.off = False
            self.up_at = self.t() + int(self.m.get("down", 0))
        else:
            self.ev.append({"e": "PDown", "t": self.t()})
            self.off = True
            self.sess, self.sec = 1, -1
            if self.m.get("drop"):
                self.dead_upto = self.connections

    def alive(self) -> bool:
        return not self.off and self.t() >= self.up_at

    # -- requests
    def on_write(self, data: bytes) -> str | None:
        d = bytes(data)
        sid = d[0]
        dead = self.connections <= self.dead_upto
        nrc = int(self.m.get("nrc", 0x22))
        neg = bytes([0x7F, sid, nrc])
        if sid == 0x3E:
            out = "connerr" if dead else ("answer" if self.alive() else "silent")
            self.ev.append({"e": "Ping", "out": out, "t": self.t()})
            self.out, self.resp = out, bytes([0x7E, 0x00])
            return "WConnErr" if dead else None
        want: str
        ev: dict[str, Any]
        resp = neg
        if sid == 0x10:
            s = d[1] & 0x7F
            if self.force is not None:
                want = self.force
            elif "dsc1" in self.m and s == 1:
                want = self.m["dsc1"]
            elif s in self.m.get("silent_dsc", []):
                want = "silent"
            else:
                edges = self.m.get("edges")
                want = "pos" if edges is None or s in edges.get(str(self.sess), []) else "neg"
            ev = {"e": "Dsc", "s": s}
            resp = bytes([0x50, s, 0x00, 0x19, 0x01, 0xF4])
        elif sid == 0x11:
            want = self.force or self.m.get("reset", "pos")
            ev = {"e": "Reset", "sub": d[1] & 0x7F}
            resp = bytes([0x51, d[1] & 0x7F])
        elif sid == 0x22 and d[1:3] == b"\xf1\x86" and ("rs" in self.m or self.force is not None):
            if self.force is not None:
                want, rep = self.force, self.force_s
            else:
                rs = self.m["rs"]
                want = rs[0]
                rep = int(rs[1]) if want == "pos" else 0
                if want == "neg":
                    neg = bytes([0x7F, sid, int(rs[1])])
            ev = {"e": "Rs", "s": rep if want == "pos" else 0}
            resp = bytes([0x62, 0xF1, 0x86, rep])
        elif sid == 0x34:
            want = self.m.get("rd", "pos")
            mn = int(self.m.get("mnbl", 0x82))
            nb = max(1, (mn.bit_length() + 7) // 8)
            resp = bytes([0x74, nb << 4]) + mn.to_bytes(nb, "big")
            self.rd = want
            ev = {}
        elif sid == 0x36:
            self.ntd += 1
            want = "neg" if self.ntd == self.m.get("neg_at") else "silent" if self.ntd == self.m.get("silent_at") else "pos"
            ev = {"e": "Td", "c": d[1], "p": list(d[2:])}
            resp = bytes([0x76, d[1]])
            if self.m.get("mutant") == "fake-drops-a-byte" and self.ntd == 2:
                ev["p"] = ev["p"][:-1]
        elif sid == 0x37:
            want = self.m.get("rte", "pos")
            ev = {"e": "Rte"}
            resp = bytes([0x77])
        elif self.force is not None:
            want = self.force
            ev = {"e": "Req", "sid": sid}
            if sid == 0x27:
                resp = bytes([0x67, d[1]]) + (b"\x11\x22\x33\x44" if d[1] % 2 == 1 else b"")
            elif sid == 0x22:
                resp = bytes([0x62, d[1], d[2], 0x41, 0x42])
            else:
                resp = bytes([sid + 0x40]) + d[1:2]
        else:
            want = "neg"
            ev = {"e": "Req", "sid": sid}
            neg = bytes([0x7F, sid, 0x11])
        if dead or not self.alive():
            want = "silent"  # never reached a running ECU
        if ev:
            ev["out"] = want
            self.ev.append(ev)
        if want == "pos":
            if sid == 0x10:
                self.sess, self.sec = d[1] & 0x7F, -1
            elif sid == 0x11:
                self.sess, self.sec = 1, -1
                self.up_at = self.t() + int(self.m.get("down", 0))
                if self.m.get("drop"):
                    self.dead_upto = self.connections
        self.out = want
        self.resp = resp if want == "pos" else neg
        return "WConnErr" if dead else None

    def on_read(self, timeout: float | None) -> tuple[str, bytes | None]:
        if self.out in ("pos", "neg", "answer"):
            return "Final", self.resp
        return "Timeout", None


class FlowEcu(ECU):
    """The documented extension point ('Vendor specific implementations can be derived from this class'): the hooks
    only record that they ran."""

    def __init__(self, env: FlowEnv, *a: Any, **kw: Any) -> None:
        super().__init__(*a, **kw)
        self.env = env

    async def set_session_pre(self, level: int, config: UDSRequestConfig | None = None) -> bool:
        self.env.ev.append({"e": "Hook", "which": "pre", "level": level})
        return True

    async def set_session_post(self, level: int, config: UDSRequestConfig | None = None) -> bool:
        self.env.ev.append({"e": "Hook", "which": "post", "level": level})
        return True


class RecordingDriver:
    """Stands in for a BasePowerSupplyDriver: PowerSupply only switches outputs."""

    def __init__(self, env: FlowEnv) -> None:
        self.env = env

    async def set_master(self, enabled: bool) -> None:
        self.env.power(enabled)

    async def set_output(self, channel: int, enabled: bool) -> None:
        self.env.power(enabled)


def _sec(ecu: ECU) -> int:
    lv = ecu.state.security_access_level
    return -1 if lv is None else int(lv)


def _mk(env: FlowEnv, s0: int, sec0: int, power_supply: Any = None) -> FlowEcu:
    ecu = FlowEcu(env, ScriptedTransport(env), timeout=0.5, max_retry=0, power_supply=power_supply)
    ecu.implicit_logging = False
    ecu.state.session = s0
    ecu.state.security_access_level = None if sec0 < 0 else sec0
    return ecu


def _ret(env: FlowEnv, ecu: ECU, val: str, exc: str | None) -> dict[str, Any]:
    env.ev.append({"e": "Ret", "val": val, "sess": int(ecu.state.session), "sec": _sec(ecu)})
    env.dispose()
    return {"ev": env.ev, "exc": exc}


def _vrun(main: Any, env: FlowEnv, ecu_box: list[Any], horizon: float = 900) -> dict[str, Any] | None:
    try:
        vloop.run(main(), horizon=horizon)
    except (TimeoutError, vloop.BlockedForever):
        env.ev.append({"e": "Ret", "val": "hang", "sess": 0, "sec": -1})
        env.dispose()
        return {"ev": env.ev, "exc": "hang"}
    return None


# ------------------------------------------------------------------ set_session (normal loop, real DBHandler)
async def _set_one(h: DBHandler, case: dict[str, Any], uid: str) -> dict[str, Any]:
    target, other = f"fake://x11-{uid}", f"fake://x11-{uid}-other"
    level = int(case["level"])
    rows: list[list[int]] = []
    db = case["db"]
    if case["hasdb"]:
        for tgt, run in (("other", "cur"), ("self", "old"), ("self", "cur")):
            sel = [r for r in db if r["target"] == tgt and r["run"] == run]
            if sel or (tgt, run) == ("self", "cur"):
                await h.insert_scan_run(other if tgt == "other" else target)
            for r in sel:
                await h.insert_session_transition(int(r["dest"]), [int(x) for x in r["steps"]])
                if tgt == "self" and int(r["dest"]) == level:
                    rows.append([int(x) for x in r["steps"]])
    env = FlowEnv(case["ecu"], timed=False)
    ecu = _mk(env, int(case["s0"]), int(case["sec0"]))
    orig = h.get_session_transition
    if case["hasdb"]:
        async def spy(destination: int) -> list[int] | None:
            r = await orig(destination)
            env.ev.append({"e": "Db", "dest": int(destination), "found": r is not None,
                           "steps": [int(x) for x in r] if r is not None else []})
            return r

        h.get_session_transition = spy  # type: ignore[method-assign]
        ecu.db_handler = h
    env.ev.append({"e": "Start", "flow": "set", "level": level, "skip": bool(case["skip"]), "usedb": bool(case["usedb"]),
                   "hasdb": bool(case["hasdb"]), "rows": rows, "s0": int(case["s0"]), "sec0": int(case["sec0"])})
    cfg = UDSRequestConfig(skip_hooks=True) if case["skip"] else (UDSRequestConfig() if case.get("cfgobj") else None)
    exc = None
    try:
        try:
            if case["usedb"]:
                resp = await asyncio.wait_for(ecu.set_session(level, config=cfg), 30)
            else:
                resp = await asyncio.wait_for(ecu.set_session(level, config=cfg, use_db=False), 30)
            val = "neg" if isinstance(resp, NegativeResponse) else "pos"
        except TimeoutError:
            val = "hang"
        except Exception as e:  # noqa: BLE001
            val, exc = "raise", repr(e)[:160]
    finally:
        if case["hasdb"]:
            h.get_session_transition = orig  # type: ignore[method-assign]
    return _ret(env, ecu, val, exc)


def run_set_cases(cases: list[dict[str, Any]], tmp: Path, tag: str = "a") -> list[dict[str, Any]]:
    async def go() -> list[dict[str, Any]]:
        h = DBHandler(tmp / f"x11-{tag}.sqlite")
        await h.connect()
        out = []
        try:
            await h.insert_run_meta("x11-harness", GalliaBaseModel(), datetime.now(UTC).astimezone(), None)
            for i, c in enumerate(cases):
                out.append(await _set_one(h, c, f"{tag}{i}"))
            await h.disconnect()
        finally:
            if h.connection is not None:  # never leave the aiosqlite worker thread behind
                try:
                    await h.connection.close()
                except Exception:  # noqa: BLE001
                    pass
        return out

    return asyncio.run(go())


# ------------------------------------------------------------------ leave_session (virtual time)
def run_leave(case: dict[str, Any]) -> dict[str, Any]:
    model = dict(case["ecu"])
    model["sess"] = int(case["level"])
    env = FlowEnv(model)
    box: dict[str, Any] = {}

    async def main() -> None:
        ps = PowerSupply(RecordingDriver(env), 1) if case["supply"] else None  # type: ignore[arg-type]
        ecu = _mk(env, int(case["level"]), int(case["sec0"]), ps)
        box["ecu"] = ecu
        sleep = case["sleep"]
        env.ev.append({"e": "Start", "flow": "leave", "level": int(case["level"]), "supply": bool(case["supply"]),
                       "sleep": -1 if sleep is None else int(round(sleep * 1000)), "s0": int(case["level"]),
                       "sec0": int(case["sec0"])})
        cfg = UDSRequestConfig(skip_hooks=True) if case.get("skip") else None
        try:
            if sleep is None:
                r = await ecu.leave_session(int(case["level"]), config=cfg)
            else:
                r = await ecu.leave_session(int(case["level"]), config=cfg, sleep=sleep)
            box["val"] = "true" if r else "false"
        except Exception as e:  # noqa: BLE001
            box["val"], box["exc"] = "raise", repr(e)[:160]

    h = _vrun(main, env, [])
    return h if h is not None else _ret(env, box["ecu"], box["val"], box.get("exc"))


# ------------------------------------------------------------------ transmit_data (virtual time)
def run_xfer(case: dict[str, Any]) -> dict[str, Any]:
    env = FlowEnv(dict(case["ecu"]))
    box: dict[str, Any] = {}
    data = data_pattern(int(case["n"]))

    async def main() -> None:
        ecu = _mk(env, 2, -1)
        box["ecu"] = ecu
        rd = await ecu.request_download(0x1000, max(1, len(data)))
        bl = int(rd.max_number_of_block_length)  # type: ignore[union-attr]
        maxbl = case.get("maxbl")
        env.ev.append({"e": "Start", "flow": "xfer", "bl": bl, "maxbl": DEFAULT_MAX_BLOCK_LENGTH if maxbl is None else int(maxbl),
                       "data": list(data)})
        try:
            if maxbl is None:
                r = await ecu.transmit_data(data, bl)
            else:
                r = await ecu.transmit_data(data, bl, int(maxbl))
            box["val"] = "none" if r is None else "value"
        except Exception as e:  # noqa: BLE001
            box["val"], box["exc"] = "raise", repr(e)[:160]

    h = _vrun(main, env, [])
    return h if h is not None else _ret(env, box["ecu"], box["val"], box.get("exc"))


# ------------------------------------------------------------------ refresh_state (virtual time)
def run_refresh(case: dict[str, Any]) -> dict[str, Any]:
    env = FlowEnv({"rs": case["rs"], "sess": int(case["s0"])})
    box: dict[str, Any] = {}

    async def main() -> None:
        ecu = _mk(env, int(case["s0"]), int(case["sec0"]))
        box["ecu"] = ecu
        env.ev.append({"e": "Start", "flow": "refresh", "reset": bool(case["reset"]), "s0": int(case["s0"]),
                       "sec0": int(case["sec0"])})
        try:
            if case["reset"] is None:
                await ecu.refresh_state()
            else:
                await ecu.refresh_state(reset_state=bool(case["reset"]))
            box["val"] = "none"
        except Exception as e:  # noqa: BLE001
            box["val"], box["exc"] = "raise", repr(e)[:160]

    h = _vrun(main, env, [])
    return h if h is not None else _ret(env, box["ecu"], box["val"], box.get("exc"))


# ------------------------------------------------------------------ update_state bookkeeping (virtual time)
# symbol -> (kind, argument, outcome)
BOOK_SYMBOLS: dict[str, tuple[str, int, str]] = {
    "dsc2+": ("dsc", 2, "pos"), "dsc3+": ("dsc", 3, "pos"), "dsc1+": ("dsc", 1, "pos"), "dsc3-": ("dsc", 3, "neg"),
    "dsc2~": ("dsc", 2, "silent"),
    "rst+": ("reset", 1, "pos"), "rst-": ("reset", 1, "neg"), "rst3+": ("reset", 3, "pos"),
    "seed3+": ("seed", 3, "pos"), "key4+": ("key", 4, "pos"), "key4-": ("key", 4, "neg"), "key6+": ("key", 6, "pos"),
    "rs=": ("rs", 0, "pos"), "rsfb": ("rs", 1, "pos"), "rs-": ("rs", 0, "neg"),
    "tp": ("tp", 0, "pos"), "rdbi": ("other", 0, "pos"), "rdbi-": ("other", 0, "neg"),
}


def run_book(case: dict[str, Any]) -> dict[str, Any]:
    env = FlowEnv({"sess": 1})
    box: dict[str, Any] = {}

    async def main() -> None:
        ecu = _mk(env, 1, -1)
        box["ecu"] = ecu
        env.ev.append({"e": "Start", "flow": "book", "s0": 1, "sec0": -1})
        for sym in case["seq"]:
            kind, a, out = BOOK_SYMBOLS[sym]
            env.force = out
            if sym == "rs=":
                a = env.sess
            elif sym == "rsfb":
                env.sess, env.sec = 1, -1  # the ECU fell back to its default session on its own (S3 timeout)
            env.force_s = a
            n0 = len(env.ev)
            try:
                if kind == "dsc":
                    await ecu.diagnostic_session_control(a)
                elif kind == "reset":
                    await ecu.ecu_reset(a)
                elif kind == "seed":
                    await ecu.security_access_request_seed(a)
                elif kind == "key":
                    await ecu.security_access_send_key(a, b"\x01\x02")
                elif kind == "rs":
                    await ecu.read_session()
                elif kind == "tp":
                    env.force = None
                    await ecu.ping()
                else:
                    await ecu.read_data_by_identifier(0xF190)
            except Exception:  # noqa: BLE001  (MissingResponse / UnexpectedNegativeResponse: the state is what matters)
                pass
            if kind == "key" and out == "pos":
                env.sec = a - 1
            del env.ev[n0:]  # the raw request events are replaced by the exchange record
            env.ev.append({"e": "X", "kind": kind, "a": int(a), "out": out, "cs": int(ecu.state.session), "csec": _sec(ecu)})
        box["val"] = "none"

    h = _vrun(main, env, [])
    return h if h is not None else _ret(env, box["ecu"], box["val"], None)
