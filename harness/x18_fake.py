"""X18: a pure-Python stand-in for the `curses` module, as far as gallia.cli.cursed_hr uses it.

The behaviour of the window was measured against the real ncurses binding on a pseudo-terminal
(harness/x18_pty.py runs the real thing):
  * addstr() writes at the cursor and advances; at the right margin it wraps to the next line; a character written
    into the lower-right corner IS written but the call fails (`curses.error: addwstr() returned ERR`) because the
    cursor cannot advance (the window does not scroll); the rest of the string is lost; "\n" clears to the end of the
    line and goes to the start of the next one, on the last line it fails;
  * an embedded NUL raises ValueError("embedded null character") before anything is written;
  * move() outside the window fails (`wmove() returned ERR`);
  * getkey() refreshes the window first; curses.getsyx() afterwards returns the window's cursor position;
  * a terminal resize is delivered as the key "KEY_RESIZE"; getmaxyx() reports the new size from then on and the
    cursor is clamped into the new window.
Every character occupies one column (the harness writes narrow characters only; wide / combining characters and
control characters other than "\n" are left out, see the assumptions of the check).

Nothing in here judges anything: the window records what the user would see at the moment the program waits for
the next key.
"""

from __future__ import annotations

import curses.ascii as _real_ascii
from typing import Any, Callable


class CursesError(Exception):
    """stands for _curses.error"""


class EndOfScript(BaseException):
    """the scripted user has no more keys: the session ends here (BaseException: no handler of the program under
    test may swallow it)"""


class Hang(BaseException):
    """the program did not ask for the next key within its step budget"""


A_BOLD = 1 << 21
A_REVERSE = 1 << 18


class FakeWindow:
    def __init__(self, size: tuple[int, int], script: list[Any], on_key: Callable[["FakeWindow"], None]) -> None:
        self.h, self.w = size
        self.script = list(script)
        self.pos = 0
        self.y = 0
        self.x = 0
        self.grid: list[list[tuple[str, int] | None]] = []
        self._blank()
        self.on_key = on_key
        self.syx = (0, 0)
        self.refreshed = 0
        self.calls = 0
        self.mutant: str | None = None

    # ---- geometry / plumbing
    def _blank(self) -> None:
        self.grid = [[None] * self.w for _ in range(self.h)]

    def keypad(self, flag: bool) -> None:
        pass

    def refresh(self) -> None:
        self.refreshed += 1
        self.syx = (self.y, self.x)

    def getmaxyx(self) -> tuple[int, int]:
        self.calls += 1
        return self.h, self.w

    def getyx(self) -> tuple[int, int]:
        return self.y, self.x

    def clear(self) -> None:
        self.erase()

    def erase(self) -> None:
        self._blank()
        self.y = self.x = 0

    def move(self, y: int, x: int) -> None:
        if not (0 <= y < self.h and 0 <= x < self.w):
            raise CursesError("wmove() returned ERR")
        self.y, self.x = y, x

    # ---- output
    def addstr(self, *args: Any) -> None:
        self.calls += 1
        if len(args) >= 3 and isinstance(args[0], int):
            self.move(args[0], args[1])
            args = args[2:]
        text = args[0]
        attr = args[1] if len(args) > 1 else 0
        if not isinstance(text, str):
            raise TypeError("str expected")
        if "\x00" in text:
            raise ValueError("embedded null character")
        for ch in text:
            if ch == "\n" and self.mutant == "newline-ignored":
                continue
            if ch == "\n":
                for c in range(self.x, self.w):
                    self.grid[self.y][c] = None
                if self.y + 1 >= self.h:
                    raise CursesError("addwstr() returned ERR")
                self.y += 1
                self.x = 0
                continue
            self.grid[self.y][self.x] = (ch, attr)
            if self.x + 1 < self.w:
                self.x += 1
            elif self.y + 1 < self.h:
                self.y += 1
                self.x = 0
            else:
                raise CursesError("addwstr() returned ERR")

    # ---- input
    def getkey(self) -> str:
        self.refresh()
        self.on_key(self)          # snapshot of what the user sees while the program waits
        if self.pos >= len(self.script):
            raise EndOfScript()
        k = self.script[self.pos]
        self.pos += 1
        if isinstance(k, dict):    # {"resize": [h, w]}
            h, w = k["resize"]
            self.h, self.w = int(h), int(w)
            self._blank()          # the program redraws everything anyway (erase() in display())
            self.y = min(self.y, self.h - 1)
            self.x = min(self.x, self.w - 1)
            if self.mutant == "resize-keeps-old-size":
                self.h, self.w = len(self.grid), len(self.grid[0])
            return "KEY_RESIZE"
        return str(k)

    # ---- what the user sees
    def rows(self) -> list[list[tuple[str, int]]]:
        """per screen line: runs of (text, attribute); unwritten cells are blanks with attribute 0"""
        out = []
        for line in self.grid:
            runs: list[tuple[str, int]] = []
            for cell in line:
                ch, at = cell if cell is not None else (" ", 0)
                if runs and runs[-1][1] == at:
                    runs[-1] = (runs[-1][0] + ch, at)
                else:
                    runs.append((ch, at))
            out.append(runs)
        return out

    def lines(self) -> list[str]:
        return ["".join(c[0] if c is not None else " " for c in line).rstrip() for line in self.grid]

    def reversed_lines(self) -> list[bool]:
        return [any(c is not None and (c[1] & A_REVERSE) and c[0] != " " for c in line) for line in self.grid]


class FakeCurses:
    """module object put in place of `curses` inside gallia.cli.cursed_hr"""

    error = CursesError
    ascii = _real_ascii
    A_BOLD = A_BOLD
    A_REVERSE = A_REVERSE
    COLOR_BLACK, COLOR_RED, COLOR_GREEN, COLOR_YELLOW, COLOR_BLUE, COLOR_MAGENTA, COLOR_CYAN, COLOR_WHITE = range(8)

    def __init__(self, window: FakeWindow) -> None:
        self.window = window
        self.ended = 0
        self.started = 0
        self.pairs: dict[int, tuple[int, int]] = {}

    def initscr(self) -> FakeWindow:
        self.started += 1
        return self.window

    def start_color(self) -> None: ...
    def use_default_colors(self) -> None: ...
    def noecho(self) -> None: ...
    def cbreak(self) -> None: ...
    def nocbreak(self) -> None: ...
    def echo(self) -> None: ...

    def endwin(self) -> None:
        self.ended += 1

    def init_pair(self, n: int, fg: int, bg: int) -> None:
        self.pairs[n] = (fg, bg)

    def color_pair(self, n: int) -> int:
        return (int(n) & 0xFF) << 8

    def getsyx(self) -> tuple[int, int]:
        return self.window.syx
