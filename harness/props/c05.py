"""C05 — concurrent users of one UDS client never interleave their exchanges.

spec   : spec/UdsClientMutexContract.tla (M1..M3 monitor), spec/UdsClientMutex.tla (design: FIFO lock,
         per-caller reply scripts, cancellation at any await point)
MC     : MC_UdsClientMutex_c2/c3(/c4) exhaustive; dev (lock released during responsePending) negative control
binding: real gallia ECU objects (UDSClient.request / reconnect / the real cyclic tester-present worker)
         sharing one scripted transport under virtual time; schedules = arrival orders x start delays x
         reply script per transmission x cancellation point, enumerated; TLC validates every run.
"""

from __future__ import annotations

import asyncio
import itertools
import json
import random
from typing import Any

from gallia.services.uds.core import service
from gallia.services.uds.core.client import UDSRequestConfig
from gallia.services.uds.ecu import ECU

from harness import tlc, vloop
from harness.common import Machinery, Report, quiet_gallia_logging
from harness.enum import ListChooser, explore
from harness.fakes import ScriptedTransport, ScriptEnv, task_name

# "pendslow": ResponsePending, then 2.5 s of silence (five polls), then the final reply: the exchange stays open
# for longer than any keep-alive interval while the caller holds the client
SCRIPTS = ["imm", "pend", "tmo", "late", "err", "pendslow"]
TP_ID = 9000


def req_id(data: bytes) -> int:
    """identity of a request on the wire; replies carry the same identity (reply_id) so that a reply handed to another
    caller is recognisable.  Also total over requests the harness does not send itself (a change to gallia may send a
    session read or a session change through the client): service id + first parameter byte / data identifier."""
    if len(data) >= 3 and data[0] == 0x22:
        return data[2] if data[1] == 0x10 else 0x10000 + (data[1] << 8) + data[2]
    if len(data) >= 1 and data[0] == 0x3E:
        return TP_ID
    if len(data) >= 1:
        return 0x20000 + (data[0] << 8) + (data[1] & 0x7F if len(data) > 1 else 0)
    return -2


def reply_for(data: bytes) -> bytes:
    if data[0] == 0x22:
        return bytes([0x62, data[1], data[2], 0xAA])
    if data[0] == 0x3E:
        return bytes([0x7E, data[1] & 0x7F])
    if len(data) > 1:
        return bytes([data[0] + 0x40, data[1] & 0x7F])
    return bytes([data[0] + 0x40])


def reply_id(pdu: bytes) -> int:
    if len(pdu) >= 3 and pdu[0] == 0x62:
        return pdu[2] if pdu[1] == 0x10 else 0x10000 + (pdu[1] << 8) + pdu[2]
    if len(pdu) >= 1 and pdu[0] == 0x7E:
        return TP_ID
    if len(pdu) >= 1 and pdu[0] != 0x7F and pdu[0] >= 0x40:
        return 0x20000 + ((pdu[0] - 0x40) << 8) + (pdu[1] & 0x7F if len(pdu) > 1 else 0)
    return -3


class MutexEnv(ScriptEnv):
    def __init__(self, chooser: Any, scripts: list[str]) -> None:
        super().__init__()
        self.ch = chooser
        self.scripts = scripts
        self.stale: list[bytes] = []
        self.cur: bytes = b""
        self.plan = "imm"
        self.pend_sent = False
        self.silent_polls = 0
        self.calls: dict[str, int] = {}
        self.cancel_hook: Any = None

    def _call(self) -> None:
        t = task_name()
        self.calls[t] = self.calls.get(t, 0) + 1
        if self.cancel_hook is not None:
            self.cancel_hook(t, self.calls[t])

    def on_write(self, data: bytes) -> str | None:
        self._call()
        self.cur = bytes(data)
        self.plan = self.scripts[self.ch.choose(len(self.scripts))]
        self.pend_sent = False
        self.silent_polls = 0
        return None

    def on_read(self, timeout: float | None) -> tuple[str, bytes | None]:
        self._call()
        if self.stale:
            return "Stale", self.stale.pop(0)
        p = self.plan
        if p == "imm" or (p == "pend" and self.pend_sent):
            return "Final", reply_for(self.cur)
        if p == "pendslow":
            if not self.pend_sent:
                self.pend_sent = True
                return "Pending", bytes([0x7F, self.cur[0], 0x78])
            self.silent_polls += 1
            if self.silent_polls <= 5:
                return "Timeout", None
            return "Final", reply_for(self.cur)
        if p == "pend":
            self.pend_sent = True
            return "Pending", bytes([0x7F, self.cur[0], 0x78])
        if p == "err":
            return "ConnErr", None
        if p == "late":
            self.stale.append(reply_for(self.cur))
            self.plan = "tmo"
        return "Timeout", None


class TracedECU(ECU):
    """Real ECU; only adds Arrive/Done records around the public request/reconnect entry points."""

    env: MutexEnv
    tp_in_hook = False

    async def connect(self) -> None:
        """The documented hook run by reconnect() with the client mutex held.  A vendor ECU class may (re)start
        its cyclic tester present here: the worker task is then CREATED while the mutex is held."""
        await super().connect()
        if self.tp_in_hook:
            if self.tester_present_task is not None:
                await self.stop_cyclic_tester_present()
            await self.start_cyclic_tester_present(0.2)

    async def _request(self, request: service.UDSRequest, config: UDSRequestConfig | None = None) -> service.UDSResponse:
        self.env.rec(e="Arrive", req=req_id(request.pdu))
        kind, rid = "Error", 0
        try:
            resp = await super()._request(request, config)
            kind, rid = "Reply", reply_id(resp.pdu)
            return resp
        except asyncio.CancelledError:
            kind = "Cancelled"
            raise
        finally:
            self.env.rec(e="Done", kind=kind, req=rid)

    async def reconnect(self, timeout: int | None = None) -> None:
        self.env.rec(e="Arrive", req=0)
        kind = "Error"
        try:
            await super().reconnect(timeout)
            kind = "ReconnectOk"
        except asyncio.CancelledError:
            kind = "Cancelled"
            raise
        finally:
            self.env.rec(e="Done", kind=kind, req=0)


def run_schedule(chooser: Any, order: list[str], *, kinds: dict[str, str], tp: bool, retry: int,
                 scripts: list[str], tp_in_hook: bool = False) -> dict[str, Any]:
    """order: caller names in arrival order; kinds[name] in {"req", "reconnect"}."""
    env = MutexEnv(chooser, scripts)
    info: dict[str, Any] = {"pending": []}

    async def main() -> None:
        tr = ScriptedTransport(env)
        ecu = TracedECU(tr, timeout=1.0, max_retry=retry)
        ecu.env = env
        ecu.tp_in_hook = tp_in_hook
        tasks: dict[str, asyncio.Task[Any]] = {}
        delays = {n: [0.0, 0.25][chooser.choose(2)] for n in order}
        # cancellation: none | victim's k-th transport call | a point in time
        cancel = chooser.choose(1 + 3 + 2)
        victim = order[chooser.choose(len(order))] if cancel else None
        info["cancel"] = [cancel, victim]

        def hook(t: str, k: int) -> None:
            if victim is not None and 1 <= cancel <= 3 and t == victim and k == cancel and victim in tasks:
                asyncio.get_running_loop().call_soon(tasks[victim].cancel)

        env.cancel_hook = hook
        if tp:
            await ecu.start_cyclic_tester_present(0.2)

        async def caller(name: str, idx: int) -> None:
            await asyncio.sleep(delays[name])
            if kinds[name] == "reconnect":
                await ecu.reconnect()
            elif kinds[name] == "wait":
                # a task waits for the ECU to come back (as the scanners do after a reset / power cycle) while the
                # client believes it is in a non-default session; other tasks keep using the client
                ecu.state.session = 3
                await ecu.wait_for_ecu(2.0)
            elif kinds[name] == "raw":
                # the same request handed over as bytes (what `primitive uds pdu`, the fuzzers and the scanners' raw
                # probes do): same service id as the other callers, another identifier
                await ecu.send_raw(bytes([0x22]) + (0x1000 + idx).to_bytes(2, "big"))
            else:
                await ecu.read_data_by_identifier(0x1000 + idx)

        for i, n in enumerate(order):
            tasks[n] = asyncio.create_task(caller(n, i + 1), name=n)
        if victim is not None and cancel >= 4:
            asyncio.get_running_loop().call_later(0.05 if cancel == 4 else 1.1, tasks[victim].cancel)
        done, pend = await asyncio.wait(tasks.values(), timeout=120)
        for t in pend:
            info["pending"].append(t.get_name())
        for t in done:
            t.exception() if not t.cancelled() else None
        if ecu.tester_present_task is not None:
            await ecu.stop_cyclic_tester_present()
        for t in pend:
            t.cancel()

    hang = False
    try:
        vloop.run(main(), horizon=3000)
    except (TimeoutError, vloop.BlockedForever):
        hang = True
        info["pending"] = info["pending"] or ["<run did not finish>"]
    ev = []
    for r in env.log:
        e = r["e"]
        if e == "W":
            ev.append({"e": "W", "task": r["task"], "req": req_id(bytes.fromhex(r["data"]))})
        elif e in ("Timeout", "ConnErr", "Final", "Pending", "Stale", "Empty"):
            ev.append({"e": "R", "task": r["task"]})
        elif e == "RC":
            ev.append({"e": "RC", "task": r["task"]})
        elif e == "Arrive":
            ev.append({"e": "Arrive", "task": r["task"], "req": r["req"]})
        elif e == "Done":
            ev.append({"e": "Done", "task": r["task"], "kind": r["kind"], "req": r["req"]})
    ev.append({"e": "Final", "pending": info["pending"]})
    env.dispose()
    return {"ev": ev, "order": order, "kinds": kinds, "tp": tp, "retry": retry, "cancel": info.get("cancel"),
            "hang": hang, "raw": [(r["t"], r["task"], r["e"]) for r in env.log]}


def validate(traces: list[dict[str, Any]]) -> tuple[dict[int, tuple[str, int]], list[Any]]:
    verdicts: dict[int, tuple[str, int]] = {}
    results = []
    CH = 4000
    for off in range(0, len(traces), CH):
        sub = {"traces": [{"id": off + i, "ev": t["ev"]} for i, t in enumerate(traces[off:off + CH])]}
        res = tlc.validate_batch("Trace_UdsClientMutex", "Trace_UdsClientMutex.cfg", sub, timeout=1800)
        results.append(res)
        for p in res.prints:
            if isinstance(p, list) and len(p) == 4 and p[0] == "V":
                verdicts[p[1]] = (p[2], p[3])
    missing = [i for i in range(len(traces)) if i not in verdicts]
    if missing:
        raise Machinery(f"Trace_UdsClientMutex: no verdict for {len(missing)} traces:\n{results[-1].out[-3000:]}")
    return verdicts, results


def run(tier: str, seed: int) -> Report:
    quiet_gallia_logging()
    rep = Report("C05", tier, seed)
    rep.rule = ("executions = N tasks (request callers, a reconnect caller, the real cyclic tester-present worker) "
                "sharing one real gallia ECU/UDSClient on a scripted transport under virtual time; enumerated: every "
                "arrival order x start delay {0, 250 ms} per caller x reply script per transmission {immediate, "
                "pending+final, silence, late reply after the timeout, connection error} x cancellation {none, at the "
                "victim's 1st/2nd/3rd transport call, at 50 ms, at 1100 ms} x victim; distinct = distinct event "
                "sequences; non-trivial = at least two tasks overlap in time")
    rep.assumptions = [
        "replies carry the data identifier of the request they answer, so a reply delivered to another caller is "
        "recognisable (callers use distinct identifiers)",
        "virtual-time asyncio loop; FIFO ready queue; asyncio.Lock hands over FIFO",
        "OS-thread concurrency is out of scope (gallia has none on this path)",
    ]
    for c in ["c2", "c3"] + (["c4"] if tier == "thorough" else []):
        res = tlc.run_tlc("MC_UdsClientMutex", f"MC_UdsClientMutex_{c}.cfg", timeout=3000, coverage=(c == "c3"))
        rep.add_tlc(res, f"MC_UdsClientMutex_{c}")
        if not res.ok:
            rep.violate(f"design/{res.violated}", {"where": "UdsClientMutex design layer", "cfg": c}, {"cex": res.cex[-8:]})
        if res.coverage:
            never = [a for a, (n, _d) in res.coverage.items() if n == 0 and a != "Init"]
            if never:
                raise Machinery(f"UdsClientMutex: actions never taken: {never}")
    res = tlc.run_tlc("MC_UdsClientMutex", "MC_UdsClientMutex_dev.cfg", timeout=600, workers=1)
    rep.add_tlc(res, "MC_UdsClientMutex_dev (negative control)")
    if res.violated != "M_ContractHolds":
        raise Machinery(f"negative control did not violate M1 (got {res.violated})")

    # the design layer refines the lock core (UdsClientLockInd) whose INDUCTIVE invariant Apalache discharges for
    # behaviours of any length, 6 callers, every caller cancellable at every await point (DESIGN 9.10)
    res = tlc.run_tlc("MC_UdsClientMutexRefine", "MC_UdsClientMutexRefine.cfg", timeout=900)
    rep.add_tlc(res, "MC_UdsClientMutexRefine (design refines the lock core; IndInv on reachable states)")
    if not res.ok:
        rep.violate(f"design/refinement/{res.violated}", {"where": "UdsClientMutex -> UdsClientLockInd"}, {"cex": res.cex[-8:]})
    # the four Apalache obligations are independent processes: started here, collected after the enumeration below
    import concurrent.futures as _cf
    apa_jobs = [
        ("base: Init => IndInv", "MC_UdsClientLockInd", "Init", "IndInv", 0, True),
        ("step: IndInv /\\ Next => IndInv'", "MC_UdsClientLockInd", "IndInit", "IndInv", 1, True),
        ("use: IndInv => M1 /\\ M3", "MC_UdsClientLockInd", "IndInit", "Safety", 0, True),
        ("negative control: lock released in the pending loop breaks the step", "MC_UdsClientLockInd_dev", "IndInit", "IndInv", 1, False),
    ]
    apa_pool = _cf.ThreadPoolExecutor(max_workers=4)
    apa_futs = [apa_pool.submit(tlc.run_apalache, mod, init=init, inv=inv, length=length, timeout=1800)
                for (_l, mod, init, inv, length, _w) in apa_jobs]

    def collect_apalache() -> None:
        apa = []
        for (label, mod, init, inv, length, want_ok), fut in zip(apa_jobs, apa_futs):
            a = fut.result()
            apa.append({"obligation": label, "module": mod, "init": init, "inv": inv, "length": length,
                        "outcome": "NoError" if a.ok else "Error", "wall_s": round(a.wall_s, 1)})
            if want_ok and not a.ok:
                rep.violate("design/inductive-invariant", {"where": "UdsClientLockInd", "obligation": label}, {"out": a.out[-1500:]})
            if not want_ok and a.ok:
                raise Machinery(f"apalache negative control did not fail: {label}")
        apa_pool.shutdown()
        rep.extra["apalache"] = {"version": "0.58.0", "callers": 6, "obligations": apa,
                                 "meaning": "inductive invariant of the lock core: holds for behaviours of ANY length"}


    traces: list[dict[str, Any]] = []
    seen: set[str] = set()

    def add(t: dict[str, Any], origin: str) -> None:
        key = json.dumps(t["ev"])
        if key in seen:
            return
        seen.add(key)
        t["origin"] = origin
        traces.append(t)

    plans: list[tuple[list[str], dict[str, str], bool, int, list[str]]] = []
    two = ["c1", "c2"]
    three = ["c1", "c2", "c3"]
    for order in itertools.permutations(two):
        plans.append((list(order), {"c1": "req", "c2": "req"}, False, 0, SCRIPTS))
        plans.append((list(order), {"c1": "req", "c2": "req"}, True, 0, ["imm", "pend", "late", "pendslow"]))
        plans.append((list(order), {"c1": "req", "c2": "reconnect"}, False, 1, ["imm", "late", "err"]))
    # one task in wait_for_ecu() (client in a non-default session) while others use the client
    for order in itertools.permutations(two):
        plans.append((list(order), {"c1": "wait", "c2": "req"}, False, 0, ["imm", "pend", "late", "tmo"]))
        plans.append((list(order), {"c1": "wait", "c2": "req"}, True, 1, ["imm", "late"]))
    for order in (list(itertools.permutations(three)) if tier == "thorough" else [("c1", "c2", "c3"), ("c2", "c1", "c3")]):
        plans.append((list(order), {"c1": "wait", "c2": "req", "c3": "raw"}, False, 0, ["imm", "pend", "tmo"]))
    # callers that hand their request over as bytes (send_raw), alone and mixed with typed callers
    for order in itertools.permutations(two):
        plans.append((list(order), {"c1": "raw", "c2": "raw"}, False, 0, ["imm", "pend", "late"]))
        plans.append((list(order), {"c1": "raw", "c2": "req"}, False, 0, ["imm", "late"]))
        plans.append((list(order), {"c1": "raw", "c2": "raw"}, True, 1, ["imm", "late"]))
    for order in itertools.permutations(three):
        plans.append((list(order), {"c1": "req", "c2": "req", "c3": "req"}, False, 0,
                      ["imm", "pend", "late"] if tier == "quick" else SCRIPTS))
    if tier == "thorough":
        for order in itertools.permutations(three):
            plans.append((list(order), {"c1": "req", "c2": "req", "c3": "reconnect"}, True, 1, ["imm", "pend", "late", "err"]))
    limit = 1500 if tier == "quick" else 40000
    # the tester-present worker (re)started inside the connect() hook, i.e. while reconnect() holds the mutex
    for order in itertools.permutations(three):
        def runit_h(ch: Any, order: tuple[str, ...] = order) -> dict[str, Any]:
            return run_schedule(ch, list(order), kinds={"c1": "req", "c2": "reconnect", "c3": "req"}, tp=True, retry=1,
                                scripts=["imm", "pend", "late"], tp_in_hook=True)

        for _vec, t in explore(runit_h, 8 if tier == "quick" else 11, limit=300 if tier == "quick" else 20000):
            add(t, "enum-3callers-tp-started-in-connect-hook")
    for order, kinds, tp, retry, scripts in plans:
        def runit(ch: Any, order: list[str] = order, kinds: dict[str, str] = kinds, tp: bool = tp, retry: int = retry,
                  scripts: list[str] = scripts) -> dict[str, Any]:
            return run_schedule(ch, order, kinds=kinds, tp=tp, retry=retry, scripts=scripts)

        n = 0
        for _vec, t in explore(runit, 9 if tier == "quick" else 12, limit=limit):
            add(t, f"enum-{len(order)}callers{'-tp' if tp else ''}{'-rc' if 'reconnect' in kinds.values() else ''}")
            n += 1
        rep.extra.setdefault("enumerated_per_plan", []).append(n)
    # 4-5 callers sampled
    rnd = random.Random(seed)
    for _ in range(150 if tier == "quick" else 3000):
        k = rnd.choice([4, 5])
        names = [f"c{i}" for i in range(1, k + 1)]
        rnd.shuffle(names)
        kinds = {n: ("reconnect" if rnd.random() < 0.15 else "req") for n in names}
        vec = [rnd.randrange(6) for _ in range(40)]
        add(run_schedule(ListChooser(vec), names, kinds=kinds, tp=rnd.random() < 0.5, retry=rnd.choice([0, 1]),
                         scripts=SCRIPTS), "random-4-5callers")
    collect_apalache()
    verdicts, results = validate(traces)
    for r in results:
        rep.add_tlc(r, "Trace_UdsClientMutex batch")
    rep.traces = rep.evaluations = len(traces)
    for i, t in enumerate(traces):
        tasks_w = {e["task"] for e in t["ev"] if e["e"] == "W"}
        if len(tasks_w) >= 2:
            rep.nontrivial.add(i)
        v, idx = verdicts[i]
        if v != "ok":
            ev = t["ev"][idx - 1] if 0 < idx <= len(t["ev"]) else {}
            rep.violate(v, {"event": ev.get("e"), "kind": ev.get("kind"), "tp": t["tp"]},
                        {"order": t["order"], "kinds": t["kinds"], "tp": t["tp"], "retry": t["retry"], "cancel": t["cancel"],
                         "events": t["ev"][max(0, idx - 10): idx + 1], "raw": t["raw"][:60], "origin": t["origin"]})
    for t in traces[100:102] + traces[-2:]:
        rep.sample({"order": t["order"], "cancel": t["cancel"], "events": [(e["e"], e.get("task"), e.get("req"), e.get("kind")) for e in t["ev"]][:30]})
    rep.extra["origins"] = {o: sum(1 for t in traces if t["origin"] == o) for o in sorted({t["origin"] for t in traces})}
    rep.exhaustive = tier == "thorough"
    # binding self-test: swap the task of one write into another caller's exchange
    good = next((t for i, t in enumerate(traces) if verdicts[i][0] == "ok" and len({e["task"] for e in t["ev"] if e["e"] == "W"}) >= 2), None)
    if good is None:
        if rep.violations:
            # the tree under test breaks the contract in every concurrent trace: report that, not the self-test
            rep.extra["binding_selftest"] = "skipped: no accepted concurrent trace on this tree"
            return rep
        raise Machinery("no accepted concurrent trace for the binding self-test")
    bad = json.loads(json.dumps(good))
    ws = [k for k, e in enumerate(bad["ev"]) if e["e"] == "W"]
    first_task = bad["ev"][ws[0]]["task"]
    other = next(k for k in ws if bad["ev"][k]["task"] != first_task)
    bad["ev"].insert(ws[0] + 1, bad["ev"].pop(other))
    bad2 = json.loads(json.dumps(good))
    for e in bad2["ev"]:
        if e["e"] == "Done" and e["kind"] == "Reply":
            e["req"] += 1
            break
    v2, _ = validate([bad, bad2])
    if v2[0][0] == "ok" or v2[1][0] == "ok":
        raise Machinery(f"binding self-test: corrupted traces accepted: {v2}")
    rep.extra["binding_selftest"] = [v2[0][0], v2[1][0]]
    return rep


def replay(path: str) -> int:
    """Scenarios are deterministic functions of (tier, seed): re-run that enumeration against the current tree
    and report whether the recorded violation signatures still occur."""
    import json as _json

    from harness import common as _common

    data = _json.loads(open(path).read())
    rep = run(data.get("tier", "quick"), int(data.get("seed", 0)))
    want = {(v["clause"], _json.dumps(v["sig"], sort_keys=True)) for v in data.get("violations", [])}
    got = {(v.clause, _json.dumps(v.sig, sort_keys=True)) for v in rep.violations}
    still = want & got
    print(f"replay: {len(still)} of {len(want)} recorded violation signatures reproduce on the current tree")
    if still:
        print(f"VIOLATION property={rep.property_id} replay={path}")
        return 1
    return 0
