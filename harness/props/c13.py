"""C13 — the virtual ECU answers by the ISO 14229-1 default response rules.

spec   : spec/VEcuContract.tla (contract: Chain / Matches / VisibleOk / NextStates, from the statement)
         spec/VEcu.tla (design: UDSServer.respond-shaped machine; Dev_S20_*, Dev_S20b_* deviations)
MC     : MC_VEcu_cov (action coverage), MC_VEcu_oneoff (design-level E4), MC_VEcu_allq / _all (all 2^9 switch subsets),
         MC_VEcu_devS20 / _devS20b negative controls
binding: code -> spec: real RandomUDSServer(seed, parameters) behind UDSServerTransport.handle_request,
         every exchange validated by Trace_VEcu (TLC); histories over several tester connections (harness.c13_conn:
         hang up / reconnect / two testers / pauses) through the real handle_client loops and run() of the tcp-lines
         and unix-lines server transports; [E4-only-that-rule]: histories sent in lock-step to the ECU and to its
         twin that offers every service / sub-function (harness.c13_twin), with the model-reading rules switched off;
         spec -> code: the transitions TLC prints for the design layer are replayed into a real
         RandomUDSServer whose `services` is the MC model.
"""

from __future__ import annotations

import asyncio
import json
import random
import re
import time
from concurrent.futures import ThreadPoolExecutor
from typing import Any

import gallia.services.uds.server as srv

from harness import c13_conn as K
from harness import c13_corpus as C
from harness import c13_ecu as E
from harness import c13_replay as R
from harness import c13_twin as T
from harness import tlc, vloop
from harness.common import Machinery, Report, quiet_gallia_logging

_RE_COV = re.compile(r"^<(\w+) line \d+, col \d+ to line \d+, col \d+ of module \w+(?: \([\d ]+\))?>: (\d+):(\d+)", re.M)
DESIGN_ACTIONS = ["Rule_sns", "Rule_msf", "Rule_sfns", "Rule_fmt", "Rule_sc", "Rule_sr", "Rule_tp",
                  "Rule_specific", "Rule_none", "Silent"]


def subsets() -> list[frozenset[str]]:
    out = []
    for bits in range(512):
        out.append(frozenset(r for i, r in enumerate(E.RULES) if bits >> i & 1))
    return out


def one_off() -> list[frozenset[str]]:
    return [E.ALL] + [E.ALL - {r} for r in E.RULES]


# ------------------------------------------------------------------ mutants of the server (binding self-test)
def mutant_servers() -> dict[str, Any]:
    class SuppressNegatives(srv.RandomUDSServer):  # Appendix B: suppression applied to negatives
        def default_response_if_suppress(self, request: Any, response: Any) -> Any:
            if len(request.pdu) >= 2 and request.pdu[1] >= 0x80:
                return None
            return response

    class NoUpdateWhenSuppressed(srv.RandomUDSServer):  # Appendix B: state update skipped when suppressed
        async def respond(self, request: Any) -> Any:
            response = await self.respond_without_state_change(request)
            if response is not None:
                if self.default_response_if_suppress(request, response) is None:
                    return None
                await self.update_state(request, response)
            return response

    class RulesSwapped(srv.RandomUDSServer):  # Appendix B: two rules swapped in the chain
        def default_response_if_service_not_supported(self, request: Any) -> Any:
            r = srv.UDSServer.default_response_if_incorrect_format(self, request)
            return r if r is not None else super().default_response_if_service_not_supported(request)

    return {"suppress-negatives": (SuppressNegatives, "E2/"), "no-update-when-suppressed": (NoUpdateWhenSuppressed, "E3/"),
            "rules-swapped": (RulesSwapped, "E1/")}


# ------------------------------------------------------------------ driving the real code
def pick_sessions(m: C.Model, k: int) -> list[int]:
    others = sorted((s for s in m if s != 1), key=lambda s: (-sum(1 for v in m[s].values() if v is not None), s))
    return [1] + others[:k]


async def drive(tier: str, seed: int, corpus: E.Corpus, exp: R.Export | None, info: dict[str, Any]) -> None:
    quick = tier == "quick"
    rnd = random.Random(seed)
    seeds = range(0, 3) if quick else range(0, 10)
    models: list[tuple[int, str, Any, C.Model]] = []
    for params in E.PARAMS:
        for sd in seeds:
            s = await E.make_server(sd + 17 * seed, params)
            models.append((sd + 17 * seed, params, s, E.model_of(s)))
    info["models"] = [{"seed": sd, "params": pa, "sessions": len(m), "services": sum(len(v) for v in m.values())}
                      for sd, pa, _s, m in models]

    def meta(sd: int, pa: str, origin: str, **kw: Any) -> dict[str, Any]:
        return dict({"seed": sd, "params": pa, "origin": origin}, **kw)

    # -- per model x session: structural family, model-aware valid requests, sampled 2..3 byte payloads,
    #    structured valid requests from the request classes, all 256 sub-function bytes
    for mi_, (sd, pa, s, m) in enumerate(models):
        p = E.Probe(s)
        mi = corpus.model_index(m)
        for sess in pick_sessions(m, 2 if quick else 3):
            items: list[C.Item] = list(C.structural_family(m, sess, rnd))
            items += C.model_aware_valid(m, sess, rnd, 60 if quick else 400)
            items += C.sampled23(rnd, 1 if quick else 4)
            items += C.structured_valid(rnd, 100 if quick else 600)
            items += C.structured_boundary()
            items += C.keep_alive_family(m, sess)
            if not quick or mi_ % 3 == 0:
                items += C.sf256(m, sess)
            p.fresh(E.ALL)
            steps = await C.run_history(p, m, items, home=sess)
            corpus.add(m=mi, B=E.ALL, mode="E", steps=steps, meta=meta(sd, pa, "families", home=sess))
        # "disabling one behaviour": everything on / exactly one off x the full structural family
        for B in one_off()[1:]:
            for sess in pick_sessions(m, 0 if quick else 2):
                if sess != 1 and "sc" not in B:
                    continue
                p.fresh(B)
                steps = await C.run_history(p, m, C.structural_family(m, sess, rnd), home=sess)
                corpus.add(m=mi, B=B, mode="E", steps=steps, meta=meta(sd, pa, "one-off", home=sess))

    # -- exhaustive: every service id x 0..1 payload bytes
    sweep_models = [x for x in models if x[1] == "mandatory"][: (1 if quick else 2)]
    sweep_models += [] if quick else [x for x in models if x[1] == "dense"][:1]
    n_sweep = 0
    for sd, pa, s, m in sweep_models:
        p = E.Probe(s)
        mi = corpus.model_index(m)
        for sess in pick_sessions(m, 0 if quick else 1):
            p.fresh(E.ALL)
            steps = await C.run_history(p, m, list(C.sweep01()), home=sess)
            n_sweep += len(steps)
            corpus.add(m=mi, B=E.ALL, mode="E", steps=steps, meta=meta(sd, pa, "sweep01", home=sess))
    info["sweep01"] = {"models": [(sd, pa) for sd, pa, _s, _m in sweep_models], "steps": n_sweep,
                       "sessions_per_model": 1 if quick else 2}

    # -- all 2^9 switch subsets x reduced structural family
    sub_models = [x for x in models if x[1] == "mandatory"][: (1 if quick else 2)] + \
                 ([] if quick else [x for x in models if x[1] == "dense"][:1] + [x for x in models if x[1] == "default"][:1])
    for sd, pa, s, m in sub_models:
        p = E.Probe(s)
        mi = corpus.model_index(m)
        for sess in pick_sessions(m, 1):
            fam = C.short_family(m, sess)
            for B in subsets():
                if sess != 1 and "sc" not in B:
                    continue
                p.fresh(B)
                steps = await C.run_history(p, m, fam, home=sess, max_nav=3)
                corpus.add(m=mi, B=B, mode="E", steps=steps, meta=meta(sd, pa, "subsets", home=sess))
    info["subsets"] = {"models": [(sd, pa) for sd, pa, _s, _m in sub_models], "switch_sets": 512}

    # -- random histories of length <= 3 under random switch sets
    allB = subsets()
    for sd, pa, s, m in models:
        p = E.Probe(s)
        mi = corpus.model_index(m)
        fam = C.structural_family(m, 1, rnd)
        for _ in range(40 if quick else 600):
            B = rnd.choice(allB)
            p.fresh(B)
            steps = await C.run_history(p, m, rnd.sample(fam, 3))
            corpus.add(m=mi, B=B, mode="E", steps=steps, meta=meta(sd, pa, "hist3"))

    # -- black-box mode (reply before suppression not observed): the contract must decide from
    #    what is sent alone; also guards against the harness hook hiding something
    sd, pa, s0, m = models[0]
    sb = await E.make_server(sd, pa)
    p = E.Probe(sb, hook_pre=False)
    mi = corpus.model_index(m)
    for B in one_off():
        p.fresh(B)
        steps = await C.run_history(p, m, C.structural_family(m, 1, rnd), home=1)
        corpus.add(m=mi, B=B, mode="E", steps=steps, meta=meta(sd, pa, "black-box"))

    # -- spec -> code
    if exp is not None:
        info["spec_to_code"] = await R.replay_export(exp, corpus, stride=1 if quick else 2)
    info["_models"] = models


def mutant_transports() -> dict[str, Any]:
    """Transport variants for the self-tests of the connection family: two that lose the state on a connection event
    (must be rejected with an E3 clause) and one legitimate alternative (falls back after ISO's S3server = 5 s
    instead of 10 s: must be accepted)."""
    class ResetOnHangup(srv.TCPUDSServerTransport):
        async def handle_client(self, reader: Any, writer: Any) -> None:
            try:
                await super().handle_client(reader, writer)
            finally:
                self.server.state.reset()

    class ResetOnConnect(srv.UnixUDSServerTransport):
        async def handle_client(self, reader: Any, writer: Any) -> None:
            self.server.state.reset()
            await super().handle_client(reader, writer)

    class TimeoutS3(srv.TCPUDSServerTransport):
        async def handle_request(self, request_pdu: bytes) -> Any:
            if srv.time() - self.last_time_active >= 5:
                self.server.state.reset()
            return await super().handle_request(request_pdu)

    return {"reset-on-hangup": (ResetOnHangup, "tcp-mem", "E3/"), "reset-on-connect": (ResetOnConnect, "unix-mem", "E3/"),
            "timeout-after-5s": (TimeoutS3, "tcp-mem", None)}


def drive_connections(tier: str, seed: int, corpus: E.Corpus, info: dict[str, Any]) -> None:
    """Histories that span several tester connections (harness.c13_conn): through the real handle_client loop of the
    tcp-lines and the unix-lines server transport on in-memory streams, and through the real run() on real sockets."""
    quick = tier == "quick"
    models = info.pop("_models")
    stats: dict[str, Any] = {"scripts": 0, "steps": 0, "by_flavour": {}, "templates": set(), "reopened": 0,
                             "gaps_state_must_persist": K.GAPS_PERSIST, "gaps_fall_back_admissible": K.GAPS_TIMEOUT}

    def record(mi: int, sd: int, pa: str, fl: str, name: str, gap: int, target: Any, script: K.Script,
               steps: list[dict[str, Any]]) -> None:
        if not steps:
            return
        corpus.add(m=mi, B=E.ALL, mode="E", steps=steps,
                   meta={"seed": sd, "params": pa, "origin": "connections", "flavour": fl, "template": name, "gap": gap,
                         "session": target[0], "script": script})
        stats["scripts"] += 1
        stats["steps"] += len(steps)
        stats["by_flavour"][fl] = stats["by_flavour"].get(fl, 0) + len(steps)
        stats["templates"].add(name)

    async def mem_part() -> None:
        for sd, pa, s, m in models:
            p = E.Probe(s)
            mi = corpus.model_index(m)
            k = 0
            for target in K.targets(m)[: (2 if quick else 3)]:
                for gap in K.GAPS_PERSIST + K.GAPS_TIMEOUT:
                    for name, script in K.scripts_for(m, target, gap).items():
                        fl = K.flavour_for(k)
                        k += 1
                        record(mi, sd, pa, fl, name, gap, target, script, await K.run_script(p, script, fl, stats=stats))

    async def sock_part() -> None:
        # the servers started the way `gallia script vecu` starts them; no suppressed requests (silence could only be
        # told by waiting), no resets
        names = ["reconnect", "handshake-split", "two-testers-one-leaves", "visitor", "dropped-by-server"]
        for sd, pa, s, m in [x for x in models if K.targets(x[3])][: (1 if quick else 3)]:
            p = E.Probe(s)
            mi = corpus.model_index(m)
            target = K.targets(m)[0]
            for fl in ("tcp-run", "unix-run"):
                for gap in (0, 4, 11):
                    S = K.scripts_for(m, target, gap, suppress=False, reset=False)
                    for name in names if gap == 0 else names[:3]:
                        if name in S:
                            record(mi, sd, pa, fl, name, gap, target, S[name],
                                   await K.run_script(p, S[name], fl, stats=stats))

    vloop.run(mem_part())
    asyncio.run(sock_part())
    stats["templates"] = sorted(stats["templates"])
    info["connections"] = stats


async def drive_transport_mutants(seed: int, corpus: E.Corpus) -> dict[str, list[dict[str, Any]]]:
    """Self-test of the connection family (runs on the virtual-time loop)."""
    out: dict[str, list[dict[str, Any]]] = {}
    base = await E.make_server(1 + 17 * seed, "mandatory")
    m = E.model_of(base)
    mi = corpus.model_index(m)
    p = E.Probe(base)
    for name, (cls, fl, _prefix) in mutant_transports().items():
        n0 = len(corpus.traces)
        for target in K.targets(m)[:2]:
            for gap in (0, 4, 11):
                for tname, script in K.scripts_for(m, target, gap).items():
                    steps = await K.run_script(p, script, fl, st_cls=cls)
                    if steps:
                        corpus.add(m=mi, B=E.ALL, mode="E", steps=steps,
                                   meta={"origin": "transport-mutant", "mutant": name, "template": tname, "gap": gap})
        out[name] = corpus.traces[n0:]
    return out


async def drive_mutants(seed: int, corpus: E.Corpus) -> dict[str, list[dict[str, Any]]]:
    """Binding self-test (ii): exchanges of mutated servers (added to `corpus`, validated by the caller)."""
    out: dict[str, list[dict[str, Any]]] = {}
    rnd = random.Random(seed)
    base = await E.make_server(1 + 17 * seed, "mandatory")
    m = E.model_of(base)
    mi = corpus.model_index(m)
    for name, (cls, _prefix) in mutant_servers().items():
        mut = cls(base.seed, base.randomness_parameters)
        mut.services = base.services
        p = E.Probe(mut)
        n0 = len(corpus.traces)
        for sess in pick_sessions(m, 1):
            p.fresh(E.ALL)
            steps = await C.run_history(p, m, C.structural_family(m, sess, rnd), home=sess)
            corpus.add(m=mi, B=E.ALL, mode="E", steps=steps, meta={"origin": "mutant", "mutant": name})
        out[name] = corpus.traces[n0:]
    return out


# ------------------------------------------------------------------ the check
def run(tier: str, seed: int) -> Report:
    quiet_gallia_logging()
    E.patch_env(seed)
    quick = tier == "quick"
    rep = Report("C13", tier, seed)
    rep.rule = ("one evaluation = one request sent to a real RandomUDSServer through UDSServerTransport.handle_request "
                "(or over a tester connection served by the real TCP/Unix server transport) "
                "and judged by TLC (Trace_VEcu, clauses E1..E4); distinct = distinct (model, switch set, state before, "
                "request bytes); non-trivial = the answer is anything but serviceNotSupported for a service id the "
                "model does not know")
    rep.assumptions = [
        "the 10 s inactivity reset of UDSServerTransport is kept out of play: gallia.services.uds.server.time is "
        "replaced by a clock in the harness process that stands still unless a history advances it (keep-alive and "
        "connection histories)",
        "histories over several tester connections: a pause shorter than ISO 14229-2's S3server (5 s) between two "
        "requests must leave the state alone whatever happened to connections meanwhile; from 5 s on both keeping the "
        "state and falling back to the power-on state are accepted (gallia's virtual ECU uses 10 s)",
        "RNG() without seeds (the security seed) is made reproducible by a counter-seeded subclass installed as "
        "gallia.services.uds.server.RNG in the harness process; seeded uses are untouched",
        "'parsable' is the verdict of gallia's own request codec (UDSRequest.parse_dynamic is not a RawRequest), taken "
        "in two pristine interpreters (opposite classification orders, must agree) and overruled by the ISO 14229-1 "
        "length rules where the standard fixes the length; that codec is the subject of C01",
        "the reply before suppression is read by wrapping the bound method respond_without_state_change of the "
        "server instance; a black-box family without that hook is validated as well",
        "security level numbering is gallia's (level = SendKey sub-function - 1); default session = 1",
        "a history starts from a freshly constructed state object (type(server.state)()), as after start-up",
        "spec -> code: after a state has been reached by real requests once, it is restored by assignment before "
        "each of the requests tried in it",
        "[E4-only-that-rule]: the twin is a second RandomUDSServer(seed, parameters) whose `services` is assigned a "
        "model that offers every service and sub-function in every visited session (DiagnosticSessionControl "
        "untouched); only the kind of reply (none / positive / negative + response code) and the state after are "
        "compared, and only where a disabled model-reading rule would have answered",
    ]
    phases: dict[str, float] = {}
    t_last = [time.time()]

    def mark(name: str) -> None:  # informational only (evidence), never used for a verdict
        now = time.time()
        phases[name] = round(now - t_last[0], 1)
        t_last[0] = now

    rep.extra["phase_s"] = phases
    pool = ThreadPoolExecutor(max_workers=3)
    # ---- 1. model checking (runs concurrently with the driving of the real code)
    mc_jobs = {
        "MC_VEcu_cov": pool.submit(tlc.run_tlc, "MC_VEcu", "MC_VEcu_cov.cfg", coverage=True, timeout=900,
                                   workers=2, parse_prints=False),
        "MC_VEcu_oneoff": pool.submit(tlc.run_tlc, "MC_VEcu", "MC_VEcu_oneoff.cfg", timeout=1500,
                                      workers=4, parse_prints=False),
        "MC_VEcu_devS20": pool.submit(tlc.run_tlc, "MC_VEcu", "MC_VEcu_devS20.cfg", timeout=900, workers=1,
                                      parse_prints=False),
        "MC_VEcu_devS20b": pool.submit(tlc.run_tlc, "MC_VEcu", "MC_VEcu_devS20b.cfg", timeout=900, workers=1,
                                       parse_prints=False),
    }
    allcfg = "MC_VEcu_allq" if quick else "MC_VEcu_all"
    mc_jobs[allcfg] = pool.submit(tlc.run_tlc, "MC_VEcu", allcfg + ".cfg", timeout=3000, workers=6,
                                  parse_prints=False)
    # ---- 2. spec -> code cases
    expcfg = "MC_VEcu_export.cfg" if quick else "MC_VEcu_exportall.cfg"
    # one short PrintT line per transition (println is atomic), so several workers are safe;
    # a garbled line would be a Machinery failure in Export, never a silent loss
    eres = tlc.run_tlc("MC_VEcu", expcfg, timeout=3000, workers=1 if quick else 4, parse_prints=False)
    rep.add_tlc(eres, expcfg + " (transition export)")
    if not eres.ok:
        raise Machinery(f"export run violated {eres.violated}")
    exp = R.Export(eres.out)
    mark("export")
    # ---- 3. drive the real code
    corpus = T.TwinCorpus()
    info: dict[str, Any] = {}
    asyncio.run(drive(tier, seed, corpus, exp, info))
    mark("drive")
    asyncio.run(T.drive_twins(tier, seed, corpus, info["_models"], info))
    mark("drive-twins")
    drive_connections(tier, seed, corpus, info)
    mark("drive-connections")
    # ground truth for "parsable": the codec's verdict taken in pristine interpreters, not in this process (which
    # has parsed everything above in some order); the two orders must agree with each other
    truth, disagree = E.pristine_verdicts([s["hex"] for t in corpus.traces for s in t["steps"]])
    for d in disagree[:20]:
        rep.violate("E0/the-same-request-is-classified-differently-depending-on-what-was-parsed-before",
                    {"sid": int(d["hex"][:2], 16)}, d)
    repinned = 0
    for t in corpus.traces:
        for s in t["steps"]:
            pdu = bytes.fromhex(s["hex"])
            want = False if E.iso_wellformed(pdu) is False else truth[s["hex"]]
            if s["p"] != want:
                repinned += 1
                s["p"] = want
            if "t" in s:  # the twin's exchange carried by the step
                tp = bytes.fromhex(s["t"]["hex"])
                s["t"]["p"] = False if E.iso_wellformed(tp) is False else truth[s["t"]["hex"]]
    rep.extra["parsable_ground_truth"] = {"distinct_requests": len(truth), "order_disagreements": len(disagree),
                                          "differs_from_in_process_verdict": repinned}
    mark("pristine-classification")
    # ---- 4. TLC validates every exchange
    verdicts = corpus.validate(parallel=6, steps_per_batch=36000)
    for res in corpus.tlc_results:
        rep.add_tlc(res, "Trace_VEcu batch")
    mark("validate")
    # [E4-only-that-rule]: how many exchanges TLC really held against their twin (a family that compares nothing
    # would be vacuous); informational split by the rules that were off
    tw = corpus.twin_counts()
    by_off: dict[str, int] = {}
    for t in corpus.traces:
        if "m2" in t:
            off = set(E.RULES) - set(t["B"])
            k = "+".join(r for r in ("sns", "sfns") if r in off) + (" only" if off <= {"sns", "sfns"} else " and others")
            by_off[k] = by_off.get(k, 0) + tw.get(t["id"], 0)
    info["only_that_rule"]["compared_with_twin"] = sum(by_off.values())
    info["only_that_rule"]["compared_by_rules_off"] = by_off
    if min([by_off.get("sns only", 0), by_off.get("sfns only", 0), by_off.get("sns+sfns only", 0)]) < 20:
        raise Machinery(f"[E4-only-that-rule] family is (nearly) vacuous: exchanges compared with the twin: {by_off}")
    rep.traces = len(corpus.traces)
    rep.evaluations = corpus.n_steps
    by_id = {t["id"]: t for t in corpus.traces}
    model_by_idx = {}
    for mj_i, mj in enumerate(corpus.models, start=1):
        model_by_idx[mj_i] = {s: {e["sid"]: (e["subs"] if e["sf"] else None) for e in row}
                              for s, row in zip(mj["sess"], mj["svcs"])}
    unspecified = 0
    agg: dict[str, dict[str, Any]] = {}
    bad_steps: set[tuple[int, int]] = set()
    for tid, (verdict, bad, uns) in verdicts.items():
        unspecified += uns
        t = by_id[tid]
        for idx, label in bad:
            bad_steps.add((tid, idx))
            m = model_by_idx[t["m"]]
            sig = E.sig_of(m, t, idx, label)
            key = json.dumps([label, sig], sort_keys=True)
            a = agg.setdefault(key, {"label": label, "sig": sig, "n": 0, "detail": None})
            a["n"] += 1
            if a["detail"] is None or len(t["B"]) > len(a["detail"]["B"]):
                lo = idx - 1 if t["indep"] else max(0, idx - 12)
                start = t["init"] if lo == 0 or t["indep"] else {"s": t["steps"][lo - 1]["s"], "l": t["steps"][lo - 1]["l"]}
                a["detail"] = {"meta": t["meta"], "B": t["B"], "start_state": start,
                               "requests": [s["hex"] for s in t["steps"][lo:idx]],
                               "failing": dict({k: t["steps"][idx - 1][k] for k in ("rhex", "x", "s", "l", "pk")},
                                               hex=t["steps"][idx - 1]["hex"][:64],
                                               **({"twin": {k: t["steps"][idx - 1]["t"][k]
                                                            for k in ("hex", "rhex", "x", "s", "l", "bs", "bl")}}
                                                  if "t" in t["steps"][idx - 1] else {})),
                               "mc_model": bool(t["meta"].get("mc", False))}
    for a in agg.values():
        a["detail"]["occurrences"] = a["n"]
        rep.violate(a["label"], a["sig"], a["detail"])
    rep.extra["unspecified"] = unspecified
    # non-trivial / distinct cases
    for t in corpus.traces:
        prev = t["init"]["s"]
        bk = ",".join(t["B"])
        for s in t["steps"]:
            if not (s["vk"] == "bytes" and s["vn"] == 3 and s["vb"][0] == 0x7F and s["vb"][2] == 0x11):
                rep.nontrivial.add(hash((t["m"], bk, prev, s["hex"])))
            if not t["indep"]:
                prev = s["s"]
    for t in (corpus.traces[0], corpus.traces[len(corpus.traces) // 2]):
        rep.sample({"model": t["meta"], "B": t["B"], "exchanges": [(s["hex"][:32], s["rhex"], s["s"], s["l"])
                                                                     for s in t["steps"][:8]]})
    origins: dict[str, int] = {}
    for t in corpus.traces:
        origins[t["meta"]["origin"]] = origins.get(t["meta"]["origin"], 0) + len(t["steps"])
    rep.extra["steps_by_origin"] = origins
    rep.extra.update(info)
    rep.exhaustive = True
    rep.extra["exhaustive_spaces"] = (
        "every service id 0..0xFF with 0 and 1 payload bytes (65 792 requests) for the models/sessions listed under "
        "sweep01; all 2^9 switch subsets x the reduced structural family for the models under subsets; every "
        "transition of the MC design model for the switch family of " + expcfg)
    # spec -> code: drift = design disagreements whose exchange TLC accepted
    s2c = info.get("spec_to_code", {"stats": {}, "disagreements": []})
    bad_traces = {tid for tid, _i in bad_steps}
    drift = [d for d in s2c["disagreements"]
             if (d["step"] is not None and (d["trace"], d["step"]) not in bad_steps)
             or (d["step"] is None and d["trace"] not in bad_traces)]
    for d in drift:
        rep.drift.append(d)
    rep.extra["spec_to_code"] = dict(s2c["stats"], design_disagreements=len(s2c["disagreements"]), drift=len(drift),
                                     exported_transitions=exp.n, switch_sets=len(exp.trans))
    # ---- 5. collect the model checking runs
    for name, job in mc_jobs.items():
        res = job.result()
        neg = name in ("MC_VEcu_devS20", "MC_VEcu_devS20b")
        rep.add_tlc(res, name + (" (negative control)" if neg else ""))
        if neg:
            if res.violated != "E4_NoRaise":
                raise Machinery(f"negative control {name} did not violate E4_NoRaise (got {res.violated}): "
                                "the contract is vacuous")
        elif not res.ok:
            rep.violate(f"design/{res.violated}", {"where": "VEcu design layer", "cfg": name},
                        {"cex": res.cex[-4:], "out": res.out[-1500:]})
        if name == "MC_VEcu_cov":
            cov = {mm.group(1): int(mm.group(3)) for mm in _RE_COV.finditer(res.out)}
            never = [a for a in DESIGN_ACTIONS if cov.get(a, 0) == 0]
            rep.extra["design_action_coverage"] = {a: cov.get(a, 0) for a in DESIGN_ACTIONS + ["Raises"]}
            if never:
                raise Machinery(f"design actions never taken in MC_VEcu_cov: {never}")
    pool.shutdown()
    mark("model-checking (tail)")
    # ---- 6. binding self-tests: (i) corrupted traces, (ii) mutated servers -- one TLC run
    n_real = len(corpus.traces)
    corrupted = corrupt_traces(corpus, verdicts)
    if len(corrupted) < 4 and not rep.violations:
        raise Machinery(f"binding self-test: no accepted exchange to corrupt for some field "
                        f"(have {[k for k, _c in corrupted]})")
    mutants = asyncio.run(drive_mutants(seed, corpus))
    tmutants = vloop.run(drive_transport_mutants(seed, corpus))
    variants = asyncio.run(T.drive_variants(seed, corpus))
    sv = corpus.validate([c for _k, c in corrupted] + [t for ts in mutants.values() for t in ts]
                         + [t for ts in tmutants.values() for t in ts] + [t for ts in variants.values() for t in ts],
                         parallel=1, steps_per_batch=10**9)
    del corpus.traces[n_real:]
    cor = {k: sv[c["id"]][0] for k, c in corrupted}
    if any(x == "ok" for x in cor.values()):
        raise Machinery(f"binding self-test: corrupted traces accepted: {cor}")
    mres: dict[str, list[str]] = {}
    for name, (_cls, prefix) in mutant_servers().items():
        labels = sorted({lab for t in mutants[name] for _i, lab in sv[t["id"]][1]})
        mres[name] = labels
        if not any(lab.startswith(prefix) for lab in labels):
            if rep.violations:  # the tree under test is itself broken: report that, not the self-test
                mres[name] = labels + ["inconclusive: the tree under test already violates the contract"]
                continue
            raise Machinery(f"binding self-test: server mutant '{name}' not rejected with a {prefix} clause "
                            f"(labels: {labels}): the contract / corpus is too weak")
    for name, (_cls, _fl, prefix) in mutant_transports().items():
        labels = sorted({lab for t in tmutants[name] for _i, lab in sv[t["id"]][1]})
        mres[name] = labels
        if rep.violations:  # the tree under test is itself broken: report that, not the self-test
            continue
        if prefix is None and labels:
            raise Machinery(f"binding self-test: the legitimate transport variant '{name}' is rejected ({labels}): "
                            "the contract demands more than the statement")
        if prefix is not None and not any(lab.startswith(prefix) for lab in labels):
            raise Machinery(f"binding self-test: transport mutant '{name}' not rejected with a {prefix} clause "
                            f"(labels: {labels}): the connection family / contract is too weak")
    # [E4-only-that-rule]: servers whose remaining stages consult the premise of a disabled rule must be rejected,
    # a dispatcher of another structure must be accepted
    for name, (_cls, prefix) in T.variant_servers().items():
        labels = sorted({lab for t in variants[name] for _i, lab in sv[t["id"]][1]})
        mres[name] = labels
        if rep.violations:
            continue
        if prefix is None and labels:
            raise Machinery(f"binding self-test: the legitimate server variant '{name}' is rejected ({labels}): "
                            "the twin clause demands more than the statement")
        if prefix is not None and not any(lab.startswith(prefix) for lab in labels):
            raise Machinery(f"binding self-test: server variant '{name}' not rejected with a {prefix} clause "
                            f"(labels: {labels}): the twin family / clause is too weak")
    rep.extra["binding_selftest"] = {"corrupted": cor, "server_mutants": mres}
    mark("selftests")
    E.unpatch_env()
    return rep


def corrupt_traces(corpus: E.Corpus, verdicts: dict[int, tuple[str, list[tuple[int, str]], int]]) -> list[tuple[str, dict[str, Any]]]:
    """(i) one field of an accepted trace corrupted, four ways: TLC must reject each."""
    want: dict[str, Any] = {"nrc": None, "state": None, "unsuppress": None, "suppress-negative": None}
    for t in corpus.traces:
        if t["B"] != sorted(E.ALL) or t["steps"][0]["pk"] == "unknown" or t["indep"]:
            continue
        bad = verdicts[t["id"]][1]
        upto = (min(j for j, _l in bad) - 1) if bad else len(t["steps"])   # accepted prefix
        for i, s in enumerate(t["steps"][:upto]):
            neg = s["vk"] == "bytes" and s["vn"] == 3 and s["vb"][0] == 0x7F
            if want["nrc"] is None and neg and s["vb"][2] in (0x11, 0x7F, 0x12, 0x7E, 0x13):
                c = json.loads(json.dumps(t)); c["steps"] = c["steps"][: i + 1]
                c["steps"][i]["vb"][2] = c["steps"][i]["pb"][2] = 0x31
                want["nrc"] = c
            if want["state"] is None and s["q"][0] == 0x10 and s["pk"] == "bytes" and s["pb"][0] == 0x50:
                c = json.loads(json.dumps(t)); c["steps"] = c["steps"][: i + 1]
                c["steps"][i]["s"] = (s["s"] % 0x7E) + 1
                want["state"] = c
            if want["unsuppress"] is None and s["vk"] == "none" and s["pk"] == "bytes":
                c = json.loads(json.dumps(t)); c["steps"] = c["steps"][: i + 1]
                c["steps"][i].update(vk="bytes", vn=s["pn"], vb=s["pb"])
                want["unsuppress"] = c
            if want["suppress-negative"] is None and neg and s["n"] >= 2 and s["q"][1] >= 0x80:
                c = json.loads(json.dumps(t)); c["steps"] = c["steps"][: i + 1]
                c["steps"][i].update(vk="none", vn=0, vb=[])
                want["suppress-negative"] = c
        if all(v is not None for v in want.values()):
            break
    out = []
    for j, (k, c) in enumerate(want.items()):
        if c is None:
            continue
        c["id"] = 10**7 + j
        out.append((k, c))
    return out


def replay(path: str) -> int:
    quiet_gallia_logging()
    data = json.loads(open(path).read())
    E.patch_env(int(data.get("seed", 0)))

    async def go() -> int:
        bad = 0
        exp_model: C.Model | None = None
        for v in data["violations"]:
            d = v["detail"]
            meta = d["meta"]
            if meta.get("mc"):
                if exp_model is None:
                    er = tlc.run_tlc("MC_VEcu", "MC_VEcu_export.cfg", timeout=1500, workers=1, parse_prints=False)
                    exp_model = R.Export(er.out).model
                s = srv.RandomUDSServer(0)
                s.services = R.concretise(exp_model)
                m = exp_model
            else:
                s = await E.make_server(meta["seed"], meta["params"])
                m = E.model_of(s)
            if meta.get("origin") == T.ORIGIN:  # ECU and twin in lock-step: re-run the whole pair of histories
                verdict, badsteps, so = await asyncio.to_thread(lambda: asyncio.run(T.replay_case(meta, set(d["B"]))))
                shown = [(x["hex"][:16], x["rhex"], (x["s"], x["l"]), "twin:", x["t"]["rhex"], (x["t"]["s"], x["t"]["l"]))
                         for x in (so[i - 1] for i, _l in badsteps[:3])]
                print(f"replay only-that-rule B-off={sorted(set(E.RULES) - set(d['B']))} home={meta['home']} "
                      f"differs={shown} verdict={verdict}")
                bad += verdict != "ok"
                continue
            if meta.get("origin") == "connections":  # a history over several connections: re-run the whole script
                fl = meta["flavour"]
                p = E.Probe(s)
                runner = vloop.run if fl.endswith("-mem") else asyncio.run  # a loop of its own, in a thread of its own
                steps = await asyncio.to_thread(lambda: runner(K.run_script(p, meta["script"], fl, set(d["B"]))))
                c = K.ConnCorpus()
                c.add(m=c.model_index(m), B=set(d["B"]), mode="E", steps=steps, meta={})
                verdict, badsteps, _u = c.validate(parallel=1)[0]
                print(f"replay connections flavour={fl} template={meta['template']} gap={meta['gap']}s "
                      f"exchanges={[(x['hex'][:16], x['rhex'], x['s'], x['l']) for x in steps[:badsteps[0][0] if badsteps else 4][-4:]]} "
                      f"verdict={verdict}")
                bad += verdict != "ok"
                continue
            p = E.Probe(s)
            p.fresh(set(d["B"]))
            s.state.session = d["start_state"]["s"]
            s.state.security_access_level = None if d["start_state"]["l"] < 0 else d["start_state"]["l"]
            steps = [await p.exchange(bytes.fromhex(h)) for h in d["requests"]]
            c = E.Corpus()
            c.add(m=c.model_index(m), B=set(d["B"]), mode="E", steps=steps, meta={},
                  init=(d["start_state"]["s"], d["start_state"]["l"]))
            res = c.validate(parallel=1)
            verdict, badsteps, _u = res[0]
            print(f"replay B-off={sorted(set(E.RULES) - set(d['B']))} requests={[h[:24] for h in d['requests'][-4:]]} "
                  f"reply={steps[-1]['rhex']} raised={steps[-1]['x'] or '-'} verdict={verdict}")
            bad += verdict != "ok"
        return bad

    bad = asyncio.run(go())
    E.unpatch_env()
    if bad:
        print(f"VIOLATION property=C13 replay={path}")
        return 1
    return 0
