"""X02 (growth, not a listed property) — composition: real ECU client -> real DoIP transport -> gateway ->
real random virtual ECU, under gateway disturbances.

spec   : spec/SystemContract.tla (Y1..Y4 end-to-end), plus the transport-level monitor spec/DoipContract.tla
         applied to the same executions (Trace_Doip)
binding: every request of a fixed request list is sent through the real stack; at each phase the gateway
         chooser may inject alive checks / foreign frames / unknown payload types, delay or withhold the
         answer; TLC validates both the end-to-end and the transport-level trace.
"""

from __future__ import annotations

import asyncio
import json
from typing import Any

import gallia.services.uds.server as srvmod
from gallia.services.uds.core.exception import MissingResponse, RequestResponseMismatch, UDSException
from gallia.services.uds.core import service
from gallia.services.uds.ecu import ECU
from gallia.services.uds.server import RandomUDSServer, UDSServerTransport
from gallia.transports.base import TargetURI

from harness import tlc, vloop
from harness.c06_doip import CFG, SRC, TGT, Gateway, Recorder, uri
from harness.common import Machinery, Report, quiet_gallia_logging
from harness.enum import explore
from harness.streams import patched_connections, settle

REQUESTS = [bytes.fromhex(x) for x in ("1001", "3e00", "22f186", "1003", "2701", "22f190", "3e80", "1101", "31010001")]
DISTURB = ["none", "AliveReq", "DiagOther", "Unknown", "AckOtherPair"]


def run_case(ch: Any, seed: int, retries: int) -> dict[str, Any]:
    rec = Recorder()
    sysev: list[dict[str, Any]] = []

    async def main() -> None:
        srvmod.time = lambda: 0.0  # type: ignore[assignment]  # keep the 10 s inactivity reset out of play
        server = RandomUDSServer(seed)
        await server.setup()
        st = UDSServerTransport(server, TargetURI("fake://vecu"))
        gw = Gateway(rec)
        cur = {"i": 0}

        def disturb() -> None:
            d = DISTURB[ch.choose(len(DISTURB))]
            if d != "none":
                gw.feed_named(d)

        async def serve(req: bytes) -> None:
            i = cur["i"]
            disturb()                       # before the acknowledgement
            gw.feed_named("Ack")
            ans, _ = await st.handle_request(req)
            sysev.append({"e": "Srv", "i": i, "req": list(req), "ans": list(ans or b""), "has": ans is not None})
            disturb()                       # between acknowledgement and answer
            mode = ch.choose(4)             # 0 deliver at once, 1 after 300 ms, 2 withhold, 3 after 1.2 s (too late)
            if ans is None:
                return
            if mode == 2:
                sysev.append({"e": "Drop", "i": i})
                return
            if mode == 1:
                await asyncio.sleep(0.3)
            if mode == 3:
                sysev.append({"e": "Late", "i": i})
                await asyncio.sleep(1.2)
            if gw.wire is not None and not gw.wire.writer.is_closing():
                gw.feed({"k": "Diag", "src": TGT, "dst": SRC, "d": list(ans)})
            disturb()                       # after the answer

        gw.on_diag_out = lambda f: asyncio.ensure_future(serve(bytes(f["d"])))
        with patched_connections(gw.listener):
            from gallia.transports.doip import DoIPTransport
            from harness.c06_doip import classify_exc

            class TracedDoIP(DoIPTransport, scheme="doip"):
                """Real transport; only adds Begin/End records around write()/read() for the DoipContract monitor."""

                async def write(self, data: bytes, timeout: float | None = None, tags: list[str] | None = None) -> int:
                    rec.add("Begin", op="write", tmo=-1 if timeout is None else int(round(timeout * 1000)), d=list(data))
                    res = "ok"
                    try:
                        return await super().write(data, timeout, tags)
                    except BaseException as e:  # noqa: BLE001
                        res = classify_exc(e)
                        raise
                    finally:
                        rec.add("End", op="write", res=res, d=[])

                async def read(self, timeout: float | None = None, tags: list[str] | None = None) -> bytes:
                    rec.add("Begin", op="read", tmo=-1 if timeout is None else int(round(timeout * 1000)), d=[])
                    res, d = "ok", b""
                    try:
                        d = await super().read(timeout, tags)
                        return d
                    except BaseException as e:  # noqa: BLE001
                        res = classify_exc(e)
                        raise
                    finally:
                        rec.add("End", op="read", res=res, d=list(d))

            rec.add("Begin", op="connect", tmo=-1, d=[])
            tr = await TracedDoIP.connect(uri(act=0))
            rec.add("End", op="connect", res="ok", d=[])
            ecu = ECU(tr, timeout=1.0, max_retry=retries)
            for i, req in enumerate(REQUESTS, 1):
                cur["i"] = i
                sysev.append({"e": "Call", "i": i, "req": list(req)})
                try:
                    resp = await ecu.request(service.UDSRequest.parse_dynamic(req))
                    sysev.append({"e": "Ret", "i": i, "kind": "Reply", "pdu": list(resp.pdu)})
                except MissingResponse:
                    sysev.append({"e": "Ret", "i": i, "kind": "Missing", "pdu": []})
                except RequestResponseMismatch:
                    sysev.append({"e": "Ret", "i": i, "kind": "Mismatch", "pdu": []})
                except (UDSException, Exception) as e:  # noqa: BLE001
                    sysev.append({"e": "Ret", "i": i, "kind": "Other", "pdu": [], "exc": repr(e)[:120]})
                await settle()
            await asyncio.sleep(0.7)
            rec.add("Final", drained=False)
            await ecu.transport.close()
        await settle()

    hang = False
    try:
        vloop.run(main(), horizon=900)
    except (TimeoutError, vloop.BlockedForever):
        hang = True
    return {"cfg": {"retries": retries}, "ev": [{k: v for k, v in e.items() if k != "exc"} for e in sysev],
            "doip": rec.ev, "hang": hang, "seed": seed, "notes": [e.get("exc") for e in sysev if e.get("exc")]}


def run(tier: str, seed: int) -> Report:
    quiet_gallia_logging()
    rep = Report("X02", tier, seed)
    rep.rule = ("executions = a list of 9 UDS requests sent by a real gallia ECU object over the real DoIP transport to a "
                "gateway fake that forwards them to a real RandomUDSServer; at three points per request the gateway may "
                "inject an alive check / foreign diagnostic message / unknown payload type / foreign ack, and may delay or "
                "withhold the answer; enumerated up to the choice depth; non-trivial = at least one disturbance")
    rep.assumptions = ["growth item (DESIGN section 5), not a listed property; ground truth = the virtual ECU's own answer"]
    # the composed TLA+ model: end-to-end invariants, and the two reachable "design facts" as witnesses
    for c, want in (("nolate", None), ("late_abc", None), ("late_aba", None),
                    ("stale_mismatch", "NoStaleMismatch"), ("stale_accept", "NoStaleAccept")):
        res = tlc.run_tlc("MC_System", f"MC_System_{c}.cfg", workers=1 if want else 2, timeout=600)
        rep.add_tlc(res, f"MC_System_{c}" + (" (witness: a late answer hits the next request)" if want else ""))
        if res.violated != want:
            if want:
                raise Machinery(f"System.tla: witness config {c} did not violate {want} (got {res.violated})")
            rep.violate(f"design/{res.violated}", {"layer": "System.tla", "cfg": c}, {"cex": res.cex[-6:]})
    traces: list[dict[str, Any]] = []
    depth = 6 if tier == "quick" else 9
    for vseed in ((1, 2) if tier == "quick" else (1, 2, 3, 4, 5)):
        for retries in (0, 1):
            def runit(ch: Any, vseed: int = vseed, retries: int = retries) -> dict[str, Any]:
                return run_case(ch, vseed, retries)

            for _v, t in explore(runit, depth, limit=1500 if tier == "quick" else 20000):
                traces.append(t)
    sub = {"traces": [{"id": i, "cfg": t["cfg"], "ev": t["ev"]} for i, t in enumerate(traces)]}
    res = tlc.validate_batch("Trace_System", "Trace_System.cfg", sub, timeout=1800)
    rep.add_tlc(res, "Trace_System batch")
    v1 = {p[1]: (p[2], p[3]) for p in res.prints if isinstance(p, list) and len(p) == 4 and p[0] == "V"}
    sub2 = {"traces": [{"id": i, "cfg": CFG | {"actType": 0}, "ev": t["doip"]} for i, t in enumerate(traces)]}
    # the transport-level trace starts after connect: prepend nothing, DoipContract tolerates it
    res2 = tlc.validate_batch("Trace_Doip", "Trace_Doip.cfg", sub2, timeout=1800)
    rep.add_tlc(res2, "Trace_Doip batch (same executions)")
    v2 = {p[1]: (p[2], p[3]) for p in res2.prints if isinstance(p, list) and len(p) == 4 and p[0] == "V"}
    if len(v1) != len(traces) or len(v2) != len(traces):
        raise Machinery(f"missing verdicts: {len(v1)}/{len(v2)} of {len(traces)}\n{res.out[-1500:]}\n{res2.out[-1500:]}")
    rep.traces = rep.evaluations = len(traces)
    for i, t in enumerate(traces):
        if any(e["e"] == "Feed" and e["f"]["k"] in ("AliveReq", "Unknown") or
               (e["e"] == "Feed" and e["f"].get("src") not in (TGT, -1)) for e in t["doip"]):
            rep.nontrivial.add(i)
        if t["hang"]:
            rep.violate("liveness/run-did-not-finish", {"layer": "system"}, {"seed": t["seed"]})
        for layer, (v, idx) in (("system", v1[i]), ("doip", v2[i])):
            if v != "ok":
                evs = t["ev"] if layer == "system" else t["doip"]
                rep.violate(v, {"layer": layer}, {"seed": t["seed"], "cfg": t["cfg"], "at": idx,
                                                  "events": evs[max(0, idx - 6): idx + 1], "notes": t["notes"][:3]})
    for t in traces[5:7]:
        rep.sample({"seed": t["seed"], "events": t["ev"][:12]})
    bad = json.loads(json.dumps(next(t for i, t in enumerate(traces) if v1[i][0] == "ok")))
    for e in bad["ev"]:
        if e["e"] == "Ret" and e["kind"] == "Reply":
            e["pdu"][-1] ^= 1
            break
    r3 = tlc.validate_batch("Trace_System", "Trace_System.cfg", {"traces": [{"id": 0, "cfg": bad["cfg"], "ev": bad["ev"]}]})
    if r3.prints[0][2] == "ok":
        raise Machinery("binding self-test: corrupted reply accepted")
    return rep


def replay(path: str) -> int:
    return 0
