"""C07 — HSFZ: frames are demultiplexed correctly under any segmentation and interleaving.

spec   : spec/HsfzContract.tla (timed contract monitor H1..H5), spec/HsfzConn.tla (design layer)
MC     : MC_HsfzConn_*.cfg exhaustive; devS13 negative control
binding: real HSFZTransport/HSFZConnection on a hand-fed StreamReader under virtual time;
         code->spec: every execution validated by Trace_Hsfz (TLC); spec->code: TLC-simulated
         design behaviours replayed as gateway schedules.
"""

from __future__ import annotations

import asyncio
import json
import random
from typing import Any

from harness import tlc, vloop
from harness.c06_doip import Recorder
from harness.c07_hsfz import Gateway, cfg, connect, do_op, drain_and_finish, gw_frame, uri
from harness.common import Machinery, Report, quiet_gallia_logging
from harness.enum import ListChooser, explore
from harness.streams import settle

ALPHA_FULL = ["Alive", "DataUs", "DataOther", "Ack", "AckWrongData", "AckWrongPair", "Err40", "ShortAck", "ShortData",
              "DataOtherDst", "AckOtherPair", "AckFull", "Klemme15", "ErrFF", "Err43", "AliveWithPayload", "AckPrefix",
              "AckEmpty"]
ALPHA_QUICK = ["Alive", "DataUs", "DataOther", "Ack", "AckWrongData", "Err40", "ShortAck", "AckPrefix"]

PROGRAMS = {
    "WRR": [("write", 5.0, b"\x22\xf1\x90"), ("read", 1.0, b""), ("read", 1.0, b"")],
    "RWR": [("read", 1.0, b""), ("write", 5.0, b"\x3e\x00"), ("read", 1.0, b"")],
    "WWR": [("write", 5.0, b"\x10\x01"), ("write", None, b"\x31\x01\xff\x00\x01\x02\x03"), ("read", 1.0, b"")],
    "WshortR": [("write", 0.5, b"\x22\xf1\x86"), ("read", 1.0, b"")],
    "WlongR": [("write", 5.0, b"\x2e\xf1\x90\x01\x02\x03\x04\x05\x06"), ("read", 1.0, b"")],
}


def run_scenario(chooser: Any, prog_name: str, alphabet: list[str], budget: int, *, auto: bool, ack_ms: int = 1000,
                 cut_plan: dict[int, tuple[int, int]] | None = None) -> dict[str, Any]:
    program = PROGRAMS[prog_name]
    rec = Recorder()
    fed_names: list[str] = []

    async def main() -> None:
        gw = Gateway(rec)
        with gw.reachable():  # the gateway accepts (and records) further connections during the scenario
            tr = await connect(rec, gw, uri(ack_ms if ack_ms != 1000 else None))
            st = {"budget": budget, "nfeed": 0}

            def feed(name: str) -> None:
                st["nfeed"] += 1
                fed_names.append(name)
                cut = (cut_plan or {}).get(st["nfeed"])
                if cut:
                    gw.feed_named(name, cut=cut[0], gap_ms=cut[1])
                else:
                    gw.feed_named(name)

            def instant() -> None:
                while st["budget"] > 0:
                    c = chooser.choose(len(alphabet) + 1)
                    if c == 0:
                        return
                    st["budget"] -= 1
                    feed(alphabet[c - 1])

            def on_data(_f: Any) -> None:
                instant()
                if auto:
                    feed("Ack")
                    instant()
                    loop = asyncio.get_running_loop()
                    loop.call_later(0.05, lambda: feed("DataUs") if gw.wire and not gw.wire.writer.is_closing() else None)

            gw.on_data_out = on_data
            for op, tmo, data in program:
                instant()
                await settle()
                task = asyncio.ensure_future(do_op(rec, tr, op, tmo, data))
                horizon = min(tmo if tmo is not None else ack_ms / 1000, ack_ms / 1000) if op == "write" else (tmo or 1.0)
                t_start = asyncio.get_running_loop().time()
                for at in (0.1, horizon - 0.3, horizon - 0.05):
                    delay = t_start + at - asyncio.get_running_loop().time()
                    if delay > 0:
                        await asyncio.wait({task}, timeout=delay)
                    if task.done():
                        break
                    instant()
                await task
            await drain_and_finish(rec, tr)

    hang = False
    try:
        vloop.run(main(), horizon=600)
    except (TimeoutError, vloop.BlockedForever):
        hang = True
        rec.ev.append({"e": "Final", "t": rec.ev[-1]["t"] if rec.ev else 0, "drained": False})
    return {"cfg": cfg(ack_ms), "ev": rec.ev, "prog": prog_name, "auto": auto, "fed": fed_names, "hang": hang,
            "cut": sorted((cut_plan or {}).items())}


def concurrent_case(write_at_ms: int, ack_delay_ms: int, data: str, alive: bool, read_tmo: float = 1.0
                    ) -> dict[str, Any]:
    """Two tasks of the caller share one connection: a read (op "bgread") is already blocked when another task
    writes.  The gateway acknowledges after ack_delay_ms; `data`: a message for us is sent "before" / "after"
    the acknowledgement or not at all.  H2 for the write and H1/H5 for the pending read."""
    rec = Recorder()
    fed_names: list[str] = []

    async def main() -> None:
        gw = Gateway(rec)
        with gw.reachable():  # the gateway accepts (and records) further connections during the scenario
            tr = await connect(rec, gw, uri(None))
            loop = asyncio.get_running_loop()

            def feed(name: str) -> None:
                if gw.wire is not None and not gw.wire.writer.is_closing():
                    fed_names.append(name)
                    gw.feed_named(name)

            def on_data(_f: Any) -> None:
                if data == "before":
                    loop.call_later(max(ack_delay_ms - 20, 0) / 1000, feed, "DataUs")
                loop.call_later(ack_delay_ms / 1000, feed, "Ack")
                if data == "after":
                    loop.call_later((ack_delay_ms + 100) / 1000, feed, "DataUs")
                if alive:
                    loop.call_later((ack_delay_ms + 10) / 1000, feed, "Alive")

            gw.on_data_out = on_data

            async def bg() -> str:
                from harness.c07_hsfz import classify_exc
                rec.add("Begin", op="bgread", tmo=int(round(read_tmo * 1000)), d=[])
                res, d = "ok", []
                try:
                    d = list(await tr.read(timeout=read_tmo))
                except BaseException as e:  # noqa: BLE001
                    res = classify_exc(e)
                rec.add("End", op="bgread", res=res, d=d)
                return res

            task = asyncio.ensure_future(bg())
            await asyncio.sleep(write_at_ms / 1000)
            await do_op(rec, tr, "write", 5.0, b"\x3e\x80")
            await task
            await drain_and_finish(rec, tr)

    hang = False
    try:
        vloop.run(main(), horizon=600)
    except (TimeoutError, vloop.BlockedForever):
        hang = True
        rec.ev.append({"e": "Final", "t": rec.ev[-1]["t"] if rec.ev else 0, "drained": False})
    return {"cfg": cfg(1000), "ev": rec.ev, "prog": f"concurrent-read-write/{write_at_ms}/{ack_delay_ms}/{data}/{alive}",
            "auto": False, "fed": fed_names, "hang": hang, "cut": []}


def backlog_case(nframes: int) -> dict[str, Any]:
    """The client is idle while the gateway sends a burst of data frames for us, then an alive check (H3), then
    every frame must still be readable in order (H1/H5)."""
    rec = Recorder()
    fed_names: list[str] = []

    async def main() -> None:
        gw = Gateway(rec)
        with gw.reachable():  # the gateway accepts (and records) further connections during the scenario
            tr = await connect(rec, gw, uri(None))
            for _ in range(nframes):
                fed_names.append("DataUs")
                gw.feed_named("DataUs")
            await settle()
            fed_names.append("Alive")
            gw.feed_named("Alive")
            await asyncio.sleep(1.0)
            for _ in range(nframes):
                if await do_op(rec, tr, "read", 1.0, b"") != "ok":
                    break
            await drain_and_finish(rec, tr)

    hang = False
    try:
        vloop.run(main(), horizon=6000)
    except (TimeoutError, vloop.BlockedForever):
        hang = True
        rec.ev.append({"e": "Final", "t": rec.ev[-1]["t"] if rec.ev else 0, "drained": False})
    return {"cfg": cfg(1000), "ev": rec.ev, "prog": f"backlog-while-idle/{nframes}", "auto": False, "fed": fed_names,
            "hang": hang, "cut": []}


def reconnecting_write_control(word: str = "Err45") -> dict[str, Any]:
    """Negative control for the reachable gateway: the harness wraps the real transport in what a transport that
    'helps itself' would do -- a write that meets a connection error opens a further connection to the gateway and
    sends the request again there, where it is acknowledged.  The recorded execution must show the second connection
    and must be rejected by the contract."""
    rec = Recorder()
    fed_names: list[str] = []

    async def main() -> None:
        from gallia.transports.hsfz import HSFZTransport

        gw = Gateway(rec)
        with gw.reachable():
            tr = await connect(rec, gw, uri(None))

            def on_data(_f: Any) -> None:
                name = word if len(gw.listener.wires) == 1 else "Ack"
                fed_names.append(name)
                gw.feed_named(name)

            gw.on_data_out = on_data

            class SelfHelp:
                def __init__(self) -> None:
                    self.tr = tr

                async def write(self, data: bytes, timeout: float | None = None) -> int:
                    try:
                        return await self.tr.write(data, timeout=timeout)
                    except ConnectionError:
                        self.tr = await HSFZTransport.connect(uri(None))
                        return await self.tr.write(data, timeout=timeout)

                async def read(self, timeout: float | None = None) -> bytes:
                    return await self.tr.read(timeout=timeout)

                async def close(self) -> None:
                    await self.tr.close()

            sh = SelfHelp()
            await do_op(rec, sh, "write", 5.0, b"\x31\x01\xff\x00\x01\x02")
            await drain_and_finish(rec, sh)

    try:
        vloop.run(main(), horizon=600)
    except (TimeoutError, vloop.BlockedForever):
        rec.ev.append({"e": "Final", "t": rec.ev[-1]["t"] if rec.ev else 0, "drained": False})
    return {"cfg": cfg(1000), "ev": rec.ev, "prog": "control/reconnecting-write", "auto": False, "fed": fed_names,
            "hang": False, "cut": []}


MODEL_FRAME = {"ack": "Ack", "ackOther": "AckWrongData", "data": "DataUs", "dataOther": "DataOther", "alive": "Alive",
               "err": "Err40", "short": "ShortAck"}
SCRIPTS = {"wrr": ["write", "read", "read"], "rwr": ["read", "write", "read"], "wwr": ["write", "write", "read"]}


def replay_behaviour(beh: list[tuple[str, dict[str, Any]]], script: list[str]) -> tuple[dict[str, Any], dict[str, Any]]:
    rec = Recorder()
    fed_names: list[str] = []
    got: dict[str, Any] = {"results": [], "delivered": []}
    ids: dict[tuple[int, ...], int] = {}

    async def main() -> None:
        gw = Gateway(rec)
        with gw.reachable():  # the gateway accepts (and records) further connections during the scenario
            tr = await connect(rec, gw, uri())
            task: asyncio.Future[str] | None = None
            opi = 0
            nd = 0
            for act, st in beh[1:]:
                if act == "GwSend":
                    f = st["inbuf"][-1]
                    name = MODEL_FRAME[f[0]]
                    fed_names.append(name)
                    gw.feed_named(name)
                    if name == "DataUs":
                        nd += 1
                        ids[tuple(gw_frame("DataUs", b"", gw.nfeeds)["d"])] = nd
                elif act in ("WStart", "RStart"):
                    if task is not None:
                        got["results"].append(await task)
                    op = script[opi]
                    opi += 1
                    task = asyncio.ensure_future(do_op(rec, tr, op, 5.0 if op == "write" else 1.0,
                                                       b"\x22\xf1\x90" if op == "write" else b""))
                elif act in ("AckTimeout", "RTimeout"):
                    if task is not None:
                        got["results"].append(await task)
                        task = None
                else:
                    await settle()
            if task is not None:
                got["results"].append(await task)
            await drain_and_finish(rec, tr, drain=False)

    try:
        vloop.run(main(), horizon=600)
    except (TimeoutError, vloop.BlockedForever):
        rec.ev.append({"e": "Hang", "t": 0})
    for e in rec.ev:
        if e["e"] == "End" and e.get("op") == "read" and e.get("res") == "ok":
            got["delivered"].append(ids.get(tuple(e["d"]), -1))
    return {"cfg": cfg(), "ev": rec.ev, "prog": "tlc-behaviour", "auto": False, "fed": fed_names, "hang": False,
            "cut": []}, got


def validate(traces: list[dict[str, Any]]) -> tuple[dict[int, tuple[str, int]], list[Any]]:
    verdicts: dict[int, tuple[str, int]] = {}
    results = []
    CH = 3000
    for off in range(0, len(traces), CH):
        sub = {"traces": [{"id": off + i, "cfg": t["cfg"], "ev": t["ev"]} for i, t in enumerate(traces[off:off + CH])]}
        res = tlc.validate_batch("Trace_Hsfz", "Trace_Hsfz.cfg", sub, timeout=1800)
        results.append(res)
        for p in res.prints:
            if isinstance(p, list) and len(p) == 4 and p[0] == "V":
                verdicts[p[1]] = (p[2], p[3])
    missing = [i for i in range(len(traces)) if i not in verdicts]
    if missing:
        raise Machinery(f"Trace_Hsfz: no verdict for {len(missing)} traces (first {missing[0]}):\n{results[-1].out[-3000:]}")
    return verdicts, results


def run(tier: str, seed: int) -> Report:
    quiet_gallia_logging()
    rep = Report("C07", tier, seed)
    rep.rule = ("executions = real HSFZTransport write/read programs against a scripted gateway on a hand-fed StreamReader "
                "under virtual time; the gateway injects frames from the alphabet at every instant relative to the "
                "client's phases (before an operation, when the request hits the wire before/after the ack, 100 ms "
                "into a wait, 100 ms before its deadline), all choice vectors up to the frame budget, for several ack "
                "timeouts; all seven error control words and the gateway's FIN at each of these instants; every single split "
                "point of every frame of canonical scenarios (+ random multi-splits); "
                "distinct = distinct (event sequence, segmentation); non-trivial = at least one injected frame")
    rep.assumptions = [
        "asyncio.open_connection is replaced in the harness process by an in-memory connection (real StreamReader)",
        ("the gateway stays reachable for the whole scenario: every further connection the transport opens is accepted, "
         "served like the first (frames go to the newest connection) and recorded (Conn / Out / Feed / Closed carry the "
         "connection number); opening connections is not judged as such (C08), an operation is bound to the connection "
         "it was issued on"),
        "virtual time: processing takes no time; a frame counts as delivered when its last byte is fed",
        "status control words (Klemme15 ...) and stale acks: what follows is not judged (unspecified by the statement)",
        "OSError(EBADFD) raised on a closed HSFZ connection is counted as a connection error",
    ]
    traces: list[dict[str, Any]] = []
    seen: set[str] = set()

    def add(t: dict[str, Any], origin: str) -> None:
        key = json.dumps([t["cfg"], t["ev"], t.get("cut")], sort_keys=True)
        if key in seen:
            return
        seen.add(key)
        t["origin"] = origin
        traces.append(t)

    mcs = ["wrr4", "rwr4", "wwr4"] if tier == "quick" else ["wrr5", "rwr5", "wwr5", "wrr6"]
    for c in mcs:
        res = tlc.run_tlc("MC_HsfzConn", f"MC_HsfzConn_{c}.cfg", timeout=3000, coverage=(c == mcs[0]))
        rep.add_tlc(res, f"MC_HsfzConn_{c}")
        if not res.ok:
            rep.violate(f"design/{res.violated}", {"where": "HsfzConn design layer", "cfg": c}, {"cex": res.cex[-8:]})
        if res.coverage:
            never = [a for a, (n, _d) in res.coverage.items() if n == 0 and a != "Init"]
            rep.extra["design_actions_never_taken"] = never
            if never:
                raise Machinery(f"HsfzConn: actions never taken in {c}: {never}")
    # two tasks on one connection (reader blocked while another task writes): shared design layer
    res = tlc.run_tlc("ConnShared", "MC_ConnShared_ok.cfg", timeout=600, workers=2)
    rep.add_tlc(res, "MC_ConnShared_ok (two tasks on one connection)")
    if not res.ok:
        rep.violate(f"design/{res.violated}", {"where": "ConnShared design layer"}, {"cex": res.cex[-8:]})
    res = tlc.run_tlc("ConnShared", "MC_ConnShared_devNoMutex.cfg", timeout=600, workers=1)
    rep.add_tlc(res, "MC_ConnShared_devNoMutex (negative control: reader without the mutex takes the writer's ack)")
    if res.violated != "AckedWriteSucceeds":
        raise Machinery(f"negative control devNoMutex did not violate AckedWriteSucceeds (got {res.violated})")
    res = tlc.run_tlc("MC_HsfzConn", "MC_HsfzConn_devS13.cfg", timeout=900, workers=1)
    rep.add_tlc(res, "MC_HsfzConn_devS13 (negative control)")
    if res.violated != "H1_InOrder":
        raise Machinery(f"negative control devS13 did not violate H1_InOrder (got {res.violated})")

    alpha = ALPHA_QUICK if tier == "quick" else ALPHA_FULL
    plans = [("WRR", True, 2, 1000), ("RWR", True, 2, 1000), ("WRR", False, 2, 1000), ("WWR", True, 1, 1000),
             ("WshortR", False, 2, 1000), ("WlongR", False, 2, 200), ("WRR", True, 1, 3000)]
    if tier == "thorough":
        plans = [("WRR", True, 3, 1000), ("RWR", True, 2, 1000), ("WRR", False, 3, 1000), ("WWR", True, 2, 1000),
                 ("WshortR", False, 3, 1000), ("WlongR", False, 3, 200), ("WRR", True, 2, 3000), ("RWR", False, 3, 200)]
    # three injected frames over the full 18-letter alphabet are > 10^6 schedules per plan (hours): depth 3 runs over a
    # 10-letter alphabet (every frame class once), depth <= 2 over the full one
    alpha_mid = ALPHA_QUICK + ["AckWrongPair", "DataOtherDst"]
    if tier == "thorough":
        plans = plans + [(p, a, 2, k) for (p, a, b, k) in plans if b >= 3]
    for prog, auto, budget, ack in plans:
        def runit(ch: Any, prog: str = prog, auto: bool = auto, budget: int = budget, ack: int = ack) -> dict[str, Any]:
            return run_scenario(ch, prog, alpha_mid if (budget >= 3 and tier == "thorough") else alpha, budget,
                                auto=auto, ack_ms=ack)

        for _vec, t in explore(runit, 64):
            add(t, f"enum-{prog}-{'auto' if auto else 'manual'}-b{budget}-ack{ack}")
    canon = [("WRR", True, []), ("WRR", True, [0, 1]), ("WRR", True, [0, 0, 2, 0, 0, 0, 1]),
             ("WRR", False, [0, 2, 4, 2]), ("RWR", True, [0, 1, 0, 0, 3]), ("WlongR", False, [0, 4, 2])]
    rnd = random.Random(seed)
    for prog, auto, vec in canon:
        base = run_scenario(ListChooser(vec), prog, ALPHA_FULL, 3, auto=auto)
        add(base, "canon")
        nf = sum(1 for e in base["ev"] if e["e"] == "Feed")
        for fi in range(1, nf + 1):
            for off in range(1, 13):
                for gap in (0, 20):
                    add(run_scenario(ListChooser(vec), prog, ALPHA_FULL, 3, auto=auto, cut_plan={fi: (off, gap)}), "split")
        for _ in range(20 if tier == "quick" else 300):
            plan = {fi: (rnd.randint(1, 10), rnd.choice([0, 0, 5, 40])) for fi in range(1, nf + 1) if rnd.random() < 0.7}
            add(run_scenario(ListChooser(vec), prog, ALPHA_FULL, 3, auto=auto, cut_plan=plan), "multisplit")
    # long frames (a message for us, a frame for another address pair whose payload reads like frames for us, an alive
    # check with payload): every split point of header and payload, also with a pause between the pieces
    LONG = ALPHA_FULL + ["DataOtherLong", "DataUsLong", "AliveLong"]
    i_dol, i_dul, i_al = len(ALPHA_FULL) + 1, len(ALPHA_FULL) + 2, len(ALPHA_FULL) + 3
    for vec in ([i_dol, i_dul, 0], [i_al, i_dul, 0], [i_dul, i_dol, 0]):
        base = run_scenario(ListChooser(vec), "RWR", LONG, 3, auto=True)
        add(base, "long-frames")
        for fi in (1, 2):
            flen = 6 + 2 + 64
            offs = range(1, flen) if tier == "thorough" else sorted({1, 5, 6, 7, 8, 9, 13, 14, 15, 16, 17, 24, 25, 26, 33, 40, 41, 42, 57, 63, 71})
            for off in offs:
                for gap in (0, 20):
                    add(run_scenario(ListChooser(vec), "RWR", LONG, 3, auto=True, cut_plan={fi: (off, gap)}), "long-frames-split")
    # error control words: all seven, at every phase
    for w in ("Err40", "Err41", "Err42", "Err43", "Err44", "Err45", "ErrFF"):
        def runit3(ch: Any, w: str = w) -> dict[str, Any]:
            return run_scenario(ch, "WRR", [w, "DataUs"], 2, auto=True)

        for _vec, t in explore(runit3, 64):
            add(t, "enum-errwords")
        # the error word (and messages for us ahead of it) arrives while the client is idle, the next call is a read
        if w in ("Err40", "ErrFF") or tier == "thorough":
            def runit3b(ch: Any, w: str = w) -> dict[str, Any]:
                return run_scenario(ch, "RWR", [w, "DataUs"], 3, auto=True)

            for _vec, t in explore(runit3b, 64):
                add(t, "enum-errwords-read-first")
    # the gateway ends the connection (FIN) at every phase -- in particular in the ack phase of a write, before or
    # behind other frames; like the error words above with a gateway that stays reachable: a transport that opens a
    # further connection by itself gets it, is acknowledged and served there, and all of that is recorded
    for prog, auto, al in (("WRR", True, ["EOF", "DataUs"]), ("WRR", False, ["EOF", "Ack", "DataOther"]),
                           ("WWR", True, ["EOF", "Err41"]), ("RWR", True, ["EOF", "DataUs"])):
        if prog == "RWR" and tier == "quick":
            continue

        def runit4(ch: Any, prog: str = prog, auto: bool = auto, al: list[str] = al) -> dict[str, Any]:
            return run_scenario(ch, prog, al, 2, auto=auto)

        for _vec, t in explore(runit4, 64):
            add(t, "enum-eof")
    # two tasks of the caller on one connection: a read is pending while another task writes
    for write_at in (100, 500):
        for ack_delay in (0, 1, 50, 300):
            for data in ("none", "before", "after"):
                for alive in (False, True):
                    add(concurrent_case(write_at, ack_delay, data, alive), "concurrent-read-write")
    for n in ((10, 300) if tier == "quick" else (10, 300, 3000)):
        add(backlog_case(n), "backlog-while-idle")
    # spec -> code
    nsim = 120 if tier == "quick" else 1500
    ndrift = nrep = 0
    for sc in ("wrr", "rwr", "wwr"):
        _sres, behs = tlc.simulate_behaviours("MC_HsfzConn", f"MC_HsfzConn_{sc}5.cfg", num=nsim // 3, depth=60,
                                              seed=seed + 7, timeout=900)
        for b in behs:
            if not b or b[-1][1].get("cpc") != "done":
                continue
            t, got = replay_behaviour(b, SCRIPTS[sc])
            nrep += 1
            want = b[-1][1]
            wres = ["ConnErr" if r in ("brokenpipe", "connerr") else "Timeout" if r == "timeout" else "ok"
                    for r in want["results"]]
            if wres != got["results"] or list(want["delivered"]) != got["delivered"]:
                ndrift += 1
                rep.drift.append({"script": sc, "fed": t["fed"], "design": [wres, want["delivered"]],
                                  "code": [got["results"], got["delivered"]]})
            add(t, "tlc-simulate")
    rep.extra["spec_to_code_replayed"] = nrep
    rep.extra["spec_to_code_drift"] = ndrift
    verdicts, results = validate(traces)
    for r in results:
        rep.add_tlc(r, "Trace_Hsfz batch")
    rep.traces = rep.evaluations = len(traces)
    for i, t in enumerate(traces):
        if t["fed"]:
            rep.nontrivial.add(i)
        v, idx = verdicts[i]
        if t["hang"]:
            v = "liveness/operation-blocked-forever"
        if v != "ok":
            ev = t["ev"][idx - 1] if 0 < idx <= len(t["ev"]) else {}
            rep.violate(v, {"event": ev.get("e"), "op": ev.get("op"), "res": ev.get("res")},
                        {"prog": t["prog"], "auto": t["auto"], "fed": t["fed"], "at_event": idx, "cfg": t["cfg"],
                         "events": t["ev"][max(0, idx - 7): idx + 1], "origin": t["origin"], "cut": t.get("cut")})
    for t in traces[300:302] + traces[-2:]:
        rep.sample({"prog": t["prog"], "fed": t["fed"], "events": [
            (e["e"], e["t"], e.get("op") or (e.get("f") or {}).get("k"), e.get("res")) for e in t["ev"]][:24]})
    rep.extra["origins"] = {o: sum(1 for t in traces if t["origin"] == o) for o in sorted({t["origin"] for t in traces})}
    rep.exhaustive = True
    # binding self-test: corrupt one field of an accepted trace
    good = next((t for i, t in enumerate(traces) if verdicts[i][0] == "ok" and
                 any(e["e"] == "End" and e.get("op") == "read" and e.get("res") == "ok" for e in t["ev"])), None)
    if good is None:
        raise Machinery("no accepted trace with a delivered message for the binding self-test")
    bad = json.loads(json.dumps(good))
    for e in bad["ev"]:
        if e["e"] == "End" and e.get("op") == "read" and e.get("res") == "ok":
            e["d"][-1] ^= 1
            break
    bad2 = json.loads(json.dumps(good))
    bad2["ev"] = [e for e in bad2["ev"] if not (e["e"] == "Out" and e["f"]["k"] == "Data")]
    # negative control of the environment: a write that opens a further connection by itself and re-sends there
    ctl = reconnecting_write_control()
    if not any(e["e"] == "Conn" and e["n"] == 2 for e in ctl["ev"]) or \
            not any(e["e"] == "Out" and e.get("c") == 2 and e["f"]["k"] == "Data" for e in ctl["ev"]):
        raise Machinery(f"negative control: the gateway did not see / record a second connection: {ctl['ev'][:16]}")
    v2, _ = validate([bad, bad2, ctl])
    if v2[0][0] == "ok" or v2[1][0] == "ok":
        raise Machinery(f"binding self-test: corrupted traces accepted: {v2}")
    if v2[2][0] == "ok":
        raise Machinery("negative control: a write that re-sends on a connection it opened by itself was accepted")
    rep.extra["binding_selftest"] = [v2[0][0], v2[1][0]]
    rep.extra["control_reconnecting_write"] = v2[2][0]
    return rep


def replay(path: str) -> int:
    """Scenarios are deterministic functions of (tier, seed): re-run that enumeration against the current tree
    and report whether the recorded violation signatures still occur."""
    import json as _json

    from harness import common as _common

    data = _json.loads(open(path).read())
    rep = run(data.get("tier", "quick"), int(data.get("seed", 0)))
    want = {(v["clause"], _json.dumps(v["sig"], sort_keys=True)) for v in data.get("violations", [])}
    got = {(v.clause, _json.dumps(v.sig, sort_keys=True)) for v in rep.violations}
    still = want & got
    print(f"replay: {len(still)} of {len(want)} recorded violation signatures reproduce on the current tree")
    if still:
        print(f"VIOLATION property={rep.property_id} replay={path}")
        return 1
    return 0
