"""C15 — every run leaves a consistent exit code, META.json, log file and database record.

spec   : spec/RunLifecycleContract.tla (X1..X6, from the statement + documented exit codes),
         spec/RunLifecycleSteps.tla + spec/RunLifecycle.tla (design: the phases of
         BaseCommand.entry_point / AsyncScript.run / Scanner.teardown, Dev_S21/S22/S23/S23b)
MC     : MC_RunLifecycle_design.cfg exhaustive over Kind x 2^4 resources x Fail (1720 cases);
         devS21/devS22/devS23/devS23b are negative controls; export.cfg prints every case with
         its expected final state
binding: spec -> code: every exported case is executed against the REAL entry_point() of three
         test commands (harness/c15_cmds.py) -- in worker processes, "inproc" (many cases per
         interpreter) and "cli" (one process per case, real exit status, real SIGINT);
         code -> spec: the observed final state of each execution is a one-step trace validated
         by TLC (Trace_RunLifecycle), which also names the set of known deviations that
         reproduces the observation exactly.
lock   : the lock file of the run is HELD by another process when the run starts (c15_worker.contended_case):
         the run waits; either it is interrupted while it waits (case point LockWait: real SIGINT / cancellation;
         all kinds x {artifacts, db, hooks} on/off) or the holder lets go after a while and the run goes on as
         its case says (option "lockheld" on a spread of the ordinary cases).
stock  : gallia's OWN commands that open / use / hand over the database connection of their run
         (`script rerun --id N --db FILE | --file META.json`, `discover doip --db FILE`) through
         the real entry_point() (select_stock / c15_worker.stock_case): one trace for the stock
         command's own run (case = its resources + the way its run() was seen to end) and one
         for the command it ran again (case = the recorded one); same contract, same trace spec.
"""

from __future__ import annotations

import json
import os
import random
import select
import shutil
import signal
import subprocess
import sys
import tempfile
import time
from concurrent.futures import ThreadPoolExecutor
from pathlib import Path
from typing import Any

from harness import tlc
from harness.c15_worker import HOOK_SH
from harness.common import Machinery, Report, quiet_gallia_logging

DEV_NAMES = {
    "S21": "Dev_S21_HookUnbound",
    "S22": "Dev_S22_DbClosedBeforeMeta",
    "S23": "Dev_S23_SigintMetaZero",
    "S23b": "Dev_S23b_DbOpenBeforeTry",
}
NEG_CONTROLS = {"devS21": "S21", "devS22": "S22", "devS23": "S23", "devS23b": "S23b"}
ACTIONS = ["ALock", "AArtifacts", "ALogOpen", "APreHook", "ADbOpen", "ASetup", "AMain", "ATeardown", "AMap",
           "ADbClose", "AMetaWrite", "ALogClose", "APostHook", "AUnlock", "AExit"]
OBS_KEYS = ("exit", "escaped", "meta", "log", "lockFree", "db", "pre", "post", "phases", "reported", "rundir")
PREHOOK_BASE = 9_000_000
GLITCH_BASE = 9_500_000
CASE_OPTS = ("flavour", "dbfail", "nested", "ping", "dbglitch", "lockheld", "intr")  # per-case options outside the design's case space
CLI_BASE = 100000
STOCK_BASE = 50_000   # stock commands of gallia itself (in-process); ids in steps of 2: own run, re-run command
EXIT_GRACE_S = 30
NPAR = max(2, min(12, (os.cpu_count() or 4) - 4))


def case_key(c: dict[str, Any]) -> tuple[Any, ...]:
    return (c["kind"], c["point"], c["how"], c["n"], c["where"], c["art"], c["db"], c["lock"], c["hooks"])


def effective(c: dict[str, Any]) -> bool:  # only used to count non-trivial cases, never for a verdict
    return c["how"] != "Return" and (c["how"] != "HookFails" or c["hooks"]) and (c["how"] != "DbFails" or c["db"])


# --------------------------------------------------------------------------- TLC: design + case export
class ModelCheck:
    """The TLC runs of the design layer.  Only the case export is needed before the real code can be
    driven; the exhaustive design check and the negative controls run concurrently with the executions."""

    def __init__(self) -> None:
        self.pool = ThreadPoolExecutor(max_workers=6)
        self.export = self.pool.submit(tlc.run_tlc, "MC_RunLifecycle", "MC_RunLifecycle_export.cfg", workers=1,
                                       timeout=900)
        self.design = self.pool.submit(tlc.run_tlc, "MC_RunLifecycle", "MC_RunLifecycle_design.cfg", workers=4,
                                       coverage=True, timeout=900, parse_prints=False)
        self.neg = {n: self.pool.submit(tlc.run_tlc, "MC_RunLifecycle", f"MC_RunLifecycle_{n}.cfg", workers=1,
                                        timeout=900, parse_prints=False) for n in NEG_CONTROLS}

    def cases(self, rep: Report) -> list[dict[str, Any]]:
        e = self.export.result()
        rep.add_tlc(e, "MC_RunLifecycle_export")
        cases = []
        for p in e.prints:
            if isinstance(p, list) and len(p) == 3 and p[0] == "C":
                cases.append({"c": p[1], "expect": p[2]})
        cases.sort(key=lambda x: case_key(x["c"]))
        if len(cases) != e.distinct or len(cases) < 1000 or len({case_key(x["c"]) for x in cases}) != len(cases):
            raise Machinery(f"case export incomplete: {len(cases)} cases for {e.distinct} states\n{e.out[-1500:]}")
        return cases

    def finish(self, rep: Report, ncases: int) -> None:
        d = self.design.result()
        rep.add_tlc(d, "MC_RunLifecycle_design")
        if not d.ok:
            rep.violate(f"design/{d.violated}", {"where": "RunLifecycle design layer"},
                        {"cex": d.cex[-3:], "out": d.out[-1500:]})
        never = [a for a in ACTIONS if d.coverage.get(a, (0, 0))[0] == 0]
        if never:
            raise Machinery(f"design actions never taken (vacuous model): {never}")
        if d.ok and d.distinct != ncases * (len(ACTIONS) + 1):
            raise Machinery(f"design run covered {d.distinct} states, expected {ncases} cases x {len(ACTIONS) + 1}")
        rep.extra["design_action_coverage"] = {a: d.coverage[a][0] for a in ACTIONS}
        rep.extra["design_actions_all_taken"] = True
        for n, dev in NEG_CONTROLS.items():
            r = self.neg[n].result()
            rep.add_tlc(r, f"MC_RunLifecycle_{n} (negative control)")
            if r.violated is None or not r.violated.startswith("X"):
                raise Machinery(f"negative control {n} ({DEV_NAMES[dev]}) did not violate a contract clause "
                                f"(got {r.violated}): contract is vacuous")
            rep.extra.setdefault("negative_controls", {})[DEV_NAMES[dev]] = r.violated

    def close(self) -> None:
        self.pool.shutdown(wait=False, cancel_futures=True)


# --------------------------------------------------------------------------- executing cases
class Bench:
    """Scratch directory, hook script and the virtual ECU process shared by all cases of one run."""

    def __init__(self) -> None:
        self.root = Path(tempfile.mkdtemp(prefix="c15-"))
        self.hook = self.root / "hook.sh"
        self.hook.write_text(HOOK_SH)
        self.sock = self.root / "ecu.sock"
        (self.root / "ecu.json").write_text(json.dumps({"sock": str(self.sock), "seed": 1}))
        self.ecu = subprocess.Popen([sys.executable, "-m", "harness.c15_worker", "ecu", str(self.root / "ecu.json")],
                                    stdout=subprocess.DEVNULL, stderr=subprocess.DEVNULL)
        t0 = time.monotonic()
        while not self.sock.exists():
            if self.ecu.poll() is not None or time.monotonic() - t0 > 60:
                self.close()
                raise Machinery("virtual ECU process did not come up")
            time.sleep(0.02)

    def job(self, cases: list[dict[str, Any]]) -> dict[str, Any]:
        return {"root": str(self.root), "sock": str(self.sock), "hook": str(self.hook), "cases": cases}

    def close(self) -> None:
        try:
            self.ecu.kill()
            self.ecu.wait(timeout=10)
        except Exception:  # noqa: BLE001
            pass
        shutil.rmtree(self.root, ignore_errors=True)


def run_inproc_shard(bench: Bench, k: int, shard: list[dict[str, Any]]) -> list[dict[str, Any]]:
    jobp = bench.root / f"job-{k}.json"
    outp = bench.root / f"out-{k}.json"
    jobp.write_text(json.dumps(bench.job(shard)))
    try:
        p = subprocess.run([sys.executable, "-m", "harness.c15_worker", "inproc", str(jobp), str(outp)],
                           capture_output=True, text=True, timeout=1500)
    except subprocess.TimeoutExpired as e:
        raise Machinery(f"inproc worker {k} timed out") from e
    if p.returncode != 0 or not outp.exists():
        raise Machinery(f"inproc worker {k} failed rc={p.returncode}:\n{p.stderr[-3000:]}")
    return json.loads(outp.read_text())


def run_cli_case(bench: Bench, case: dict[str, Any]) -> dict[str, Any]:
    d = bench.root / f"cli-{case['id']}"
    d.mkdir()
    jobp, outp = d / "job.json", d / "out.json"
    rfd = None
    case = dict(case)
    if case["c"]["how"] == "CtrlC":
        fifo = d / "sync"
        os.mkfifo(fifo)
        rfd = os.open(fifo, os.O_RDONLY | os.O_NONBLOCK)
        case["sync"] = str(fifo)
    jobp.write_text(json.dumps(bench.job([case])))
    errp = d / "stderr.txt"
    try:
        with open(errp, "wb") as errf:
            p = subprocess.Popen([sys.executable, "-m", "harness.c15_worker", "cli", str(jobp), str(outp)],
                                 stdout=subprocess.DEVNULL, stderr=errf)
            try:
                if rfd is not None:
                    t0 = time.monotonic()
                    ready = skip = False
                    while time.monotonic() - t0 < 120:
                        r, _, _ = select.select([rfd], [], [], 0.25)
                        if r and (word := os.read(rfd, 16)):
                            ready = True
                            skip = word.startswith(b"skip")  # the run ended before its SIGINT point (reported as such)
                            break
                        if p.poll() is not None:
                            break
                    if not ready:
                        raise Machinery(f"cli case {case['id']} never reached its SIGINT point "
                                        f"(rc={p.poll()}): {errp.read_text()[-1500:]}")
                    if not skip:
                        os.kill(p.pid, signal.SIGINT)
                # the observation is written when entry_point() has ended; after that the interpreter
                # only has to exit.  A process that does not (a left-open log handler can deadlock
                # logging.shutdown()) is killed and reported, not waited for.
                t0 = time.monotonic()
                seen = None
                hung = False
                while p.poll() is None:
                    now = time.monotonic()
                    if seen is None and outp.exists():
                        seen = now
                    if seen is not None and now - seen > EXIT_GRACE_S:
                        hung = True
                        p.kill()
                        break
                    if now - t0 > 300:
                        p.kill()
                        raise Machinery(f"cli case {case['id']} timed out: {case['c']}")
                    time.sleep(0.05)
                rc = p.wait(timeout=30)
            finally:
                if p.poll() is None:
                    p.kill()
    finally:
        if rfd is not None:
            os.close(rfd)
    if not outp.exists():
        raise Machinery(f"cli case {case['id']} wrote no observation (rc={rc}): {errp.read_text()[-2000:]}")
    o = json.loads(outp.read_text())[0]["o"]
    o["_raw"]["exit_child"] = o["exit"]
    o["_raw"]["returncode"] = rc
    o["_raw"]["hung_at_exit"] = hung
    if not hung:
        # the status a shell reports: death by signal s is 128+s
        o["exit"] = rc if rc >= 0 else 128 - rc
    return {"id": case["id"], "o": o}


def execute(bench: Bench, inproc: list[dict[str, Any]], cli: list[dict[str, Any]],
            stock: list[dict[str, Any]] | None = None) -> dict[int, dict[str, Any]]:
    nsh = max(1, min(NPAR, len(inproc) // 8 or 1))
    shards: list[list[dict[str, Any]]] = [[] for _ in range(nsh)]
    for i, cs in enumerate(inproc):
        shards[i % nsh].append(cs)
    # stock commands run in workers of their own (the slow ones, which wait for network timeouts, apart)
    stock = stock or []
    slow = [cs for cs in stock if cs["stock"].get("slow")]
    fast = [cs for cs in stock if not cs["stock"].get("slow")]
    nst = max(1, min(3, len(fast) // 6 or 1))
    sshards: list[list[dict[str, Any]]] = [fast[i::nst] for i in range(nst)] + [[cs] for cs in slow]
    out: dict[int, dict[str, Any]] = {}
    with ThreadPoolExecutor(max_workers=NPAR + len(sshards)) as ex:
        sfuts = [ex.submit(run_inproc_shard, bench, 1000 + k, sh) for k, sh in enumerate(sshards) if sh]
        futs = [ex.submit(run_inproc_shard, bench, k, sh) for k, sh in enumerate(shards) if sh]
        cfuts = [ex.submit(run_cli_case, bench, cs) for cs in cli]
        for f in sfuts:
            for r in f.result():
                out[r["id"]] = r   # {"o", "c", "nested"} or {"skipped"}
        for f in futs:
            for r in f.result():
                out[r["id"]] = r["o"]
        for f in cfuts:
            r = f.result()
            out[r["id"]] = r["o"]
    return out


# --------------------------------------------------------------------------- TLC validation
def validate(traces: list[dict[str, Any]]) -> tuple[dict[int, dict[str, Any]], list[Any]]:
    """traces: [{"id", "c", "o"}] -> id -> {"verdict", "labels", "explain", "blame"}"""
    out: dict[int, dict[str, Any]] = {}
    results = []
    CH = 1200
    chunks = [traces[i:i + CH] for i in range(0, len(traces), CH)]

    def one(chunk: list[dict[str, Any]]) -> Any:
        batch = {"traces": [{"id": t["id"], "c": t["c"], "o": {k: t["o"][k] for k in OBS_KEYS}} for t in chunk]}
        return tlc.validate_batch("Trace_RunLifecycle", "Trace_RunLifecycle.cfg", batch, timeout=900)

    with ThreadPoolExecutor(max_workers=4) as ex:
        for res in ex.map(one, chunks):
            results.append(res)
            for p in res.prints:
                if isinstance(p, list) and len(p) == 6 and p[0] == "V":
                    ex_set = p[4]["$set"] if isinstance(p[4], dict) else list(p[4])
                    blame = [b["$set"] if isinstance(b, dict) else list(b) for b in p[5]]
                    out[p[1]] = {"verdict": p[2], "labels": list(p[3]), "explain": sorted(ex_set),
                                 "blame": [sorted(b) for b in blame]}
    missing = [t["id"] for t in traces if t["id"] not in out]
    if missing:
        raise Machinery(f"TLC produced no verdict for {len(missing)} traces (first id {missing[0]}):\n"
                        + results[-1].out[-2000:])
    bad = [i for i, v in out.items() if v["verdict"] == "malformed"]
    if bad:
        raise Machinery(f"observation records ill-typed for trace ids {bad[:5]}")
    return out, results


def select_cases(cases: list[dict[str, Any]], tier: str, seed: int) -> tuple[list[dict[str, Any]], list[dict[str, Any]]]:
    """-> (inproc cases, cli cases), each {"id", "c", "expect"}"""
    idx = list(range(len(cases)))
    non_ctrlc = [i for i in idx if cases[i]["c"]["how"] != "CtrlC"]
    ctrlc = [i for i in idx if cases[i]["c"]["how"] == "CtrlC"]
    if tier == "thorough":
        # every case once in its canonical mode (SIGINT cases need a process of their own), plus the
        # non-SIGINT cases of 4 resource sets a second time as real processes (real exit status)
        def twice(c: dict[str, Any]) -> bool:
            r = (c["art"], c["db"], c["lock"], c["hooks"])
            return r in ((True, True, True, True), (False, False, False, False), (True, True, False, False),
                         (False, False, True, True))

        inproc, cli = non_ctrlc, ctrlc + [i for i in non_ctrlc if twice(cases[i]["c"])]
    else:
        def res_sel(c: dict[str, Any]) -> bool:
            r = (c["art"], c["db"], c["lock"], c["hooks"])
            # all on, all off, db only, everything but the db
            return r in ((True, True, True, True), (False, False, False, False), (False, True, False, False),
                         (True, False, True, True))

        # quick: the plain script over all 16 resource sets; scanner kinds over 4 of them
        inproc = [i for i in non_ctrlc if cases[i]["c"]["kind"] == "Script" or res_sel(cases[i]["c"])]
        rnd = random.Random(seed)
        full = [i for i in ctrlc if all(cases[i]["c"][k] for k in ("art", "db", "lock", "hooks"))]
        rest = [i for i in ctrlc if i not in set(full)]
        some_other = [i for i in non_ctrlc if cases[i]["c"]["art"] and cases[i]["c"]["db"] and cases[i]["c"]["lock"]
                      and cases[i]["c"]["hooks"] and cases[i]["c"]["where"] == "pre"
                      and cases[i]["c"]["point"] in ("Main", "PreHook", "PostHook", "DbOpen", "DbClose")]
        cli = full + sorted(rnd.sample(rest, min(10, len(rest)))) + sorted(rnd.sample(some_other, min(10, len(some_other))))
    a = [{"id": i, "c": cases[i]["c"], "expect": cases[i]["expect"]} for i in inproc]
    b = [{"id": CLI_BASE + i, "c": cases[i]["c"], "expect": cases[i]["expect"]} for i in cli]
    # the lock file is held by another process when the run starts:
    # (1) interrupted while waiting for it.  As real processes (SIGINT from outside) the cases are part of `cli`
    #     above; in-process, every kind x {artifacts, db, hooks} with a SIGINT raised by the process itself or
    #     with the task that runs entry_point() cancelled, early and late in the wait
    waiters = [i for i in ctrlc if cases[i]["c"]["point"] == "LockWait"]
    for k, i in enumerate(waiters):
        a.append({"id": i, "c": cases[i]["c"], "expect": cases[i]["expect"], "intr": ("sigint", "cancel")[k % 2],
                  "lockheld": (0.05, 0.3, 0.15)[k % 3]})
    for cs in b:
        if cs["c"]["point"] == "LockWait":
            cs["lockheld"] = (0.05, 0.3, 0.15)[cs["id"] % 3]
    # (2) the holder lets go after a while and the run goes on as its case says: a spread of the ordinary cases
    every = 13 if tier == "quick" else 5
    k = 0
    for cs in a + b:
        if cs["c"]["lock"] and cs["c"]["point"] != "LockWait":
            k += 1
            if k % every == 0:
                cs["lockheld"] = (0.1, 0.3)[(k // every) % 2]
    # Ctrl-C while the pre-hook runs (outside the design layer's case space: judged by the contract only; the
    # database is left out because the interrupt is then delivered inside the database open, where the
    # statement is silent about the run record)
    k = 0
    for kind in ("Script", "Scanner", "UDSScanner"):
        for art, lock in (((True, True), (True, False), (False, True)) if tier == "thorough" or kind == "Script"
                          else ((True, True),)):
            b.append({"id": PREHOOK_BASE + k, "expect": None,
                      "c": {"kind": kind, "art": art, "db": False, "lock": lock, "hooks": True, "point": "PreHook",
                            "how": "CtrlC", "n": 0, "where": "pre"}})
            k += 1
        # ... and while the database is being closed after the run has ended
        b.append({"id": PREHOOK_BASE + 500 + k, "expect": None,
                  "c": {"kind": kind, "art": True, "db": True, "lock": True, "hooks": True, "point": "DbClose",
                        "how": "CtrlC", "n": 0, "where": "pre"}})
    # the database reports a transient, non-lock error ("database or disk is full") for a few inserts of the run's
    # messages while the scanner runs (another process filled the disk for a moment); the run itself is unaffected
    k = 0
    for how, n in (("Return", 0), ("SysExit", 3), ("Unexpected", 0)):
        for glitch in ((1, 2) if tier == "quick" else (1, 2, 5)):
            b.append({"id": GLITCH_BASE + k, "expect": None, "dbglitch": glitch,
                      "c": {"kind": "UDSScanner", "art": True, "db": True, "lock": True, "hooks": True,
                            "point": "Main", "how": how, "n": n, "where": "pre"}})
            k += 1
    # how the database fails to open: the directory cannot be created / the file is not a database / the file
    # was written by another schema version (the last two fail AFTER the sqlite connection object exists)
    for cs in a + b:
        if cs["c"]["how"] == "Unexpected" and cs["id"] % 2:
            cs["flavour"] = "chained"   # RuntimeError raised while handling / chained to a ConnectionError
        if (cs["c"]["kind"] == "Script" and cs["c"]["art"] and cs["c"]["how"] != "CtrlC" and cs["id"] % 3 == 1
                and cs["c"]["point"] in ("Main", "Teardown", "PostHook", "DbClose")):
            cs["nested"] = True   # main() runs a second command (own artifacts dir, own log) like `script rerun`
        if (cs["c"]["kind"] == "UDSScanner" and cs["c"]["point"] == "Teardown" and cs["c"]["where"] == "pre"
                and cs["c"]["how"] in ("ExpConn", "ExpUds") and cs["id"] % 2 == 0):
            cs["flavour"] = "inner-double"   # two expected errors inside UDSScanner.teardown() itself
        if cs["c"]["how"] == "DbFails" and cs["c"]["point"] == "DbOpen":
            cs["dbfail"] = ("blocked", "not-sqlite", "other-version")[cs["id"] % 3]
    if tier == "thorough":
        for cs in b:  # the default `--ping` (0.5 s each) only where it is affordable
            c = cs["c"]
            if c["kind"] == "UDSScanner" and c["art"] and c["db"] and c["lock"] and c["hooks"]:
                cs["ping"] = True
    return a, b


RECORDED = (  # (kind, point, how, n, where) of the recorded run that `script rerun` runs again; "ping" = stock primitive
    ("Script", "Main", "Return", 0, "pre"),
    ("Script", "Main", "SysExit", 3, "pre"),
    ("Script", "Teardown", "Unexpected", 0, "pre"),
    ("Script", "Setup", "SysExit", 3, "pre"),
    ("Script", "Main", "KbdInt", 0, "pre"),
    ("UDSScanner", "Main", "Return", 0, "pre"),
    ("UDSScanner", "Main", "ExpConn", 0, "pre"),
    ("Scanner", "Teardown", "SysExit", 3, "post"),
    ("ping", "Main", "Return", 0, "pre"),
)
RES3 = ((True, True, True), (False, False, False), (True, False, False), (False, True, True))  # art, lock, hooks


def select_stock(tier: str) -> list[dict[str, Any]]:
    """Stock commands that open / use / hand over the database connection of their own run, through the real
    entry_point(): `script rerun` (--id N --db FILE / --file META.json [--db FILE] / an id that does not exist) over
    recorded runs of every base kind with different endings, and `discover doip` (ends before / after it has
    written to the database).  Each {"id", "c": resources of the stock command's own run, "stock": scenario}."""
    out: list[dict[str, Any]] = []

    def outer(art: bool, db: bool, lock: bool, hooks: bool) -> dict[str, Any]:
        return {"kind": "Script", "art": art, "db": db, "lock": lock, "hooks": hooks, "point": "Main", "how": "Stock",
                "n": 0, "where": "pre"}

    def rec(k: int, art: bool, db: bool, lock: bool, hooks: bool) -> dict[str, Any]:
        kind, point, how, n, where = RECORDED[k]
        r: dict[str, Any] = {"c": {"kind": "UDSScanner" if kind == "ping" else kind, "art": art, "db": db, "lock": lock,
                                   "hooks": hooks, "point": point, "how": how, "n": n, "where": where}}
        if kind == "ping":
            r["prim"] = "ping"
        return r

    def add(c: dict[str, Any], sc: dict[str, Any]) -> None:
        out.append({"id": STOCK_BASE + 2 * len(out), "c": c, "stock": sc})

    full = tier == "thorough"
    for k in range(len(RECORDED)):
        # --id N --db FILE: the recorded run had a database; its other resources vary
        for j, (art, lock, hooks) in enumerate(RES3):
            if full or j == k % 4 or (j == 0 and k in (1, 5)):
                ra, rl, rh = RES3[(j + k) % 4]
                add(outer(art, True, lock, hooks), {"cmd": "rerun", "via": "id", "rec": rec(k, ra, True, rl, rh)})
        # --file META.json, with and without a database of its own: the recorded run had an artifacts directory
        for j, (art, lock, hooks) in enumerate(RES3):
            for db in (True, False):
                if full or (j == (k + 1) % 4 and db == (k % 2 == 0)) or (j == 0 and db and k in (2, 6)):
                    _, rl, rh = RES3[(j + k + 1) % 4]
                    add(outer(art, db, lock, hooks),
                        {"cmd": "rerun", "via": "file", "rec": rec(k, True, (j + k) % 2 == 0, rl, rh)})
    # an id that is not in the database: the command gives up after the lookup
    for art, lock, hooks in (RES3 if full else RES3[:2]):
        add(outer(art, True, lock, hooks), {"cmd": "rerun", "via": "missing-id", "rec": rec(0, True, True, False, False)})
    # discover doip: gives up on the target's scheme before it touches the database / after it has recorded the
    # discovery run (nothing listens on the target: two UDP waits of 2 s, then the TCP connects are refused)
    for j, (art, lock, hooks) in enumerate(RES3 if full else RES3[:2]):
        for db in (True, False):
            if full or db or j == 0:
                add(outer(art, db, lock, hooks), {"cmd": "doip", "target": "scheme"})
        if full or j == 0:
            add(outer(art, True, lock, hooks), {"cmd": "doip", "target": "closed", "slow": True})
    return out


def lock_traces(sel: list[dict[str, Any]], obs: dict[int, dict[str, Any]], rep: Report) -> list[dict[str, Any]]:
    """One one-step trace per executed case.  Runs whose lock file was held by another process: an interrupted
    waiter is judged as such only if it was seen to be interrupted while the holder had the lock and ended by itself;
    a run that did not wait at all is judged as the plain run it was, one that did not end while the lock was held
    (how fast Ctrl-C ends a waiting run is X22's subject, not C15's) is not judged.  Both are reported as drift."""
    traces: list[dict[str, Any]] = []
    st = {"interrupted_waiters": 0, "by": {}, "did_not_wait": 0, "not_ended_while_held": 0, "proceeded": 0,
          "entered_before_release": 0, "wait_hint_seen": 0}
    for cs in sel:
        o, c, expect = obs[cs["id"]], cs["c"], cs["expect"]
        raw = o.get("_raw", {})
        mode = "cli" if cs["id"] >= CLI_BASE else "inproc"
        if raw.get("lock_contended"):
            st["wait_hint_seen"] += bool(raw.get("wait_hint_seen"))
            if c["point"] == "LockWait" and raw.get("did_not_wait"):
                st["did_not_wait"] += 1
                rep.drift.append({"mode": mode, "case": c, "note": "the run did not wait for the lock file although "
                                  "another process held it (flock + POSIX lock); judged as a plain run"})
                c, expect = dict(c, point="Main", how="Return"), None
            elif c["point"] == "LockWait" and raw.get("fallback_release"):
                st["not_ended_while_held"] += 1
                rep.drift.append({"mode": mode, "case": c, "note": "the interrupted waiter did not end while the lock "
                                  "file was held; not judged"})
                continue
            elif c["point"] == "LockWait":
                st["interrupted_waiters"] += 1
                st["by"][raw.get("interrupt")] = st["by"].get(raw.get("interrupt"), 0) + 1
            else:
                st["proceeded"] += 1
                if raw.get("entered_after_release") is False:
                    st["entered_before_release"] += 1
                    rep.drift.append({"mode": mode, "case": c, "note": "the command's first phase was entered while "
                                      "another process held the lock file"})
        traces.append({"id": cs["id"], "c": c, "o": o, "expect": expect,
                       "opts": {k: cs[k] for k in CASE_OPTS if k in cs}})
    rep.extra["lock_held_by_another_process"] = st
    return traces


def stock_traces(stock: list[dict[str, Any]], obs: dict[int, dict[str, Any]], rep: Report) -> list[dict[str, Any]]:
    """Two one-step traces per scenario: the stock command's own run (case = its resources + the way its run() was
    seen to end) and the command it ran again (case = the recorded one)."""
    traces: list[dict[str, Any]] = []
    n_nested = n_skipped = 0
    for cs in stock:
        r = obs[cs["id"]]
        if "skipped" in r:
            n_skipped += 1
            rep.drift.append({"mode": "inproc", "stock": cs["stock"], "note": r["skipped"]})
            continue
        traces.append({"id": cs["id"], "c": r["c"], "o": r["o"], "expect": None,
                       "opts": {"stock": cs["stock"], "part": "own", "res": cs["c"]}})
        if r.get("nested"):
            n_nested += 1
            traces.append({"id": cs["id"] + 1, "c": r["nested"]["c"], "o": r["nested"]["o"], "expect": None,
                           "opts": {"stock": cs["stock"], "part": "re-run", "res": cs["c"]}})
        elif cs["stock"]["cmd"] == "rerun" and cs["stock"]["via"] != "missing-id":
            rep.drift.append({"mode": "inproc", "stock": cs["stock"],
                              "note": "the recorded command was not seen to be run again in this process"})
    rep.extra["stock"] = {"scenarios": len(stock), "own_runs": len(traces) - n_nested, "re_runs": n_nested,
                          "skipped": n_skipped,
                          "endings": sorted({f"{t['c']['how']}({t['c']['n']})" for t in traces
                                             if t["opts"]["part"] == "own"})}
    if stock and (n_nested == 0 or len(traces) - n_nested < len(stock) // 2):
        raise Machinery(f"stock command family is vacuous: {rep.extra['stock']}")
    return traces


def sigs_for(c: dict[str, Any], v: dict[str, Any], k: int) -> list[dict[str, Any]]:
    """One signature per known deviation that TLC holds responsible for broken clause k of this trace."""
    if v["explain"] == ["none"]:
        return [{"explained_by": "none", "kind": c["kind"], "point": c["point"], "how": c["how"], "where": c["where"]}]
    who = v["blame"][k] if v["blame"][k] else v["explain"]
    return [{"explained_by": DEV_NAMES[d]} for d in who]


def process(rep: Report, traces: list[dict[str, Any]], verdicts: dict[int, dict[str, Any]]) -> None:
    devhits: dict[str, int] = {}
    unspecified = 0
    for t in traces:
        c, v = t["c"], verdicts[t["id"]]
        mode = "cli" if t["id"] >= CLI_BASE else "inproc"
        if effective(c):
            rep.nontrivial.add((mode,) + case_key(c))
        if effective(c) and (c["how"] == "DbFails" or (c["kind"] == "Script" and c["how"] in ("ExpConn", "ExpUds"))):
            unspecified += 1
        obs = {k: t["o"][k] for k in OBS_KEYS}
        st = t.get("opts", {}).get("stock")
        if v["verdict"] != "ok":
            for k, lab in enumerate(v["labels"]):
                for sig in sigs_for(c, v, k):
                    if st:
                        sig = dict(sig, stock=f"{st['cmd']} {st.get('via', st.get('target'))}", run=t["opts"]["part"])
                    devhits[sig["explained_by"]] = devhits.get(sig["explained_by"], 0) + 1
                    rep.violate(lab, sig, {"mode": mode, "case": c, "opts": t.get("opts", {}), "observed": obs,
                                           "expected_by_design": t.get("expect"), "all_broken": v["labels"],
                                           "explain": v["explain"], "raw": t["o"].get("_raw")})
        elif v["explain"] != [] and not (st and (t["opts"]["part"] == "own" or st.get("rec", {}).get("prim"))):
            # (the design layer models the test commands, not gallia's own commands)
            rep.drift.append({"mode": mode, "case": c, "observed": obs, "design": t.get("expect"),
                              "reproduced_by_deviations": v["explain"]})
        raw = t["o"].get("_raw", {})
        if raw.get("hung_at_exit"):
            rep.drift.append({"mode": mode, "case": c, "note": "the process did not exit after entry_point() had "
                              "ended (killed by the harness); status taken from entry_point()'s outcome"})
        if mode == "cli" and raw.get("exit_child") != t["o"]["exit"]:
            rep.drift.append({"mode": mode, "case": c, "note": "real process status differs from the status derived "
                              "from entry_point()'s outcome", "child": raw.get("exit_child"), "real": t["o"]["exit"]})
    rep.extra["violations_by_explanation"] = devhits
    rep.extra["unspecified_cases"] = unspecified
    rep.extra["drift_count"] = len(rep.drift)


SELF_BASE = 900000
MUTANT_ID = 999999
MUTANT_CASE = {"kind": "Script", "art": True, "db": True, "lock": True, "hooks": True, "point": "Main", "how": "Return",
               "n": 0, "where": "pre"}


def corruptions(base: dict[str, Any]) -> list[tuple[dict[str, Any], str]]:
    """Binding self-test, part 1: copies of one recorded trace with one field corrupted each, and the
    clause TLC has to name for it."""

    def mut(path: list[str], val: Any) -> dict[str, Any]:
        t = json.loads(json.dumps({"c": base["c"], "o": {k: base["o"][k] for k in OBS_KEYS}}))
        x = t["o"]
        for p in path[:-1]:
            x = x[p]
        x[path[-1]] = val
        return t

    o = base["o"]
    muts = [
        (mut(["exit"], (o["exit"] + 1) % 256), "X1/exit-code-follows-mapping"),
        (mut(["meta", "exit"], (o["meta"]["exit"] + 1) % 256), "X2/meta-exit-code=process"),
        (mut(["meta", "configOk"], False), "X2/meta-config-recreates-run"),
        (mut(["log", "complete"], False), "X3/log-closed"),
        (mut(["log", "markers"], o["log"]["markers"][:-1]), "X3/log-fully-readable"),
        (mut(["lockFree"], False), "X4/lock-released"),
        (mut(["db", "hasEnd"], False), "X5/db-end-time-set"),
        (mut(["post", "exit"], (o["post"]["exit"] + 1) % 256), "X6/post-hook-sees-exit-code"),
    ]
    for k, (m, _) in enumerate(muts):
        m["id"] = SELF_BASE + k
    return muts


def waiter_corruptions(cases: list[dict[str, Any]]) -> list[tuple[dict[str, Any], str]]:
    """Binding self-test, part 2: the run that is interrupted while it waits for the lock file.  What the design
    layer expects (nothing left behind) is accepted; the same with an artifacts directory left behind is judged by
    the clauses about META.json and the log."""
    w = next(x for x in cases if x["c"]["point"] == "LockWait" and x["c"]["kind"] == "Script"
             and all(x["c"][k] for k in ("art", "db", "lock", "hooks")))

    def mut(**kw: Any) -> dict[str, Any]:
        t = json.loads(json.dumps({"c": w["c"], "o": w["expect"]}))
        for k, v in kw.items():
            if isinstance(v, dict):
                t["o"][k].update(v)
            else:
                t["o"][k] = v
        return t

    good_meta = {"present": True, "exit": 130, "timesOk": True, "configOk": True}
    good_log = {"present": True, "complete": True, "parsedAll": True}
    muts = [
        (mut(), "ok"),
        (mut(rundir=True, meta=good_meta, log=good_log), "ok"),
        (mut(rundir=True), "X2/meta-json-written"),
        (mut(rundir=True, meta=dict(good_meta, exit=0), log=good_log), "X2/meta-exit-code=process"),
        (mut(rundir=True, meta=good_meta), "X3/log-file-exists"),
        (mut(rundir=True, meta=good_meta, log={"present": True}), "X3/log-closed"),
        (mut(exit=0, escaped=""), "X1/exit-code-follows-mapping"),
        (mut(lockFree=False), "X4/lock-released"),
        (mut(db={"present": True, "hasEnd": False, "exit": -1}), "X5/db-end-time-set"),
    ]
    for k, (m, _) in enumerate(muts):
        m["id"] = SELF_BASE + 200 + k
    return muts


def pick_base(traces: list[dict[str, Any]]) -> dict[str, Any]:
    for t in traces:
        c = t["c"]
        if (c["kind"] == "Script" and c["how"] == "Return" and c["art"] and c["db"] and c["lock"] and c["hooks"]
                and t["id"] < CLI_BASE):
            return t
    raise Machinery("no trace of the plain all-resources-on run to build the binding self-test from")


def run(tier: str, seed: int) -> Report:
    quiet_gallia_logging()  # this process never runs gallia; the workers set up logging like the CLI does
    rep = Report("C15", tier, seed)
    rep.rule = ("executions = real BaseCommand.entry_point() runs of three test commands (AsyncScript / Scanner / "
                "UDSScanner subclasses) in worker processes, one per case exported by TLC from the design model "
                "(kind x {artifacts, db, lockfile, hooks} on/off x (point, how) x where), against a RandomUDSServer "
                "on a unix socket; observed from outside: exit status, META.json, run_meta row (sqlite3), "
                "log.json.zst (zstd frame end + PenlogReader), flock probe, hook environment, phases entered; plus "
                "gallia's own `script rerun` (by run_meta id / by META.json, with and without a database, unknown id) "
                "over recorded runs of the test commands and of `primitive uds ping`, and `discover doip`, each judged "
                "for the stock command's own run and for the re-run command; plus runs whose lock file is held by "
                "another process (flock + POSIX lock) when they start: interrupted while they wait for it (every kind x "
                "{artifacts, db, hooks}; SIGINT from outside, SIGINT raised in the process, task cancellation) or "
                "going on as their case says once the holder has let go. "
                "distinct = distinct (mode, case); non-trivial = the injected failure is effective (its resource is on)")
    rep.assumptions = [
        "inproc mode derives the process status from entry_point()'s outcome the way `sys.exit(asyncio.run(...))` "
        "does (return value; uncaught exception -> 1; KeyboardInterrupt -> 130); cli mode measures the real status "
        "(death by SIGINT counted as 130) and the two are compared",
        "all observations are taken when entry_point() has ended (asyncio.run returned or raised), not at "
        "interpreter exit: lock and log must be released/closed by the run itself",
        "test commands are constructed from config objects (no argv parsing; C18 covers that); UDSScanner with "
        "ping off, dumpcap off",
        "one injected failure per run; SIGINT is delivered while the command awaits inside setup/main/teardown",
        "a run whose lock file is held by another process counts as waiting once a log record mentions waiting or "
        "1 s has passed (it cannot have the lock either way); an interrupted waiter may leave nothing behind (no "
        "artifacts directory, no run entry) -- what it does leave is judged by X2/X3/X5; its exit code is 130; X4 for "
        "it = the holder's lock was still in place when the run had ended and the file was free after the holder's "
        "release. A waiter that does not end while the lock is held (X22's subject) gets the lock after 6 s and is "
        "not judged",
        "exit codes where the statement is silent (plain script raising ConnectionError/UDSException: 70 or 74; DB "
        "open failure: any non-zero; failing run_meta update: 0 or a sysexits code) are counted as unspecified",
        "stock commands: the kind of ending fed to the exit-code mapping is the one run() was seen to end with "
        "(returned / sys.exit(n)); any other ending demands no particular exit code, only META / log / lock / run_meta "
        "consistent with it. Whether `script rerun` passes the re-run command's exit code on is not demanded. The "
        "re-run command is judged as the run its own config describes; its exit code is what its entry_point() "
        "returned. Marker records of the re-run command in the stock command's log are not demanded",
    ]
    mc = ModelCheck()
    bench = None
    try:
        cases = mc.cases(rep)
        rep.extra["tlc_cases"] = len(cases)
        inproc, cli = select_cases(cases, tier, seed)
        stock = select_stock(tier)
        bench = Bench()
        t0 = time.time()
        # the mutant environment of the binding self-test rides along with the in-process cases
        obs = execute(bench, inproc + [{"id": MUTANT_ID, "c": MUTANT_CASE, "mutant": "post-hook-removes-meta"}], cli,
                      stock)
        rep.extra["execution_wall_s"] = round(time.time() - t0, 1)
        traces = lock_traces(inproc + cli, obs, rep)
        base = pick_base(traces)
        traces += stock_traces(stock, obs, rep)
        # corrupt the recorded trace of the plain run and, in case the code under test breaks even that
        # one, also the trace TLC itself expects for it (accepted by construction)
        ideal = {"id": SELF_BASE - 1, "c": base["c"], "o": base["expect"]}
        muts = corruptions(base)
        muts_ideal = corruptions(ideal)
        for k, (m, _) in enumerate(muts_ideal):
            m["id"] = SELF_BASE + 100 + k
        wmuts = waiter_corruptions(cases)
        extra = ([m for m, _ in muts] + [m for m, _ in muts_ideal] + [ideal]
                 + [{"id": MUTANT_ID, "c": MUTANT_CASE, "o": obs[MUTANT_ID]}] + [m for m, _ in wmuts])
        verdicts, results = validate(traces + extra)
        for r in results:
            rep.add_tlc(r, "Trace_RunLifecycle batch")
        # ---- binding self-test
        if verdicts[ideal["id"]]["verdict"] != "ok" or verdicts[ideal["id"]]["explain"] != []:
            raise Machinery(f"the trace expected by the design layer is not accepted: {verdicts[ideal['id']]}")
        if verdicts[base["id"]]["verdict"] != "ok":
            muts = muts_ideal
        got = [verdicts[m["id"]]["verdict"] for m, _ in muts]
        want = [w for _, w in muts]
        if got != want:
            raise Machinery(f"binding self-test: corrupted traces not rejected as expected: got {got}, want {want}")
        if verdicts[MUTANT_ID]["verdict"] != "X2/meta-json-written":
            raise Machinery(f"binding self-test: mutant environment (post-hook deletes META.json) got "
                            f"{verdicts[MUTANT_ID]}")
        wgot = [verdicts[m["id"]]["verdict"] for m, _ in wmuts]
        if wgot != [w for _, w in wmuts]:
            raise Machinery(f"binding self-test: interrupted-waiter traces not judged as expected: got {wgot}, "
                            f"want {[w for _, w in wmuts]}")
        rep.extra["binding_selftest"] = {"corrupted_rejected": got, "mutant_env": verdicts[MUTANT_ID]["verdict"],
                                         "interrupted_waiter": wgot}
        # ---- verdicts of the real executions
        rep.traces = len(traces)
        rep.evaluations = len(traces) + len(extra)
        process(rep, traces, verdicts)
        for t in (traces[0], traces[len(traces) // 3], traces[-1]):
            rep.sample({"case": t["c"], "observed": {k: t["o"][k] for k in OBS_KEYS}, "verdict": verdicts[t["id"]]})
        mc.finish(rep, len(cases))
    finally:
        mc.close()
        if bench is not None:
            bench.close()
    rep.extra["executed"] = {"inproc": len(inproc), "cli": len(cli), "stock": len(stock),
                             "cli_sigint": sum(1 for cs in cli if cs["c"]["how"] == "CtrlC")}
    rep.exhaustive = tier == "thorough"
    rep.extra["exhaustive_space"] = (
        "thorough: the complete TLC case space (1720 cases): all 1488 non-SIGINT cases in inproc mode, all 232 "
        "real-SIGINT cases in cli mode (24 of them interrupted while waiting for a held lock file; these also "
        "in inproc mode), plus the non-SIGINT cases of 4 resource sets again in cli mode; every 5th (quick: 13th) "
        "case with a lock file runs with the lock held by another process for a while; "
        "quick: Script kind x all 16 resource sets, scanner kinds x 4 resource sets (inproc), all SIGINT cases with "
        "every resource on + seeded samples (cli); the stock-command scenarios are a fixed selection in quick and "
        "the full product recorded run x flavour x 4 resource sets in thorough")
    rep.extra["deviations_modelled"] = DEV_NAMES
    return rep


def replay(path: str) -> int:
    data = json.loads(open(path).read())
    bench = Bench()
    bad = 0
    try:
        todo: dict[tuple[Any, ...], dict[str, Any]] = {}
        for v in data["violations"]:
            d = v["detail"]
            if "case" not in d:
                continue  # a design-layer violation: nothing to execute
            key = (d["mode"],) + case_key(d["case"]) + (json.dumps(d.get("opts", {}), sort_keys=True),)
            if key not in todo:
                todo[key] = {"id": (CLI_BASE if d["mode"] == "cli" else 0) + len(todo), "c": d["case"],
                             **d.get("opts", {})}
        obs = execute(bench, [cs for k, cs in todo.items() if k[0] == "inproc" and "stock" not in cs],
                      [cs for k, cs in todo.items() if k[0] == "cli"],
                      [dict(cs, c=cs["res"]) for cs in todo.values() if "stock" in cs])
        traces = []
        for cs in todo.values():
            r = obs[cs["id"]]
            if "stock" in cs:  # the scenario is run again; the trace is the run the violation was seen on
                r = r if cs["part"] == "own" else (r.get("nested") or {})
                if "o" not in r:
                    print(f"replay stock={json.dumps(cs['stock'], sort_keys=True)} run={cs['part']}: not observed "
                          f"this time ({obs[cs['id']].get('skipped', 'the command was not run again')})")
                    continue
                cs["c"] = r["c"]
                r = r["o"]
            traces.append({"id": cs["id"], "c": cs["c"], "o": r})
        vd, _ = validate(traces) if traces else ({}, [])
        for k, cs in todo.items():
            if cs["id"] not in vd:
                continue
            r = vd[cs["id"]]
            print(f"replay mode={k[0]} case={json.dumps(cs['c'], sort_keys=True)} verdict={r['verdict']} "
                  f"broken={r['labels']} explained_by={[DEV_NAMES.get(d, d) for d in r['explain']]}")
            bad += r["verdict"] != "ok"
    finally:
        bench.close()
    if bad:
        print(f"VIOLATION property=C15 replay={path}")
        return 1
    return 0
