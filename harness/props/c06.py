"""C06 — DoIP: frames are demultiplexed correctly under any segmentation and interleaving.

spec   : spec/DoipContract.tla (timed contract monitor D1..D5), spec/DoipConn.tla (design layer:
         reader task, read queue, FIFO mutex, ack wait, alive check; maximal-progress timers)
MC     : MC_DoipConn_*.cfg exhaustive; devS12 / devS13 negative controls
binding: real DoIPTransport/DoIPConnection on a hand-fed asyncio.StreamReader + recording writer
         under virtual time (asyncio.open_connection replaced in the harness process);
         code->spec: every execution validated by Trace_Doip (TLC);
         spec->code: TLC-simulated design behaviours replayed as gateway schedules.
"""

from __future__ import annotations

import asyncio
import json
import random
from typing import Any

from harness import tlc, vloop
from harness.c06_doip import (ACK_TIME, CFG, SRC, TGT, Gateway, Recorder, connect, do_op, drain_and_finish, enc,
                              gw_frame, uri)
from harness.common import Machinery, Report, quiet_gallia_logging
from harness.enum import ListChooser, explore
from harness.streams import settle

ALPHA_FULL = ["AliveReq", "DiagUs", "DiagOther", "Ack", "Unknown", "NackTU", "NackBad", "AckWrongPrev",
              "AckOtherPair", "DiagOtherDst", "AckEmpty", "AckShort", "HeaderNack"]
ALPHA_QUICK = ["AliveReq", "DiagUs", "DiagOther", "Ack", "Unknown", "NackBad", "AckWrongPrev"]

PROGRAMS = {
    "WRR": [("write", 5.0, b"\x22\xf1\x90"), ("read", 1.0, b""), ("read", 1.0, b"")],
    "RWR": [("read", 1.0, b""), ("write", 5.0, b"\x3e\x00"), ("read", 1.0, b"")],
    "WWR": [("write", 5.0, b"\x10\x01"), ("write", None, b"\x10\x03"), ("read", 1.0, b"")],
    "WshortR": [("write", 1.0, b"\x22\xf1\x86"), ("read", 1.0, b"")],
}


def run_scenario(chooser: Any, prog_name: str, alphabet: list[str], budget: int, *, auto: bool,
                 cut_plan: dict[int, tuple[int, int]] | None = None) -> dict[str, Any]:
    program = PROGRAMS[prog_name]
    rec = Recorder()
    fed_names: list[str] = []

    async def main() -> None:
        gw = Gateway(rec)
        tr = await connect(rec, gw, uri(act=1))
        if tr is None:
            rec.add("Final", drained=False)
            return
        st = {"budget": budget, "nfeed": 0}

        def feed(name: str) -> None:
            st["nfeed"] += 1
            fed_names.append(name)
            cut = (cut_plan or {}).get(st["nfeed"])
            if cut:
                gw.feed_named(name, cut=cut[0], gap_ms=cut[1])
            else:
                gw.feed_named(name)

        def instant() -> None:
            while st["budget"] > 0:
                c = chooser.choose(len(alphabet) + 1)
                if c == 0:
                    return
                st["budget"] -= 1
                feed(alphabet[c - 1])

        def on_diag(_f: Any) -> None:
            instant()  # before the acknowledgement
            if auto:
                feed("Ack")
                instant()  # right after it
                loop = asyncio.get_running_loop()
                loop.call_later(0.05, lambda: feed("DiagUs") if gw.wire and not gw.wire.writer.is_closing() else None)

        gw.on_diag_out = on_diag
        for op, tmo, data in program:
            instant()
            await settle()
            task = asyncio.ensure_future(do_op(rec, tr, op, tmo, data))
            horizon = min(tmo if tmo is not None else ACK_TIME / 1000, ACK_TIME / 1000) if op == "write" \
                else (tmo or 1.0)
            t_start = asyncio.get_running_loop().time()
            for at in (0.1, horizon - 0.3, horizon - 0.05):
                delay = t_start + at - asyncio.get_running_loop().time()
                if delay > 0:
                    await asyncio.wait({task}, timeout=delay)
                if task.done():
                    break
                instant()
            await task
        await drain_and_finish(rec, tr)

    hang = False
    try:
        vloop.run(main(), horizon=600)
    except (TimeoutError, vloop.BlockedForever):
        hang = True
        rec.ev.append({"e": "Final", "t": rec.ev[-1]["t"] if rec.ev else 0, "drained": False})
        rec.ev.append({"e": "Hang", "t": rec.ev[-1]["t"]})
    return {"cfg": CFG, "ev": rec.ev, "prog": prog_name, "auto": auto, "fed": fed_names, "hang": hang,
            "cut": sorted((cut_plan or {}).items())}


def concurrent_case(write_at_ms: int, ack_delay_ms: int, diag: str, alive: bool, read_tmo: float = 1.0
                    ) -> dict[str, Any]:
    """Two tasks of the caller share one connection: a read (op "bgread") is already blocked when another task
    writes.  The gateway acknowledges the written message after ack_delay_ms; `diag`: a message for us is sent
    "before" / "after" the acknowledgement, or not at all ("none").  D4 for the write and D2/D3 for the pending
    read are judged by the same contract."""
    rec = Recorder()
    fed_names: list[str] = []

    async def main() -> None:
        gw = Gateway(rec)
        tr = await connect(rec, gw, uri(act=1))
        assert tr is not None
        loop = asyncio.get_running_loop()

        def feed(name: str) -> None:
            if gw.wire is not None and not gw.wire.writer.is_closing():
                fed_names.append(name)
                gw.feed_named(name)

        def on_diag(_f: Any) -> None:
            if diag == "before":
                loop.call_later(max(ack_delay_ms - 20, 0) / 1000, feed, "DiagUs")
            loop.call_later(ack_delay_ms / 1000, feed, "Ack")
            if diag == "after":
                loop.call_later((ack_delay_ms + 100) / 1000, feed, "DiagUs")
            if alive:
                loop.call_later((ack_delay_ms + 10) / 1000, feed, "AliveReq")

        gw.on_diag_out = on_diag

        async def bg() -> str:
            rec.add("Begin", op="bgread", tmo=int(round(read_tmo * 1000)), d=[])
            res, d = "ok", []
            try:
                d = list(await tr.read(timeout=read_tmo))
            except BaseException as e:  # noqa: BLE001
                from harness.c06_doip import classify_exc
                res = classify_exc(e)
            rec.add("End", op="bgread", res=res, d=d)
            return res

        task = asyncio.ensure_future(bg())
        await asyncio.sleep(write_at_ms / 1000)
        await do_op(rec, tr, "write", 5.0, b"\x3e\x80")
        await task
        await drain_and_finish(rec, tr)

    hang = False
    try:
        vloop.run(main(), horizon=600)
    except (TimeoutError, vloop.BlockedForever):
        hang = True
        rec.ev.append({"e": "Final", "t": rec.ev[-1]["t"] if rec.ev else 0, "drained": False})
        rec.ev.append({"e": "Hang", "t": rec.ev[-1]["t"]})
    return {"cfg": CFG, "ev": rec.ev, "prog": f"concurrent-read-write/{write_at_ms}/{ack_delay_ms}/{diag}/{alive}",
            "auto": False, "fed": fed_names, "hang": hang}


def backlog_case(nframes: int) -> dict[str, Any]:
    """The client is idle (between two requests) while the gateway sends a burst of messages for us, then an alive
    check: D5 (answered in time whatever the client is doing) and afterwards D2/D3 (every message, in order)."""
    rec = Recorder()
    fed_names: list[str] = []

    async def main() -> None:
        gw = Gateway(rec)
        tr = await connect(rec, gw, uri(act=1))
        assert tr is not None
        for _ in range(nframes):
            fed_names.append("DiagUs")
            gw.feed_named("DiagUs")
        await settle()
        fed_names.append("AliveReq")
        gw.feed_named("AliveReq")
        await asyncio.sleep(1.0)
        for _ in range(nframes):
            if await do_op(rec, tr, "read", 1.0, b"") != "ok":
                break
        await drain_and_finish(rec, tr)

    hang = False
    try:
        vloop.run(main(), horizon=6000)
    except (TimeoutError, vloop.BlockedForever):
        hang = True
        rec.ev.append({"e": "Final", "t": rec.ev[-1]["t"] if rec.ev else 0, "drained": False})
        rec.ev.append({"e": "Hang", "t": rec.ev[-1]["t"]})
    return {"cfg": CFG, "ev": rec.ev, "prog": f"backlog-while-idle/{nframes}", "auto": False, "fed": fed_names,
            "hang": hang}


def big_write_case(size: int, alive: str) -> dict[str, Any]:
    """A diagnostic message of `size` bytes (TransferData blocks are that large) is written while the gateway's
    alive check request arrives ("before": already buffered when write() starts; "during": fed when the first bytes
    of the message have left).  Every frame on the wire must be an intact frame (D4: the written message), the
    alive check is answered (D5) -- before or after the message, never inside it."""
    rec = Recorder()
    fed_names: list[str] = []

    async def main() -> None:
        gw = Gateway(rec)
        tr = await connect(rec, gw, uri(act=1))
        assert tr is not None
        gw.auto_ack = "Ack"
        data = bytes((i * 31 + 7) & 0xFF for i in range(size))
        if alive == "before":
            fed_names.append("AliveReq")
            gw.feed_named("AliveReq")
        elif alive == "during":
            seen = [False]
            orig = gw.wire.on_out if gw.wire is not None else None

            def on_out(b: bytes) -> None:
                if orig is not None:
                    orig(b)
                if not seen[0]:
                    seen[0] = True
                    fed_names.append("AliveReq")
                    gw.feed_named("AliveReq")

            if gw.wire is not None:
                gw.wire.on_out = on_out
        await do_op(rec, tr, "write", 5.0, data)
        await asyncio.sleep(0.7)
        await drain_and_finish(rec, tr)

    hang = False
    try:
        vloop.run(main(), horizon=600)
    except (TimeoutError, vloop.BlockedForever):
        hang = True
        rec.ev.append({"e": "Final", "t": rec.ev[-1]["t"] if rec.ev else 0, "drained": False})
        rec.ev.append({"e": "Hang", "t": rec.ev[-1]["t"]})
    return {"cfg": CFG, "ev": rec.ev, "prog": f"big-write/{size}/{alive}", "auto": True, "fed": fed_names, "hang": hang}


def d1_case(act: int | None, ver: int | None, code: int | None, src: int = SRC, tgt: int = TGT) -> dict[str, Any]:
    rec = Recorder()

    async def main() -> None:
        gw = Gateway(rec, rr_code=code, ver=ver if ver is not None else 3)
        tr = await connect(rec, gw, uri(src=src, tgt=tgt, act=act, ver=ver))
        await asyncio.sleep(0.7)
        rec.add("Final", drained=False)
        if tr is not None:
            await tr.close()
        await settle()

    try:
        vloop.run(main(), horizon=60)
    except (TimeoutError, vloop.BlockedForever):
        rec.ev.append({"e": "Hang", "t": 0})
    cfg = dict(CFG)
    cfg.update({"src": src, "tgt": tgt, "actType": 1 if act is None else act, "version": 3 if ver is None else ver})
    return {"cfg": cfg, "ev": rec.ev, "prog": "connect", "auto": False, "fed": [], "hang": False,
            "d1": {"act": act, "ver": ver, "code": code}}


# ---- frames the client takes off the stream without handing them to anybody (payload types it has no parser for)
# or which a consumer skips (other address pair, acknowledgements nobody waits for ...), WITH payloads of several
# lengths, at several positions of ordinary exchanges, arriving in several TCP segments
SKIP_FRAMES_QUICK = ["Unknown", "Unk:1", "Unk:2", "Unk:7", "Unk:64", "Unk:300", "UnkM:19", "UnkM:64",
                     "DiagOther:64", "DiagOtherDst:19", "DiagUs:64", "AckOtherPair", "NackTU", "AliveReq"]
SKIP_FRAMES_FULL = SKIP_FRAMES_QUICK + ["Unk:15", "Unk:30", "Unk:1500", "UnkM:304", "DiagOther:300", "DiagUs:300",
                                        "DiagOther", "DiagOtherDst", "AckWrongPrev", "AckEmpty", "AckShort",
                                        "NackBad", "HeaderNack", "Ack", "DiagUs"]
SKIP_EVERY_OFFSET_UP_TO = {"quick": 24, "thorough": 80}  # longer frames: every offset at 3 of the 10 positions
# (program, automatic ack+response, choice vector with "X" = the frame under test; the other numbers index ALPHA_FULL)
SKIP_CARRIERS = [
    ("WRR", True, ["X"]),                    # client idle; the request, its ack and the response follow
    ("WRR", True, [0, "X"]),                 # request on the wire: before the acknowledgement
    ("WRR", True, [0, 0, "X"]),              # between the acknowledgement and the response
    ("WRR", True, [0, 0, 0, 0, "X"]),        # first response read, second read about to start; nothing follows
    ("RWR", True, [0, "X"]),                 # 100 ms into a blocked read; later: request, ack, response
    ("RWR", True, [0, 0, 0, "X"]),           # 50 ms before the read's deadline
    ("WRR", False, [0, "X", 2, 4, 2]),       # X, Data, Ack, Data in one burst
    ("WRR", False, [0, 2, "X", 4, 2]),       # Data, X, Ack, Data
    ("WRR", False, [0, 2, 4, "X", 2]),       # Data, Ack, X, Data
    ("WWR", True, [0, 0, 0, "X"]),           # between two writes
]


def frame_len(name: str) -> int:
    return len(enc(gw_frame(name, b"\x22\xf1\x90", 1)))


def skip_split_plans(tier: str, rnd: random.Random) -> list[tuple[str, bool, list[int], list[str], Any, int]]:
    """(program, auto, choice vector, alphabet, cut, gap) for every frame of SKIP_FRAMES at every carrier position:
    each byte boundary of the frame (header and payload) is a segment boundary in some scenario, with the next
    segment following in the next loop iteration / after 20 ms; plus segmentations into three and more pieces.
    cut = None: the frame arrives in one piece."""
    quick = tier == "quick"
    frames = SKIP_FRAMES_QUICK if quick else SKIP_FRAMES_FULL
    out: list[tuple[str, bool, list[int], list[str], Any, int]] = []
    for xi, x in enumerate(frames):
        alphabet = ALPHA_FULL + ["X/" + x]
        n = frame_len(x)
        every = list(range(1, n))
        # around the header/payload boundary, around every boundary of the frames embedded in the payload, the tail
        near = (0, 1, 4, 5) if n <= 400 else (0,)
        sample = [o for o in every if o <= 10 or o >= n - 2 or (o - 8) % 15 in near or o % 37 == 0]
        for ci, (prog, auto, vec) in enumerate(SKIP_CARRIERS):
            v = [len(alphabet) if c == "X" else c for c in vec]
            out.append((prog, auto, v, alphabet, None, 0))
            # quick: long frames get every offset at three of the carrier positions (rotating), a sample elsewhere
            full = n <= SKIP_EVERY_OFFSET_UP_TO[tier] or (ci + xi) % len(SKIP_CARRIERS) in (1, 4, 7)
            if n > 1000:  # every offset once, spread over the positions
                full = (ci + xi) % len(SKIP_CARRIERS) == 1
            for off in (every if full else sample):
                for gap in ((0, 20) if 8 < off <= 12 or n <= 24 and not quick else (20 if (off + ci) % 2 else 0,)):
                    out.append((prog, auto, v, alphabet, off, gap))
            # three and more segments: header alone + payload in two pieces, a cut in the header and two in the
            # payload, MSS-like equal pieces, random cuts
            multi = [[8, 8 + (n - 8) // 2], [3, 9, n - 1], list(range(100, n, 100))]
            for _ in range(2 if quick else 8):
                multi.append(sorted(rnd.sample(every, min(len(every), rnd.randint(2, 4)))))
            for cuts in multi:
                cuts = sorted({c for c in cuts if 0 < c < n})
                if len(cuts) >= 2:
                    out.append((prog, auto, v, alphabet, cuts, rnd.choice([0, 20])))
    return out


MODEL_FRAME = {"ack": "Ack", "ackOther": "AckWrongPrev", "diag": "DiagUs", "diagOther": "DiagOther",
               "alive": "AliveReq", "nackBad": "NackBad", "unknown": "Unknown"}
SCRIPTS = {"wrr": ["write", "read", "read"], "rwr": ["read", "write", "read"], "wwr": ["write", "write", "read"]}


def replay_behaviour(beh: list[tuple[str, dict[str, Any]]], script: list[str]) -> tuple[dict[str, Any], dict[str, Any]]:
    """spec -> code: drive the real transport along one behaviour of DoipConn.
    Gateway sends happen where the behaviour has them (relative to operation starts and internal
    steps); internal steps = let the code run until idle; timeouts = let virtual time pass."""
    rec = Recorder()
    fed_names: list[str] = []
    got: dict[str, Any] = {"results": [], "delivered": []}
    diag_ids: dict[tuple[int, ...], int] = {}

    async def main() -> None:
        gw = Gateway(rec)
        tr = await connect(rec, gw, uri(act=1))
        assert tr is not None
        task: asyncio.Future[str] | None = None
        opi = 0
        prev_inbuf_len = 0
        nd = 0
        for act, st in beh[1:]:
            if act == "GwSend":
                f = st["inbuf"][-1]
                name = MODEL_FRAME[f[0]]
                fed_names.append(name)
                gw.feed_named(name)
                if name == "DiagUs":
                    nd += 1
                    diag_ids[tuple(gw_frame("DiagUs", b"", gw.nfeeds)["d"])] = nd
            elif act in ("WStart", "RStart"):
                if task is not None:
                    got["results"].append(await task)
                op = script[opi]
                opi += 1
                task = asyncio.ensure_future(do_op(rec, tr, op, 5.0 if op == "write" else 1.0,
                                                   b"\x22\xf1\x90" if op == "write" else b""))
            elif act in ("AckTimeout", "RTimeout"):
                if task is not None:
                    got["results"].append(await task)
                    task = None
            else:
                await settle()
        if task is not None:
            got["results"].append(await task)
        await drain_and_finish(rec, tr, drain=False)

    try:
        vloop.run(main(), horizon=600)
    except (TimeoutError, vloop.BlockedForever):
        rec.ev.append({"e": "Hang", "t": 0})
    for e in rec.ev:
        if e["e"] == "End" and e.get("op") == "read" and e.get("res") == "ok":
            got["delivered"].append(diag_ids.get(tuple(e["d"]), -1))
    t = {"cfg": CFG, "ev": rec.ev, "prog": "tlc-behaviour", "auto": False, "fed": fed_names, "hang": False}
    return t, got


def validate(traces: list[dict[str, Any]]) -> tuple[dict[int, tuple[str, int]], list[Any]]:
    verdicts: dict[int, tuple[str, int]] = {}
    results = []
    CH = 3000
    for off in range(0, len(traces), CH):
        sub = {"traces": [{"id": off + i, "cfg": t["cfg"], "ev": t["ev"]} for i, t in enumerate(traces[off:off + CH])]}
        res = tlc.validate_batch("Trace_Doip", "Trace_Doip.cfg", sub, timeout=1800)
        results.append(res)
        for p in res.prints:
            if isinstance(p, list) and len(p) == 4 and p[0] == "V":
                verdicts[p[1]] = (p[2], p[3])
    missing = [i for i in range(len(traces)) if i not in verdicts]
    if missing:
        raise Machinery(f"Trace_Doip: no verdict for {len(missing)} traces (first {missing[0]}):\n{results[-1].out[-3000:]}")
    return verdicts, results


def sig_of(t: dict[str, Any], verdict: str, idx: int) -> dict[str, Any]:
    ev = t["ev"][idx - 1] if 0 < idx <= len(t["ev"]) else {}
    s: dict[str, Any] = {"event": ev.get("e"), "op": ev.get("op"), "res": ev.get("res")}
    if t.get("d1"):
        s["d1"] = True
    s["alive_in_play"] = "AliveReq" in t["fed"]
    return s


def run(tier: str, seed: int) -> Report:
    quiet_gallia_logging()
    rep = Report("C06", tier, seed)
    rep.rule = ("executions = real DoIPTransport connect/write/read programs against a scripted gateway on a hand-fed "
                "StreamReader under virtual time; the gateway injects frames from the alphabet at every instant "
                "relative to the client's phases (before an operation, when the request hits the wire before/after "
                "the acknowledgement, 100 ms into a wait, 100 ms before its deadline), all choice vectors up to the "
                "frame budget; byte-stream segmentation: every single split point of every frame of canonical "
                "scenarios (+ random multi-splits in thorough); frames the client skips (unparsed payload types with "
                "payloads of 1..300 bytes that contain well-formed frames for us, foreign address pairs, stray "
                "acknowledgements, long messages) injected at 10 positions of the exchanges and cut at every byte "
                "boundary of header and payload, also into 3+ segments; D1: all 256 activation types x versions x response "
                "codes; distinct = distinct event sequences; non-trivial = at least one injected frame")
    rep.assumptions = [
        "asyncio.open_connection is replaced in the harness process by an in-memory connection (real StreamReader)",
        "virtual time: processing takes no time; a frame counts as delivered when its last byte is fed",
        "acknowledgement time 2000 ms and alive-check time 500 ms are the ISO 13400-2 values the statement refers to",
        "stale acknowledgements / generic header NACK: write results afterwards are not judged (unspecified)",
    ]
    traces: list[dict[str, Any]] = []
    seen: set[str] = set()

    def add(t: dict[str, Any], origin: str) -> None:
        key = json.dumps([t["cfg"], t["ev"], t.get("cut")], sort_keys=True)
        if key in seen:
            return
        seen.add(key)
        t["origin"] = origin
        traces.append(t)

    # ---- model checking of the design layer + negative controls
    mcs = ["wrr4", "rwr4", "wwr4"] if tier == "quick" else ["wrr5", "rwr5", "wwr5", "wrr6"]
    for c in mcs:
        res = tlc.run_tlc("MC_DoipConn", f"MC_DoipConn_{c}.cfg", timeout=3000, coverage=(c == mcs[0]))
        rep.add_tlc(res, f"MC_DoipConn_{c}")
        if not res.ok:
            rep.violate(f"design/{res.violated}", {"where": "DoipConn design layer", "cfg": c}, {"cex": res.cex[-8:]})
        if res.coverage:
            never = [a for a, (n, _d) in res.coverage.items() if n == 0 and a not in ("Init", "ReaderAlive")]
            rep.extra["design_actions_never_taken"] = never
            if never:
                raise Machinery(f"DoipConn: actions never taken in {c}: {never}")
    # one worker: breadth-first search is deterministic, so is the first violation found (with several workers a
    # stalled alive check also shows as an acknowledged write that fails, whichever state is reached first)
    for c, inv in (("devS12", ("D5_AliveNotStalled", "D4_AckedWritesSucceed")), ("devS13", ("D2_InOrder",))):
        res = tlc.run_tlc("MC_DoipConn", f"MC_DoipConn_{c}.cfg", timeout=900, workers=1)
        rep.add_tlc(res, f"MC_DoipConn_{c} (negative control)")
        if res.violated not in inv:
            raise Machinery(f"negative control {c} did not violate {inv} (got {res.violated})")
    # two tasks on one connection (reader blocked while another task writes): shared design layer
    res = tlc.run_tlc("ConnShared", "MC_ConnShared_ok.cfg", timeout=600, workers=2)
    rep.add_tlc(res, "MC_ConnShared_ok (two tasks on one connection)")
    if not res.ok:
        rep.violate(f"design/{res.violated}", {"where": "ConnShared design layer"}, {"cex": res.cex[-8:]})
    res = tlc.run_tlc("ConnShared", "MC_ConnShared_devNoMutex.cfg", timeout=600, workers=1)
    rep.add_tlc(res, "MC_ConnShared_devNoMutex (negative control: reader without the mutex takes the writer's ack)")
    if res.violated != "AckedWriteSucceeds":
        raise Machinery(f"negative control devNoMutex did not violate AckedWriteSucceeds (got {res.violated})")
    # ---- D1: routing activation
    acts = list(range(256))
    vers = [None, 1, 2, 3] if tier == "thorough" else [None, 2]
    for a in acts:
        for v in vers:
            add(d1_case(a, v, 0x10), "d1")
    codes = list(range(256)) if tier == "thorough" else [0, 1, 2, 3, 4, 5, 6, 7, 0x10, 0x11, 0x12, 0xE0, 0xFE, 0xFF]
    for c in codes:
        add(d1_case(1, None, c), "d1")
    add(d1_case(None, None, None), "d1")  # no response at all
    for s, g in ((0x0E80, 0x0010), (0xFFFF, 0x0001), (0x0001, 0xFFFF), (0x00F4, 0x1D00)):
        add(d1_case(0, 3, 0x10, src=s, tgt=g), "d1")
    # ---- scenario enumeration
    alpha = ALPHA_QUICK if tier == "quick" else ALPHA_FULL
    plans = [("WRR", True, 2), ("RWR", True, 2), ("WRR", False, 2), ("WWR", True, 1), ("WshortR", True, 2),
             ("WshortR", False, 2)]
    if tier == "thorough":
        plans = [("WRR", True, 3), ("RWR", True, 2), ("WRR", False, 3), ("WWR", True, 2), ("WshortR", True, 2),
                 ("WshortR", False, 3), ("RWR", False, 3), ("WRR", True, 2), ("WRR", False, 2), ("WshortR", False, 2),
                 ("RWR", False, 2)]
    # three injected frames over the full 13-letter alphabet are > 10^6 schedules (an hour of thorough tier): depth 3
    # runs over a 9-letter alphabet (every frame class once), depth <= 2 over the full one
    alpha_mid = ALPHA_QUICK + ["NackTU", "AckOtherPair"]
    for prog, auto, budget in plans:
        def runit(ch: Any, prog: str = prog, auto: bool = auto, budget: int = budget) -> dict[str, Any]:
            return run_scenario(ch, prog, alpha_mid if (budget >= 3 and tier == "thorough") else alpha, budget, auto=auto)

        for _vec, t in explore(runit, 64):
            add(t, f"enum-{prog}-{'auto' if auto else 'manual'}-b{budget}")
    # ---- segmentation: every single split point of every frame of canonical scenarios
    canon = [
        ("WRR", True, []),                                   # plain exchange
        ("WRR", True, [0, 1]),                               # alive check before the ack
        ("WRR", True, [0, 0, 2, 0, 0, 0, 1]),                # diag for us during the ack wait ... alive in the read
        ("WRR", False, [0, 2, 4, 2]),                        # Data, Ack, Data
        ("RWR", True, [0, 1, 0, 0, 3]),
    ]
    rnd = random.Random(seed)
    for prog, auto, vec in canon:
        base = run_scenario(ListChooser(vec), prog, ALPHA_FULL, 3, auto=auto)
        add(base, "canon")
        nf = sum(1 for e in base["ev"] if e["e"] == "Feed") - 1  # routing response is fed outside feed()
        for fi in range(1, nf + 1):
            for off in range(1, 16):
                for gap in (0, 20):
                    add(run_scenario(ListChooser(vec), prog, ALPHA_FULL, 3, auto=auto, cut_plan={fi: (off, gap)}),
                        "split")
        nmulti = 20 if tier == "quick" else 300
        for _ in range(nmulti):
            plan = {fi: (rnd.randint(1, 12), rnd.choice([0, 0, 5, 40])) for fi in range(1, nf + 1) if rnd.random() < 0.7}
            add(run_scenario(ListChooser(vec), prog, ALPHA_FULL, 3, auto=auto, cut_plan=plan), "multisplit")
    # ---- segmentation inside frames the client skips (unparsed payload types with payloads of 1..300 bytes, foreign
    # address pairs, stray acknowledgements ...): every byte boundary of the frame, at every carrier position
    where: dict[tuple[str, bool, tuple[int, ...], str], int] = {}
    unfed: list[str] = []  # positions the scenario never got to (only a changed client does that: judged, not split)
    for prog, auto, vec, alphabet, cut, gap in skip_split_plans(tier, rnd):
        x = alphabet[-1]
        if cut is None:
            t = run_scenario(ListChooser(vec), prog, alphabet, 5, auto=auto)
            if t["fed"].count(x) == 1:
                # the running number of the frame under test among the frames fed by the scenario
                where[prog, auto, tuple(vec), x] = 1 + t["fed"].index(x)
            else:
                unfed.append(f"{x} in {prog}/{auto}/{vec}: {t['fed']}")
            add(t, "skip-whole")
            continue
        fi = where.get((prog, auto, tuple(vec), x))
        if fi is None:
            continue
        t = run_scenario(ListChooser(vec), prog, alphabet, 5, auto=auto, cut_plan={fi: (cut, gap)})
        if len(t["fed"]) < fi or t["fed"][fi - 1] != x:
            unfed.append(f"feed {fi} is not {x} in {prog}/{auto}/{vec}: {t['fed']}")
        add(t, "skip-split")
    # ---- two tasks of the caller on one connection: a read is pending while another task writes
    for write_at in (100, 500):
        for ack_delay in (0, 1, 50, 300):
            for diag in ("none", "before", "after"):
                for alive in (False, True):
                    add(concurrent_case(write_at, ack_delay, diag, alive), "concurrent-read-write")
    # ---- a burst while the client is idle, then an alive check
    for n in ((10, 300) if tier == "quick" else (10, 300, 3000)):
        add(backlog_case(n), "backlog-while-idle")
    # large messages (above any plausible chunk size) with an alive check arriving before / while they are written
    for size in ((70_000,) if tier == "quick" else (70_000, 140_000)):
        for alive in ("none", "before", "during"):
            add(big_write_case(size, alive), "big-write")
    # ---- spec -> code: simulated behaviours of the design layer replayed into the real transport
    nsim = 120 if tier == "quick" else 1500
    ndrift = 0
    nrep = 0
    for sc in ("wrr", "rwr", "wwr"):
        sres, behs = tlc.simulate_behaviours("MC_DoipConn", f"MC_DoipConn_{sc}5.cfg", num=nsim // 3, depth=60,
                                             seed=seed + 7, timeout=900)
        for b in behs:
            if not b or b[-1][1].get("cpc") != "done":
                continue
            t, got = replay_behaviour(b, SCRIPTS[sc])
            nrep += 1
            want = b[-1][1]
            wres = ["ConnErr" if r in ("brokenpipe", "connerr") else "Timeout" if r == "timeout" else "ok"
                    for r in want["results"]]
            if wres != got["results"] or list(want["delivered"]) != got["delivered"]:
                ndrift += 1
                rep.drift.append({"script": sc, "fed": t["fed"], "design": [wres, want["delivered"]],
                                  "code": [got["results"], got["delivered"]]})
            add(t, "tlc-simulate")
    rep.extra["spec_to_code_replayed"] = nrep
    rep.extra["spec_to_code_drift"] = ndrift
    # ---- code -> spec
    verdicts, results = validate(traces)
    for r in results:
        rep.add_tlc(r, "Trace_Doip batch")
    rep.traces = rep.evaluations = len(traces)
    for i, t in enumerate(traces):
        if t["fed"] or t.get("d1"):
            rep.nontrivial.add(i)
        v, idx = verdicts[i]
        if t["hang"]:
            v = "liveness/operation-blocked-forever"
        if v != "ok":
            rep.violate(v, sig_of(t, v, idx), {"prog": t["prog"], "auto": t["auto"], "fed": t["fed"], "at_event": idx,
                                               "events": t["ev"][max(0, idx - 6): idx + 1], "origin": t["origin"],
                                               "d1": t.get("d1")})
    if unfed and not rep.violations:
        raise Machinery(f"skip-split: the frame under test was not fed in {len(unfed)} scenarios, e.g. {unfed[0]}")
    for t in traces[300:302] + traces[-2:]:
        rep.sample({"prog": t["prog"], "fed": t["fed"], "events": [
            (e["e"], e["t"], e.get("op") or (e.get("f") or {}).get("k"), e.get("res")) for e in t["ev"]][:24]})
    rep.extra["origins"] = {o: sum(1 for t in traces if t["origin"] == o) for o in sorted({t["origin"] for t in traces})}
    rep.exhaustive = True
    return rep


def replay(path: str) -> int:
    """Scenarios are deterministic functions of (tier, seed): re-run that enumeration against the current tree
    and report whether the recorded violation signatures still occur."""
    import json as _json

    from harness import common as _common

    data = _json.loads(open(path).read())
    rep = run(data.get("tier", "quick"), int(data.get("seed", 0)))
    want = {(v["clause"], _json.dumps(v["sig"], sort_keys=True)) for v in data.get("violations", [])}
    got = {(v.clause, _json.dumps(v.sig, sort_keys=True)) for v in rep.violations}
    still = want & got
    print(f"replay: {len(still)} of {len(want)} recorded violation signatures reproduce on the current tree")
    if still:
        print(f"VIOLATION property={rep.property_id} replay={path}")
        return 1
    return 0
