"""C19 — line-based transports deliver every message intact, in order, one per read.

spec   : spec/Framing.tla (generic stream -> frames, segmentation independence),
         spec/LinesStreamContract.tla (T1..T3 as a monitor over Send/Feed/Close/ReadBegin/ReadEnd),
         spec/LinesStream.tla (design: readline-shaped reader on Framing; Dev_S14_PartialLineAtEof)
MC     : MC_Framing_{lines,prefix} exhaustive, MC_Framing_greedy negative control;
         MC_LinesStream exhaustive (3 messages of length 1..2 x all segmentations x timeout at every
         point of a partial line x close at every offset), MC_LinesStream_devS14 negative control
binding: real TCPLinesTransport / UnixLinesTransport (real connect(), patched open_connection) and the
         real TCPUDSServerTransport.handle_client with an echo-like UDSServer on hand-fed
         asyncio.StreamReaders under virtual time; once per tier also real loopback TCP / unix sockets.
         also (virtual time): a peer that emits blank / whitespace-only lines (keep-alives) around and instead of
         messages, read directly and through UDSClient.request(), every timed read under a watchdog ("Overdue");
         and connections to the server transport's own run() -- in-memory network, the server module's clock on
         the virtual loop -- that stay idle for 5..61 s between requests.
         code->spec: every execution validated by Trace_LinesStream (TLC);
         spec->code: TLC-simulated design behaviours replayed step by step.
"""

from __future__ import annotations

import asyncio
import hashlib
import json
import random
import time as _time
from concurrent.futures import ThreadPoolExecutor
from typing import Any

from harness import c19_lines as L
from harness import streams, tlc, vloop
from harness.common import Machinery, Report, quiet_gallia_logging
from harness.enum import explore

Plan = list[tuple[Any, ...]]
TLC_ENV = {"JAVA_TOOL_OPTIONS": "-Xss512m"}

READER_NAME = {"tcp": "LinesTransportMixin.read", "unix": "LinesTransportMixin.read",
               "server": "TCPUDSServerTransport.handle_client"}

SHORT_SETS = [
    [b"\x0a", b"\xab\xcd", b"\x00"],          # contains the newline byte; 11 stream bytes
    [b"\x0d\x0a\x20", b"\x0a"],               # CR LF SPACE as message content; 10 stream bytes
    [b"\x31", b"\x31", b"\x31\x31"],          # repeated content, one a prefix of the other; 11 stream bytes
]
TINY_SET = [b"\x0a", b"\xff"]                 # 6 stream bytes: exhaustive 4-way choice per boundary


# --------------------------------------------------------------------------
# scenarios (JSON-able, self-contained: the replay file holds them)


def msgs_of(spec: Any) -> list[bytes]:
    if isinstance(spec, dict) and "rand" in spec:
        seed, n, mode = spec["rand"]
        return random_msgs(random.Random(seed), n, mode)
    return [bytes.fromhex(h) for h in spec]


def random_msgs(rnd: random.Random, n: int, mode: str) -> list[bytes]:
    out = []
    for i in range(n):
        if mode == "small":
            ln = rnd.randint(1, 24)
        elif mode == "mixed":
            ln = rnd.choice([1, 2, 3, rnd.randint(1, 64), rnd.randint(1, 600), rnd.randint(1, 4095), 4095, 4094])
        elif mode.startswith("len:"):  # consecutive lengths a.. (every length once)
            ln = int(mode[4:]) + i
        else:
            raise Machinery(f"unknown message mode {mode}")
        m = rnd.randbytes(ln)
        if i % 17 == 5 and out:
            m = out[rnd.randrange(len(out))]  # repeated content inside a burst
        out.append(m)
    return out


_emit_cache: dict[tuple[str, bytes], list[bytes]] = {}


def emit_cached(kind: str, msgs: list[bytes]) -> list[bytes]:
    key = (kind, hashlib.sha1(b"\x00".join(m.hex().encode() for m in msgs)).digest())
    if key not in _emit_cache:
        _emit_cache[key] = L.emit_client(kind, msgs)
    return _emit_cache[key]


def materialize(scn: dict[str, Any]) -> tuple[list[bytes], list[bytes]]:
    """(contents, wire chunks) of the direction the scenario's reader consumes."""
    msgs = msgs_of(scn["msgs"])
    src = scn.get("src", "ref")
    if src == "ref":
        return msgs, [L.ref_encode(m) for m in msgs]
    if src.startswith("client:"):  # written by the real transport.write() of that kind
        return msgs, emit_cached(src.split(":")[1], msgs)
    if src.startswith("client2:"):  # written by two concurrent tasks through one real transport
        return L.emit_client_concurrent(src.split(":")[1], msgs)
    if src.startswith("server:"):  # the replies the real server loop wrote for these requests
        wk = src.split(":")[1]
        up = L.run_reader("server", msgs, emit_cached(wk, msgs), [tuple(op) for op in scn["up_plan"]], [0], "feeder")
        return [r for r, _ in up["replies"]], [w for _, w in up["replies"]]
    raise Machinery(f"unknown source {src}")


def line_geometry(chunks: list[bytes]) -> list[int]:
    ends, t = [], 0
    for c in chunks:
        t += len(c)
        ends.append(t)
    return ends


def features(chunks: list[bytes], plan: Plan) -> dict[str, Any]:
    """Environment features of a scenario (from the plan only, never from the outcome)."""
    ends = line_geometry(chunks)
    total = ends[-1] if ends else 0
    endset = set(ends) | {0}
    pos = 0
    split_inside = coalesced = wait_partial = False
    eof_at: int | None = None
    for op in plan:
        if op[0] == "F":
            a, b = pos, min(total, pos + op[1])
            if b > a:
                if sum(1 for e in ends if a < e <= b) + (1 if b not in endset else 0) >= 2:
                    coalesced = True
                if b not in endset:
                    split_inside = True
            pos = b
        elif op[0] in ("G", "T"):
            if pos not in endset:
                wait_partial = True
        elif op[0] == "E":
            eof_at = pos
            break
    cut = "none"
    if eof_at is not None and eof_at < total:
        start = max(e for e in endset if e <= eof_at)
        cut = "line-boundary" if eof_at == start else "inside-line"
    elif eof_at is not None:
        cut = "after-all"
    return {"split_inside": split_inside, "coalesced": coalesced, "wait_partial": wait_partial, "eof": cut,
            "nontrivial": split_inside or coalesced or wait_partial or cut in ("inside-line", "line-boundary")}


def execute_all(scn: dict[str, Any]) -> list[dict[str, Any]]:
    """Run one scenario; the idle-connection family yields one trace per connected client."""
    fam = scn.get("fam", "")
    if fam.startswith("blank-line-peer"):
        rs = [L.run_noise_reader(scn)]
        lens = [len(h) // 2 for h in scn.get("before", []) + scn.get("after", [])]
    elif fam.startswith("idle-connection"):
        rs = L.run_idle_server(scn)
        lens = [len(h) // 2 for st in scn["plan"] if st[0] == "R" for h in st[2]]
    else:
        return [execute(scn)]
    for r in rs:
        r["scn"] = scn
        r["feat"] = {"nontrivial": True, "eof": "after-all" if scn.get("eof") else "none"}
        r["lens"] = lens
    return rs


def execute(scn: dict[str, Any]) -> dict[str, Any]:
    contents, chunks = materialize(scn)
    plan = [tuple(op) for op in scn["plan"]]
    res = L.run_reader(scn["kind"], contents, chunks, plan, scn["policy"], scn.get("lead", "feeder"),
                       scn.get("via", "read"))
    res["scn"] = scn
    res["feat"] = features(chunks, plan)
    res["lens"] = [len(c) for c in contents]
    return res


# --------------------------------------------------------------------------
# plan families


def plan_segments(n: int, cuts: list[int], between: Plan, eof: bool = True) -> Plan:
    plan: Plan = []
    prev = 0
    for c in sorted(set(cuts)) + [n]:
        if c <= prev:
            continue
        plan.append(("F", c - prev))
        plan.extend(between)
        prev = c
    if not between:
        plan.append(("Z",))
    if eof:
        plan.append(("E",))
    return plan


def short_scenarios(kind: str, msgs: list[bytes], src: str, tier: str, with_allseg: bool,
                    lean: bool = False) -> list[dict[str, Any]]:
    base = {"kind": kind, "msgs": [m.hex() for m in msgs], "src": src}
    if src.startswith("server:"):
        base["up_plan"] = [["F", 10 ** 9], ["Z"], ["E"]]
    _, chunks = materialize({**base, "plan": [], "policy": [0]})
    n = sum(len(c) for c in chunks)
    timed = kind != "server"
    pol_all = [[0], [L.READ_TO_MS]] if timed else [[0]]
    out: list[dict[str, Any]] = []

    def add(fam: str, plan: Plan, policy: list[int], lead: str) -> None:
        out.append({**base, "fam": fam, "plan": [list(op) for op in plan], "policy": policy, "lead": lead})

    # every single split point
    for p in range(1, n):
        for pol in pol_all:
            for lead in ("feeder", "reader"):
                add("split1", plan_segments(n, [p], [("Z",)]), pol, lead)
    # every pair of split points
    for p in range(1, n):
        for q in range(p + 1, n):
            add("split2", plan_segments(n, [p, q], [("Z",)]), [0], "reader" if (p + q) % 2 else "feeder")
    # every segmentation (2^(n-1)); with and without the reader running between segments
    if with_allseg:
        for mask in range(1 << (n - 1)):
            cuts = [i + 1 for i in range(n - 1) if mask >> i & 1]
            add("allseg", plan_segments(n, cuts, [("Z",)]), [0], "reader")
            if tier == "thorough" or mask % 4 == 1:
                add("allseg-coalesced", plan_segments(n, cuts, []), pol_all[-1], "feeder")
    # a read timeout before each byte of a partially delivered line
    for p in range(0, n):
        rest = n - p
        for lead in ("feeder", "reader"):
            add("timeout1", [("F", p), ("Z",), ("T",), ("F", rest), ("Z",), ("E",)], [L.READ_TO_MS], lead)
        if rest >= 2:
            add("timeout2", [("F", p), ("Z",), ("T",), ("F", 1), ("Z",), ("T",), ("F", rest - 1), ("Z",), ("E",)],
                [L.READ_TO_MS], "reader")
        for gap in (2500,) if lean else (2500, L.READ_TO_MS, L.READ_TO_MS - 1):  # several timeouts / exact tie / just not
            for pol in ([L.READ_TO_MS], [0, L.READ_TO_MS], [L.READ_TO_MS, 0]) if timed else ([0],):
                add("gap", [("F", p), ("G", gap), ("F", rest), ("Z",), ("E",)], pol, "reader")
    # peer close at every offset
    for p in range(0, n + 1):
        for pol in pol_all:
            for lead in ("feeder", "reader"):
                add("eof", [("F", p), ("Z",), ("E",)], pol, lead)
                add("eof-with-data", [("F", p), ("E",)], pol, lead)
        for a in range(1, p):
            if tier == "thorough" or (a + p) % 3 == 0:
                add("eof-split", [("F", a), ("Z",), ("F", p - a), ("Z",), ("E",)], [0], "reader")
        if timed and 0 < p:
            add("eof-after-timeout", [("F", p), ("Z",), ("T",), ("E",)], [L.READ_TO_MS], "reader")
    # stream stays open
    for pol in pol_all:
        add("open-end", [("F", n), ("Z",)], pol, "reader")
    if timed:
        # the same timeout scenarios with the time limit owned by the caller (wait_for around read() / request())
        k = 0
        for scn in list(out):
            if scn["fam"] in ("timeout1", "timeout2", "gap", "eof-after-timeout") and all(scn["policy"]):
                k += 1
                if tier == "thorough" or scn["fam"] != "gap" or k % 3 == 0:
                    out.append({**scn, "fam": scn["fam"] + "/caller-owned", "via": ("outer-read", "outer-request")[k % 2]})
    return out


def explore_scenarios(kind: str, msgs: list[bytes]) -> list[dict[str, Any]]:
    """Exhaustive choice vectors: at every byte boundary the environment chooses
    {no cut, cut, cut + read timeout (server: time passes), peer close}; at the end
    {close, stay open}."""
    chunks = [L.ref_encode(m) for m in msgs]
    n = sum(len(c) for c in chunks)
    base = {"kind": kind, "msgs": [m.hex() for m in msgs], "src": "ref", "fam": "explore",
            "policy": [L.READ_TO_MS], "lead": "reader"}
    out: list[dict[str, Any]] = []

    def build(ch: Any) -> Plan:
        plan: Plan = []
        seg = 0
        for j in range(1, n + 1):
            seg += 1
            if j == n:
                plan += [("F", seg), ("Z",)]
                if ch.choose(2) == 0:
                    plan.append(("E",))
                break
            o = ch.choose(4)
            if o == 0:
                continue
            plan += [("F", seg), ("Z",)]
            seg = 0
            if o == 2:
                plan.append(("T",))
            elif o == 3:
                plan.append(("E",))
                break
        return plan

    for _vec, plan in explore(build, n + 1):
        out.append({**base, "plan": [list(op) for op in plan]})
    return out


def random_plan(rnd: random.Random, n: int, timed: bool, max_cuts: int) -> Plan:
    k = rnd.randint(1, max_cuts)
    style = rnd.random()
    if style < 0.25:  # many tiny segments at the start of the stream, then the rest coalesced
        cuts = list(range(1, min(n, k)))
    else:
        cuts = sorted({rnd.randrange(1, n) for _ in range(k)}) if n > 1 else []
    plan: Plan = []
    prev = 0
    eof_at = n if rnd.random() < 0.7 else rnd.randrange(0, n + 1)
    for c in cuts + [n]:
        c = min(c, eof_at)
        if c > prev:
            plan.append(("F", c - prev))
            prev = c
            x = rnd.random()
            if x < 0.5:
                plan.append(("Z",))
            elif x < 0.6:
                plan.append(("T",) if timed else ("G", 1000))
            elif x < 0.7:
                plan.append(("G", rnd.choice([1, 500, 999, 1000, 1001, 3000])))
            # else: next segment handed over back to back (coalesced by the reader)
        if c >= eof_at:
            break
    plan.append(("Z",))
    if rnd.random() < 0.9:
        plan.append(("E",))
    return plan


def long_scenarios(tier: str, seed: int) -> list[dict[str, Any]]:
    rnd = random.Random(seed * 7919 + 19)
    out: list[dict[str, Any]] = []
    allbytes = [bytes([b]) for b in range(256)] + [bytes(range(256)), bytes(range(255, -1, -1)) * 15 + bytes(255)]
    specs: list[Any] = [[m.hex() for m in allbytes]]
    nb = 2 if tier == "quick" else 16
    for i in range(nb):
        specs.append({"rand": [seed * 1000 + i, 100, "small" if i % 2 == 0 else "mixed"]})
    if tier == "thorough":
        for a in range(1, 4096, 100):  # every length 1..4095 once
            specs.append({"rand": [seed * 1000 + 500 + a, min(100, 4096 - a), f"len:{a}"]})
    else:
        for a in (1, 4000):
            specs.append({"rand": [seed * 1000 + 500 + a, 96 if a == 4000 else 40, f"len:{a}"]})
    reps = 2 if tier == "quick" else 6
    for si, spec in enumerate(specs):
        for kind in L.KINDS:
            srcs = ["ref"]
            if si < 3:
                srcs += ["client:tcp" if kind == "server" else f"server:{'tcp' if kind == 'tcp' else 'unix'}"]
            for src in srcs:
                base = {"kind": kind, "msgs": spec, "src": src}
                if src.startswith("server:"):
                    base["up_plan"] = [["F", 10 ** 9], ["Z"], ["E"]]
                _, chunks = materialize({**base, "plan": [], "policy": [0]})
                n = sum(len(c) for c in chunks)
                for r in range(reps):
                    timed = kind != "server" and r % 2 == 0
                    plan = random_plan(rnd, n, timed, 40 if r % 2 else 400)
                    pol = [L.READ_TO_MS] if timed else [0] if (kind == "server" or r % 4 == 1) else [0, L.READ_TO_MS]
                    if any(op[0] == "T" for op in plan) and kind != "server":
                        pol = [L.READ_TO_MS]
                    out.append({**base, "fam": "burst", "plan": [list(op) for op in plan], "policy": pol,
                                "lead": "reader" if r % 2 else "feeder"})
    return out


NOISE_LINES = ["0a", "0d0a", "200a"]  # non-message lines a peer may emit as keep-alive: LF, CR LF, SPACE LF


def noise_scenarios(tier: str) -> list[dict[str, Any]]:
    """A peer (the environment) that emits blank / whitespace-only lines: more often than the read timeout for
    longer than any bounded re-arming could explain (no message arrives meanwhile: the read must END), and short /
    rare chatters around real messages (whatever the read reports for the blank lines, the messages arrive intact,
    in order, one per read).  Directly through transport.read() and through UDSClient.request()."""
    T = L.READ_TO_MS
    m1, m2, m3 = b"\x62\xf1\x90\x0a", b"\x0a", b"\x7f\x22\x31"
    out: list[dict[str, Any]] = []

    def add(kind: str, via: str, to: int, noise: str, interval: int, count: int, before: Any = (), after: Any = (),
            after_gap: int = 0, eof: bool = False) -> None:
        b, a = [m.hex() for m in before], [m.hex() for m in after]
        out.append({"fam": "blank-line-peer" + ("/uds-request" if via == "uds" else ""), "kind": kind, "via": via,
                    "to": to, "noise": noise, "interval": interval, "count": count, "before": b, "after": a,
                    "after_gap": after_gap, "eof": eof, "policy": [to], "src": "ref",
                    "plan": [["B"] + b, ["N", noise, interval, count], ["G", after_gap], ["A"] + a] + ([["E"]] if eof else [])})

    def long_for(to: int, interval: int) -> int:  # the chatter outlasts the watchdog of a read with timeout `to`
        return (L.OVERDUE_WATCH + 2) * to // interval + 1

    for kind in L.CLIENT_KINDS:
        for noise in NOISE_LINES:
            for interval in (T // 4, T // 2, T - 1):
                n = long_for(T, interval)
                add(kind, "read", T, noise, interval, n)                                      # nothing else, stream open
                add(kind, "read", T, noise, interval, n, [m1], [m2, m3], interval // 2, True)  # messages around it
                add(kind, "read", T, noise, interval, n, (), [m1], 3 * T)                      # then silence, then a message
            for interval in (100, T, T + T // 2, 3 * T):                                      # a few lines, also rare ones
                for count in (1, 3):
                    add(kind, "read", T, noise, interval, count, [m1], [m2], 10, True)
                    add(kind, "read", 0, noise, interval, count, (), [m2, m1], 0, True)
        for to in (300, 5000) if tier == "quick" else (100, 300, 2000, 5000, 30000):
            add(kind, "read", to, "0a", to // 3, long_for(to, to // 3), (), [m1], 0, True)
        # one UDS request over the transport: first read with the request's timeout, 0.5 s polls after a ResponsePending
        pending, final = b"\x7f\x3e\x78", b"\x7e\x00"
        for noise in NOISE_LINES[:2]:
            for interval in (250, 400):
                n = long_for(T, interval)
                add(kind, "uds", T, noise, interval, n)
                add(kind, "uds", T, noise, interval, n, [pending])
                add(kind, "uds", T, noise, interval, 3, [pending], [final], 100)
                add(kind, "uds", T, noise, interval, 2, (), [final], 100)
    return out


def idle_scenarios(tier: str) -> list[dict[str, Any]]:
    """Connections to the virtual ECU's line server (its own run()) that stay open and idle for a while between
    requests: every request still gets exactly its own reply, one per read; nothing else shows up at the client."""
    out: list[dict[str, Any]] = []

    def q(i: int, who: int = 0) -> str:
        return (bytes([0x22 if i % 2 else 0x31, 0xA0 + who, i]) + bytes([i] * (i % 4))).hex()

    def add(kind: str, steps: list[list[Any]]) -> None:
        out.append({"fam": "idle-connection", "kind": kind, "plan": steps, "policy": [5000], "src": "server:run"})

    gaps = (5000, 11000, 25000, 61000)
    for kind in L.CLIENT_KINDS:
        for g in gaps:
            add(kind, [["R", "A", [q(0)]], ["I", g], ["R", "A", [q(1)]], ["I", g], ["R", "A", [q(2), q(3), q(4)]]])
            add(kind, [["R", "A", [q(0), q(1), q(2)]], ["I", g], ["R", "A", [q(3), q(4), q(5)]], ["P", "A", 500]])
            add(kind, [["R", "A", [q(0)]], ["I", g], ["P", "A", 500], ["R", "A", [q(1)]]])
            add(kind, [["I", g], ["R", "A", [q(0)]], ["R", "A", [q(1)]]])                    # idle right after connecting
        add(kind, [["R", "A", [q(0)]], ["I", 5000], ["R", "A", [q(1)]], ["I", 11000], ["R", "A", [q(2)]], ["I", 25000],
                   ["R", "A", [q(3)]], ["I", 61000], ["R", "A", [q(4)]]])
        # a second tester connected at the same time: both pause / one sits idle while the other one keeps going
        add(kind, [["R", "A", [q(0)]], ["R", "B", [q(0, 1)]], ["I", 25000], ["R", "B", [q(1, 1)]], ["R", "A", [q(1)]]])
        busy: list[list[Any]] = [["R", "B", [q(0, 1)]]]
        for i in range(8):
            busy += [["R", "A", [q(i)]], ["I", 4000]]
        add(kind, busy + [["R", "B", [q(1, 1)]], ["P", "A", 500]])
    return out


# --------------------------------------------------------------------------
# TLC validation


def trace_json(i: int, res: dict[str, Any], with_bytes: bool) -> dict[str, Any]:
    t: dict[str, Any] = {"id": i, "ev": res["ev"], "bytes": 1 if with_bytes else 0, "tab": [], "rb": [], "wire": []}
    if with_bytes:
        tab = sorted(res["tab"].items(), key=lambda kv: kv[1])
        t["tab"] = [list(b) for b, _ in tab]
        t["rb"] = [list(b) for b in res["rb"]]
        fed = sum(e["n"] for e in res["ev"] if e["e"] == "Feed")
        t["wire"] = list(res["wire"][:fed])
    return t


def validate(results: list[dict[str, Any]], rep: Report | None, label: str,
             byte_ids: set[int] | None = None) -> dict[int, tuple[str, str]]:
    verdicts: dict[int, tuple[str, str]] = {}
    batches: list[list[dict[str, Any]]] = [[]]
    size = 0
    for i, r in enumerate(results):
        wb = (len(r["wire"]) <= 64 and r["wire"] != b"") or (byte_ids is not None and i in byte_ids)
        t = trace_json(i, r, wb)
        batches[-1].append(t)
        size += len(t["ev"]) + (len(t["wire"]) if wb else 0)
        if len(batches[-1]) >= 2500 or size >= 400_000:
            batches.append([])
            size = 0
    batches = [b for b in batches if b]

    def one(batch: list[dict[str, Any]]) -> Any:
        return tlc.validate_batch("Trace_LinesStream", "Trace_LinesStream.cfg", {"traces": batch}, timeout=1800,
                                  env=TLC_ENV, heap="3g")

    with ThreadPoolExecutor(max_workers=4) as ex:
        outs = list(ex.map(one, batches))
    for batch, res in zip(batches, outs):
        if rep is not None:
            rep.add_tlc(res, f"Trace_LinesStream {label} ({len(batch)} traces)")
        for p in res.prints:
            if isinstance(p, list) and len(p) == 4 and p[0] == "V":
                verdicts[p[1]] = (p[2], p[3])
        miss = [t["id"] for t in batch if t["id"] not in verdicts]
        if miss:
            raise Machinery(f"TLC produced no verdict for {len(miss)} traces (first id {miss[0]}):\n{res.out[-2000:]}")
    return verdicts


def sig_of(res: dict[str, Any]) -> dict[str, Any]:
    kind = res["kind"]
    base = kind.replace("real-e2e-", "").replace("real-server-", "server-").replace("real-", "")
    reader = "TCPUDSServerTransport.handle_client" if ("server" in kind or kind.endswith("-up")) \
        else "LinesTransportMixin.read"
    feat = res.get("feat") or {}
    src = (res.get("scn") or {}).get("src", "ref")
    sender = {"ref": "reference-encoder", "client": "LinesTransportMixin.write", "client2": "LinesTransportMixin.write (two tasks)", "server": "handle_client-reply"}[src.split(":")[0]]
    if kind.startswith("real-e2e"):
        sender = "LinesTransportMixin.write" if kind.endswith("-up") else "handle_client-reply"
    return {"reader": reader, "sender": sender, "transport": "unix-lines" if "unix" in base else "tcp-lines",
            "input": "eof-inside-line" if feat.get("eof") == "inside-line" else "other"}


# --------------------------------------------------------------------------
# spec -> code


def replay_behaviour(beh: list[tuple[str, dict[str, Any]]], kind: str) -> tuple[dict[str, Any] | None, list[str]]:
    """Replay the environment actions of one TLC behaviour of the design layer
    into the real client transport; compare the design's reader results / buffer
    with the code's after every reader step.  Returns (recorded trace, disagreements)."""
    if not beh:
        return None, []
    sent = [bytes(m) for m in beh[0][1]["sent"]]
    chunks = [L.ref_encode(m) for m in sent]
    stream = b"".join(chunks)
    rec = L.Rec(sent)
    for m, ch in zip(sent, chunks):
        rec.send(m, len(ch))
    diffs: list[str] = []
    eq_plan: Plan = []  # the environment's part of the behaviour in the plan language

    async def main() -> None:
        lis = streams.Listener()
        with streams.patched_connections(lis):
            tr = await L.CLS[kind].connect(L.FAKE_URI[kind])
        wire = lis.wires[0]
        pos = 0
        task: asyncio.Task[bytes] | None = None
        prev = beh[0][1]
        for act, st in beh[1:]:
            if act in ("Deliver", "DeliverAny"):
                k = len(prev["stream"]) - len(st["stream"])
                eq_plan.append(("F", k))
                rec.feed(k)
                wire.feed(stream[pos:pos + k])
                pos += k
                await streams.settle(4)
            elif act == "PeerClose":
                eq_plan.append(("E",))
                rec.close()
                wire.eof()
                await streams.settle(4)
            elif act == "ReadStart":
                to = st["rd"]["to"]
                rec.begin(to)
                task = asyncio.ensure_future(tr.read(timeout=to / 1000.0 if to else None))
                await streams.settle(4)
            elif act in ("ReadReturn", "ReadTimeout"):
                assert task is not None
                if act == "ReadTimeout":
                    eq_plan.append(("T",))
                    await asyncio.sleep(prev["rd"]["to"] / 1000.0 + 0.001)
                await streams.settle(4)
                if not task.done():
                    diffs.append(f"{act}: the code's read is still pending")
                    task.cancel()
                    rec.end("Hang")
                    return
                want = "Timeout" if act == "ReadTimeout" else (
                    "Msg" if len(st["delivered"]) > len(prev["delivered"]) else
                    "Empty" if st["rd"]["st"] == "done" else "Error")
                try:
                    data = task.result()
                    got = "Msg" if data else "Empty"
                except asyncio.TimeoutError:
                    data, got = b"", "Timeout"
                except Exception:  # noqa: BLE001
                    data, got = b"", "Error"
                rec.end(got, data)
                if got != want:
                    diffs.append(f"{act}: design {want}, code {got}")
                elif got == "Msg" and list(data) != list(st["delivered"][-1]):
                    diffs.append(f"{act}: design returns {st['delivered'][-1]}, code {list(data)}")
                buf = len(getattr(wire.reader, "_buffer", b""))
                if got == want and buf != len(st["buf"]):
                    diffs.append(f"{act}: design buffer {len(st['buf'])} bytes, code {buf}")
                task = None
            else:
                raise Machinery(f"unknown action {act} in a simulated behaviour")
            prev = st
        if task is not None and not task.done():
            task.cancel()  # the trace simply ends with a read in progress
        await tr.close()

    vloop.run(main(), horizon=3600.0)
    res = {"kind": kind, "ev": rec.ev, "rb": rec.rb, "tab": rec.tab, "wire": stream, "notes": rec.notes,
           "replies": [], "outcomes": rec.outcomes(), "feat": features(chunks, eq_plan),
           "lens": [len(m) for m in sent],
           "scn": {"fam": "tlc-simulate", "kind": kind, "msgs": [m.hex() for m in sent],
                   "actions": [a for a, _ in beh[1:]]}}
    return res, diffs


# --------------------------------------------------------------------------
# real sockets vs. the in-memory fakes


def real_socket_stage(rep: Report, tier: str, seed: int) -> tuple[list[dict[str, Any]], list[tuple[int, int, str]]]:
    """Runs over real loopback TCP / unix sockets (normal loop, small real timeouts), each
    paired with the same plan on the in-memory fake.  Returns the traces and the pairs
    (index of the fake run, index of the real run, what to compare); the comparison is made
    after TLC accepted both (outcomes of a conforming reader do not depend on segmentation,
    so fake and kernel must agree; a rejected trace is reported as a violation instead)."""
    rnd = random.Random(seed + 4242)
    msgs = [b"\x0a", b"\xab\xcd", b"\x00", bytes(range(256)), rnd.randbytes(4095)]
    chunks = [L.ref_encode(m) for m in msgs]
    n = sum(len(c) for c in chunks)
    plans: list[tuple[Plan, list[int]]] = [
        ([("F", n), ("Z",), ("E",)], [0]),
        ([("F", 2), ("Z",), ("T",), ("F", 4), ("Z",), ("T",), ("F", n - 6), ("Z",), ("E",)], [L.READ_TO_MS]),
        ([("F", 1), ("Z",), ("F", 7), ("Z",), ("F", 600), ("Z",), ("T",), ("F", n - 608), ("Z",), ("E",)],
         [L.READ_TO_MS]),
        ([("F", 3), ("Z",), ("F", 2), ("Z",), ("E",)], [0]),          # close inside a line, even hex offset
        ([("F", 6), ("Z",), ("E",)], [0]),                             # close inside a line, odd hex offset
        ([("F", 7), ("Z",), ("E",)], [L.READ_TO_MS]),                   # close just before the newline
        ([("F", 8), ("Z",), ("E",)], [0]),                             # close at a line boundary
        ([("E",)], [0]),                                               # close at once
    ]
    if tier == "thorough":
        for _ in range(12):
            plans.append((random_plan(rnd, n, True, 30), [L.READ_TO_MS]))
    results: list[dict[str, Any]] = []
    pairs: list[tuple[int, int, str]] = []

    def put(r: dict[str, Any], fam: str, kind: str, plan: Plan, pol: list[int] | None) -> int:
        r["feat"] = features(chunks, plan)
        r["scn"] = {"fam": fam, "kind": kind, "msgs": [m.hex() for m in msgs], "src": "ref",
                    "plan": [list(op) for op in plan], "policy": pol or [0], "lead": "reader"}
        r["lens"] = [len(m) for m in msgs]
        results.append(r)
        return len(results) - 1

    for kind in L.CLIENT_KINDS:
        for plan, pol in plans:
            if any(op[0] == "G" for op in plan):
                plan = [op if op[0] != "G" else ("T",) for op in plan]
                pol = [L.READ_TO_MS]
            if not any(op[0] == "E" for op in plan):
                plan = plan + [("E",)]
            fake = L.run_reader(kind, msgs, chunks, plan, pol, "reader")
            real = L.run_real(lambda d, kind=kind, plan=plan, pol=pol: L.real_client_run(kind, msgs, chunks, plan, pol, d))
            pairs.append((put(fake, "real-socket-twin", kind, plan, pol), put(real, "real-socket", kind, plan, pol),
                          "client"))
        # the server loop behind a real listening socket
        for plan, _pol in plans:
            plan = [op for op in plan if op[0] not in ("T", "G")]
            if not any(op[0] == "E" for op in plan):
                plan = plan + [("E",)]
            fake = L.run_reader("server", msgs, chunks, plan, [0], "reader")
            real = L.run_real(lambda d, kind=kind, plan=plan: L.real_server_run(kind, msgs, chunks, plan, d))
            pairs.append((put(fake, "real-socket-twin", "server", plan, None),
                          put(real, "real-socket-server", kind, plan, None), "server"))
        # real client transport <-> real server loop
        small = random_msgs(random.Random(seed + 77), 100, "small")
        for mode, ms in (("lockstep", msgs + small[:20]), ("burst", small)):
            for tr in L.run_real(lambda d, kind=kind, mode=mode, ms=ms: L.real_end_to_end(kind, ms, mode, d)):
                tr["feat"] = {"nontrivial": True, "eof": "after-all"}
                tr["scn"] = {"fam": "real-e2e", "kind": kind, "mode": mode, "n": len(ms)}
                tr["lens"] = [len(m) for m in ms]
                results.append(tr)
        # ... with the listening socket created by the server transport's own run(), messages up to the ISO-TP
        # maximum of 4095 bytes (8190 characters on the line)
        big = [bytes([0x36, i]) + bytes((i * 7 + j) % 256 for j in range(n - 2))
               for i, n in enumerate([3, 1023, 1024, 1025, 2047, 2048, 2049, 3000, 4094, 4095])]
        for tr in L.run_real(lambda d, kind=kind, ms=big: L.real_end_to_end(kind, ms, "lockstep", d, via_run=True)):
            tr["feat"] = {"nontrivial": True, "eof": "after-all"}
            tr["scn"] = {"fam": "real-e2e-run", "kind": kind, "mode": "lockstep", "n": len(big)}
            tr["lens"] = [len(m) for m in big]
            results.append(tr)
        # ... and two peers connected at the same time: each gets the replies to its own requests
        ma = [bytes([0x22, 0xA0, i]) + bytes([i] * (i % 5)) for i in range(8)]
        mb = [bytes([0x22, 0xB0, i]) + bytes([0xFF - i] * ((i + 2) % 5)) for i in range(8)]
        for tr in L.run_real(lambda d, kind=kind: L.real_two_clients(kind, ma, mb, d)):
            tr["feat"] = {"nontrivial": True, "eof": "none"}
            tr["scn"] = {"fam": "real-two-clients", "kind": kind, "mode": "lockstep", "n": len(ma)}
            tr["lens"] = [len(m) for m in ma]
            results.append(tr)
        # ... and a burst to a slowly reading peer followed by close(): nothing whose write() returned may be lost
        burst = [bytes([0x36, i % 256]) + bytes((i + j) % 256 for j in range(1500)) for i in range(200)]
        for tr in L.run_real(lambda d, kind=kind: L.real_burst_then_close(kind, burst, d)):
            tr["feat"] = {"nontrivial": True, "eof": "after-all"}
            tr["scn"] = {"fam": "real-burst-close", "kind": kind, "mode": "burst", "n": len(burst)}
            tr["lens"] = [len(m) for m in burst]
            results.append(tr)
    rep.extra["real_socket_runs"] = sum(1 for r in results if r["kind"].startswith("real-"))
    return results, pairs


def compare_fake_with_kernel(rep: Report, results: list[dict[str, Any]], base: int, pairs: list[tuple[int, int, str]],
                             verdicts: dict[int, tuple[str, str]]) -> None:
    def strip(o: list[tuple[str, int]]) -> list[tuple[str, int]]:
        return [x for x in o if x[0] != "Timeout"]

    compared = skipped = 0
    for fi, ri, what in pairs:
        fake, real = results[base + fi], results[base + ri]
        if verdicts[base + fi][0] != "ok" or verdicts[base + ri][0] != "ok":
            skipped += 1  # reported as violations; a non-conforming reader may depend on the segmentation
            continue
        plan = real["scn"]["plan"]
        if "real-run-guard-expired" in real["notes"]:
            raise Machinery(f"real {real['kind']} run stalled for plan {plan}")
        if what == "client":
            if strip(fake["outcomes"]) != strip(real["outcomes"]):
                raise Machinery(f"in-memory stream fake and kernel socket ({real['kind']}) disagree for plan {plan}: "
                                f"fake {fake['outcomes']} real {real['outcomes']}")
            if sum(1 for x in real["outcomes"] if x[0] == "Timeout") < sum(1 for op in plan if op[0] == "T"):
                raise Machinery("real socket run: a planned read timeout did not happen")
        else:
            if fake["outcomes"] != real["outcomes"]:
                raise Machinery(f"in-memory stream fake and kernel socket ({real['kind']}, server loop) disagree for "
                                f"plan {plan}: fake {fake['outcomes']} real {real['outcomes']}")
            if b"".join(w for _, w in fake["replies"]) != real["raw_replies"]:
                raise Machinery(f"server loop replies differ between fake and {real['kind']} for plan {plan}")
        compared += 1
    rep.extra["fake_vs_kernel_comparisons"] = {"agreed": compared, "skipped_because_rejected": skipped}


# --------------------------------------------------------------------------


def nontrivial_id(res: dict[str, Any]) -> str:
    scn = res["scn"]
    key = json.dumps([res["kind"], scn.get("src", "ref"), res["lens"] if len(res["lens"]) < 8 else scn.get("msgs"),
                      scn.get("plan", scn.get("actions", scn.get("mode"))), scn.get("policy"), scn.get("lead"), scn.get("via")],
                     default=str, sort_keys=True)
    return hashlib.sha1(key.encode()).hexdigest()[:16]


def self_tests(rep: Report, results: list[dict[str, Any]], verdicts: dict[int, tuple[str, str]]) -> None:
    """Binding self-tests: corrupted accepted traces and a mutant of the harness'
    own stream fake must be rejected by TLC."""
    pick = None
    for i, r in enumerate(results):
        o = r["outcomes"]
        if (verdicts[i][0] == "ok" and r["kind"] in L.KINDS and len(r["wire"]) <= 64
                and [x[0] for x in o].count("Msg") >= 3 and o[-1][0] == "Empty"
                and any(x[0] == "Timeout" for x in o) and len({x[1] for x in o if x[0] == "Msg"}) >= 3):
            ks = [j for j, x in enumerate(o) if x[0] == "Timeout"]
            ms = [j for j, x in enumerate(o) if x[0] == "Msg"]
            # one timeout, inside the first line; the swap of the last two deliveries is then a pure T1 case
            if len(ks) == 1 and ks[0] + 1 == ms[0] and r["feat"]["wait_partial"]:
                pick = r
                break
    if pick is None:
        # the tree under test produced no such execution (it is being reported for violations):
        # fall back to the execution a conforming reader produces for plan F2 Z T F9 Z E, and make
        # sure TLC accepts it before corrupting it
        msgs = SHORT_SETS[0]
        chunks = [L.ref_encode(m) for m in msgs]
        rec = L.Rec(msgs)
        for m, ch in zip(msgs, chunks):
            rec.send(m, len(ch))
        rec.feed(2); rec.begin(L.READ_TO_MS); rec.end("Timeout")
        rec.feed(9); rec.begin(L.READ_TO_MS); rec.end("Msg", msgs[0]); rec.begin(L.READ_TO_MS); rec.end("Msg", msgs[1])
        rec.begin(L.READ_TO_MS); rec.end("Msg", msgs[2]); rec.close(); rec.begin(L.READ_TO_MS); rec.end("Empty")
        pick = {"kind": "tcp", "ev": rec.ev, "rb": rec.rb, "tab": rec.tab, "wire": b"".join(chunks), "notes": {},
                "outcomes": rec.outcomes(), "feat": {"wait_partial": True},
                "scn": {"kind": "tcp", "msgs": [m.hex() for m in msgs], "src": "ref", "fam": "canned"}}
        if validate([pick], None, "self-test-canned")[0] != ("ok", "ok"):
            raise Machinery("binding self-test: the canned conforming execution is not accepted")
        if not rep.violations:
            raise Machinery("no accepted trace with >= 3 messages, a mid-line timeout and end-of-stream for the "
                            "self-test although no violation was found")

    def clone() -> dict[str, Any]:
        return {**pick, "ev": json.loads(json.dumps(pick["ev"])), "rb": list(pick["rb"])}

    ends = [j for j, e in enumerate(pick["ev"]) if e["e"] == "ReadEnd"]
    msg_idx = [j for j in ends if pick["ev"][j]["r"] == "Msg"]
    tmo_idx = [j for j in ends if pick["ev"][j]["r"] == "Timeout"][0]
    after_tmo = [j for j in msg_idx if j > tmo_idx][0]
    c1 = clone()  # the last two deliveries swapped
    c1["ev"][msg_idx[-1]]["c"], c1["ev"][msg_idx[-2]]["c"] = c1["ev"][msg_idx[-2]]["c"], c1["ev"][msg_idx[-1]]["c"]
    c1["rb"][-1], c1["rb"][-2] = c1["rb"][-2], c1["rb"][-1]
    c2 = clone()  # the read after the timeout returns something else (timeout consumed data)
    c2["ev"][after_tmo]["c"] = 0
    c2["rb"][msg_idx.index(after_tmo)] = b"\xee\xee\xee\xee\xee"
    c3 = clone()  # end-of-stream reported as a message
    c3["ev"][ends[-1]] = L.E("ReadEnd", r="Msg", c=0)
    c3["rb"].append(b"\xee")
    c4 = clone()  # a message reported as end-of-stream (last delivery lost)
    c4["ev"][msg_idx[-1]] = L.E("ReadEnd", r="Empty")
    c4["ev"] = c4["ev"][:msg_idx[-1] + 1]
    c4["rb"] = c4["rb"][:-1]
    c5 = clone()  # delivered before it was sent completely: one Feed removed
    fj = [j for j, e in enumerate(c5["ev"]) if e["e"] == "Feed"][-1]
    del c5["ev"][fj]
    c6 = clone()  # byte-level: returned bytes are not the bytes of the claimed class
    c6["rb"][0] = bytes([c6["rb"][0][0] ^ 1]) + c6["rb"][0][1:]
    v = validate([c1, c2, c3, c4, c5, c6], None, "self-test")
    got = [v[i][0] for i in range(5)] + [v[5][1]]
    want_prefix = ["T1/", "T2/", "T3/", "T3/", ""]
    for i, (g, w) in enumerate(zip(got[:5], want_prefix)):
        if g == "ok" or (w and not g.startswith(w)):
            raise Machinery(f"binding self-test: corrupted trace {i + 1} got verdict {g!r} (expected {w}*)")
    if got[5] != "H/projection":
        raise Machinery(f"binding self-test: byte-level corruption not detected ({v[5]})")
    # the clauses about non-message lines / bounded time, on canned recordings (independent of the tree under test)
    def canned(evs: list[dict[str, Any]]) -> dict[str, Any]:
        return {"kind": "canned", "ev": evs, "rb": [], "tab": {}, "wire": b"", "notes": {}, "outcomes": []}

    T = L.READ_TO_MS
    peer_blank = [L.E("Noise", c=1, n=1), L.E("Feed", n=1)]
    cases = [
        (peer_blank + [L.E("ReadBegin", to=T), L.E("ReadEnd", r="Empty")], "ok"),
        (peer_blank + [L.E("ReadBegin", to=T), L.E("ReadEnd", r="Error")], "ok"),
        (peer_blank + [L.E("ReadBegin", to=T), L.E("ReadEnd", r="Timeout")], "ok"),
        (peer_blank + [L.E("ReadBegin", to=T), L.E("ReadEnd", r="Empty"), L.E("ReadBegin", to=T), L.E("ReadEnd", r="Empty")],
         "T3/end-of-stream-reported-on-open-stream"),                       # one blank line explains one empty read
        ([L.E("ReadBegin", to=T)] + peer_blank * 3 + [L.E("ReadEnd", r="Overdue", n=3 * T)], "ok"),
        ([L.E("ReadBegin", to=T)] + peer_blank * 3 + [L.E("ReadEnd", r="Overdue", n=8 * T)], "T2/read-outlives-its-timeout"),
        ([L.E("ReadBegin", to=0)] + peer_blank * 3 + [L.E("ReadEnd", r="Overdue", n=8 * T)], "ok"),
        # a line terminator written by the sender under test outside of any message relaxes nothing
        ([L.E("Noise", c=0, n=1), L.E("Feed", n=1), L.E("ReadBegin", to=T), L.E("ReadEnd", r="Empty")],
         "T3/end-of-stream-reported-on-open-stream"),
    ]
    cv = validate([canned(evs) for evs, _ in cases], None, "self-test-canned-noise")
    for i, (_evs, want) in enumerate(cases):
        if cv[i][0] != want:
            raise Machinery(f"binding self-test: canned recording {i + 1} (non-message lines / bounded time) got "
                            f"verdict {cv[i][0]!r}, expected {want!r}")
    # mutant of the harness' own fake: a stream that loses the last byte of every segment
    scn = {"kind": pick["scn"]["kind"], "msgs": [m.hex() for m in SHORT_SETS[0]], "src": "ref"}
    contents, chunks = materialize(scn)

    class LossyPort(L.FakePort):
        async def feed(self, data: bytes) -> None:
            self.rec.feed(len(data))
            self.wire.feed(data[:-1] if len(data) > 1 else data)

    orig = L.FakePort
    L.FakePort = LossyPort  # type: ignore[misc]
    try:
        mut = L.run_reader(scn["kind"], contents, chunks, [("F", 5), ("Z",), ("F", 10 ** 6), ("Z",), ("E",)], [0], "reader")
    finally:
        L.FakePort = orig  # type: ignore[misc]
    mv = validate([mut], None, "self-test-mutant")[0][0]
    if mv == "ok":
        raise Machinery("binding self-test: the lossy stream fake was accepted")
    rep.extra["binding_selftest"] = {"corrupted_rejected": got, "lossy_fake_rejected": mv,
                                     "canned_noise_and_bounded_time_cases": len(cases)}


def drive_enumerated(rep: Report, tier: str, seed: int) -> tuple[list[dict[str, Any]], int]:
    """Stage 2: the enumerated / seeded environments against the real code."""
    # ---- 2. enumerate real executions
    scns: list[dict[str, Any]] = []
    for kind in L.KINDS:
        for si, ms in enumerate(SHORT_SETS):
            quick = tier == "quick"
            scns += short_scenarios(kind, ms, "ref", tier, lean=quick and si > 0,
                                    with_allseg=(not quick) or (si == 0 and kind != "unix"))
        scns += explore_scenarios(kind, TINY_SET)
        if tier == "thorough":
            scns += explore_scenarios(kind, [b"\x0a", b"\xab\xcd"])              # 8 stream bytes
            scns += explore_scenarios(kind, [b"\x0a", b"\xab", b"\x00"])         # 9 stream bytes
            if kind == "tcp":
                scns += explore_scenarios(kind, [b"\x0a\x0b", b"\xcd\x0e"])      # 10 stream bytes
    # both directions through the real writers: client.write -> server loop, server reply -> client.read
    for wk in L.CLIENT_KINDS:
        scns += short_scenarios("server", SHORT_SETS[0], f"client:{wk}", tier, with_allseg=False, lean=tier == "quick")
        scns += short_scenarios(wk, SHORT_SETS[0], f"server:{wk}", tier, with_allseg=False, lean=tier == "quick")
    # two tasks of the caller writing to one transport at the same time (long and short messages)
    big_a = bytes((i * 5 + 1) & 0xFF for i in range(2000))
    big_c = bytes((i * 11 + 3) & 0xFF for i in range(1300))
    for wk in L.CLIENT_KINDS:
        cm = [big_a, b"\x3e\x80", big_c, b"\x10\x03", b"\x22\xf1\x90", big_a[:600]]
        base = {"kind": "server", "msgs": [m.hex() for m in cm], "src": f"client2:{wk}", "fam": "concurrent-writers"}
        _c, chs = materialize({**base, "plan": [], "policy": [0]})
        nb = sum(len(c) for c in chs)
        scns.append({**base, "plan": [["F", nb], ["Z"], ["E"]], "policy": [0], "lead": "feeder"})
        scns.append({**base, "plan": [["F", 1000], ["Z"], ["F", nb], ["Z"], ["E"]], "policy": [0], "lead": "reader"})
    n_short = len(scns)
    scns += long_scenarios(tier, seed)
    # peers that emit non-message lines; connections to the server's own run() that stay idle between requests
    scns += noise_scenarios(tier)
    scns += idle_scenarios(tier)
    results = [r for s in scns for r in execute_all(s)]
    rep.extra["families"] = {}
    for r in results:
        f = r["scn"]["fam"]
        rep.extra["families"][f] = rep.extra["families"].get(f, 0) + 1
    rep.extra["short_scenarios"] = n_short

    return results, n_short


def run(tier: str, seed: int) -> Report:
    quiet_gallia_logging()
    rep = Report("C19", tier, seed)
    rep.rule = ("executions = real TCPLinesTransport/UnixLinesTransport.read() (via the real connect()) and real "
                "TCPUDSServerTransport.handle_client runs on hand-fed asyncio.StreamReaders under virtual time (plus real "
                "loopback/unix socket runs); distinct = distinct (reader kind, byte source, message lengths/contents, "
                "peer plan, read policy, who starts first); non-trivial = the plan splits inside a line, or hands over "
                "several lines in one segment, or lets time pass / a read time out while part of a line is buffered, or "
                "closes before the end of the stream, or the peer emits non-message (blank) lines, or the connection to "
                "the server's own run() stays idle between requests (computed from the plan, never from the outcome)")
    rep.assumptions = [
        "virtual-time loop: asyncio timers fire exactly, FIFO ready queue; the in-memory stream fakes are compared "
        "with kernel TCP/unix sockets once per run (disagreement = machinery failure)",
        "messages are 1..4095 bytes (the statement's quantifier); an empty message is indistinguishable from "
        "end-of-stream by construction of the format and is outside the property",
        "server loop: 'delivered' = the bytes handed to handle_request; the end of the loop is its report of end-of-stream",
        "where the statement is silent the contract accepts (counted under 'unspecified'): an error instead of an empty "
        "read when the stream ends inside a message, a timeout although the message became complete during the wait, "
        "whatever a read reports for a blank / whitespace-only line sent by a peer that is not gallia code (skipped, "
        "empty read, error)",
        "bounded time (T2 presupposes that timed reads time out): a read(timeout=T) still pending 4 x T after it began "
        "has outlived its timeout; observed under virtual time only, with a watchdog of 8 x T",
        "idle-connection runs: the clock the server module reads (gallia.services.uds.server.time) follows the virtual "
        "loop; asyncio.start_server / start_unix_server / open_connection are in-memory in the harness process",
    ]
    # ---- 1. model checking (the five TLC runs are independent: run them side by side)
    jobs = {
        "fr_lines": lambda: tlc.run_tlc("MC_Framing", "MC_Framing_lines.cfg", timeout=900, workers=4),
        "fr_prefix": lambda: tlc.run_tlc("MC_Framing", "MC_Framing_prefix.cfg", timeout=900, workers=4),
        "fr_greedy": lambda: tlc.run_tlc("MC_Framing", "MC_Framing_greedy.cfg", timeout=300, workers=2),
        "ls": lambda: tlc.run_tlc("MC_LinesStream", "MC_LinesStream.cfg", timeout=1800, coverage=True, workers=4),
        "ls_dev": lambda: tlc.run_tlc("MC_LinesStream", "MC_LinesStream_devS14.cfg", timeout=600, workers=1),
    }
    if tier == "thorough":
        jobs["ls_big"] = lambda: tlc.run_tlc("MC_LinesStream", "MC_LinesStream_big.cfg", timeout=1800, workers=6)
    nsim = 150 if tier == "quick" else 3000
    jobs["sim"] = lambda: tlc.simulate_behaviours("MC_LinesStream", "MC_LinesStream_sim.cfg", num=nsim, depth=40,
                                                  seed=seed + 1, timeout=900)
    pool = ThreadPoolExecutor(max_workers=6)
    futs = {k: pool.submit(f) for k, f in jobs.items()}
    # while TLC works: drive the real code (stage 2); the model-checking results are collected below
    _t = _time.time()
    results, n_short = drive_enumerated(rep, tier, seed)
    stage_t = {"executions": round(_time.time() - _t, 1)}
    _t = _time.time()
    # ---- 3. spec -> code
    _sres, behs = futs["sim"].result()
    drift = 0
    replayed = 0
    for bi, beh in enumerate(behs):
        r, diffs = replay_behaviour(beh, L.CLIENT_KINDS[bi % 2])
        if r is None:
            continue
        replayed += 1
        r["design_diffs"] = diffs
        results.append(r)
    rep.extra["spec_to_code_replayed"] = replayed

    stage_t["spec_to_code"] = round(_time.time() - _t, 1); _t = _time.time()
    # ---- 4. real sockets (fakes validated against the kernel)
    real_base = len(results)
    real_results, real_pairs = real_socket_stage(rep, tier, seed)
    results += real_results
    stage_t["real_sockets"] = round(_time.time() - _t, 1); _t = _time.time()

    mc = {k: f.result() for k, f in futs.items()}
    pool.shutdown()
    stage_t["waiting_for_tlc_mc"] = round(_time.time() - _t, 1)
    _t = _time.time()
    for cfg in ("lines", "prefix"):
        res = mc[f"fr_{cfg}"]
        rep.add_tlc(res, f"MC_Framing_{cfg}")
        if not res.ok:
            rep.violate(f"design/{res.violated}", {"where": "Framing", "cfg": cfg}, {"cex": res.cex[-4:]})
    res = mc["fr_greedy"]
    rep.add_tlc(res, "MC_Framing_greedy (negative control)")
    if res.violated != "Independent":
        raise Machinery(f"negative control MC_Framing_greedy did not violate Independent (got {res.violated})")
    res = mc["ls"]
    rep.add_tlc(res, "MC_LinesStream")
    if not res.ok:
        rep.violate(f"design/{res.violated}", {"where": "LinesStream design layer"},
                    {"cex": res.cex[-6:], "out": res.out[-1500:]})
    acts = {a: res.coverage.get(a, (0, 0))[0] for a in ("DeliverAny", "PeerClose", "ReadStart", "ReadReturn", "ReadTimeout")}
    if any(v == 0 for v in acts.values()):
        raise Machinery(f"vacuous model: design actions never taken: {acts}")
    rep.extra["design_action_coverage"] = acts
    if "ls_big" in mc:
        rep.add_tlc(mc["ls_big"], "MC_LinesStream_big (4 messages of length 1..3, 5 of length 1..2)")
        if not mc["ls_big"].ok:
            rep.violate(f"design/{mc['ls_big'].violated}", {"where": "LinesStream design layer", "cfg": "big"},
                        {"cex": mc["ls_big"].cex[-6:]})
    res = mc["ls_dev"]
    rep.add_tlc(res, "MC_LinesStream_devS14 (negative control)")
    if res.violated != "T3_EndOfStreamDistinct":
        raise Machinery(f"negative control Dev_S14_PartialLineAtEof did not violate T3 (got {res.violated})")

    # ---- 5. code -> spec: TLC validates every execution
    byte_ids = set()
    big = [i for i, r in enumerate(results) if r["scn"].get("fam") == "burst" and len(r["wire"]) > 64]
    small_big = sorted(big, key=lambda i: len(results[i]["wire"]))
    byte_ids.update(small_big[:4])
    byte_ids.update([i for i in big if 20_000 < len(results[i]["wire"]) < 120_000][:2])
    verdicts = validate(results, rep, "batch", byte_ids)
    stage_t["tlc_validation"] = round(_time.time() - _t, 1)
    rep.extra["stage_seconds"] = stage_t
    rep.traces = len(results)
    rep.evaluations = len(results)
    unspecified = {"error_at_end_of_stream_inside_message": 0, "hang_on_open_stream": 0,
                   "report_for_a_non_message_line_of_the_peer": {}}
    notes: dict[str, int] = {}
    byte_checked = 0
    for i, r in enumerate(results):
        v, bv = verdicts[i]
        for k, n in r["notes"].items():
            notes[k] = notes.get(k, 0) + n
        if r["feat"].get("nontrivial"):
            rep.nontrivial.add(nontrivial_id(r))
        if bv != "none":
            byte_checked += 1
        if r["scn"].get("fam") == "real-two-clients" and v == "H/feed-of-bytes-never-sent":
            # with two peers this is not a recording error: bytes arrived at a peer they were never sent to
            v = "T1/bytes-delivered-to-a-peer-they-were-not-sent-to"
        if v.startswith("H/") or bv.startswith("H/"):
            raise Machinery(f"malformed recording ({v}, {bv}) for {json.dumps(r['scn'], default=str)[:600]}")
        if v != "ok":
            detail = {"scenario": r["scn"], "outcomes": r["outcomes"][:40], "returned": [b.hex()[:64] for b in r["rb"][:8]],
                      "features": r["feat"]}
            if len(json.dumps(detail, default=str)) > 20000:
                detail["scenario"] = {k: (v2 if k != "plan" else v2[:50]) for k, v2 in r["scn"].items()}
            rep.violate(v, sig_of(r), detail)
            continue
        if bv not in ("ok", "none"):
            rep.drift.append({"what": bv, "scenario": {k: r["scn"][k] for k in r["scn"] if k != "plan"}})
        for d in r.get("design_diffs", []):
            drift += 1
            rep.drift.append({"what": "spec->code: " + d, "scenario": r["scn"]})
        outs = r["outcomes"]
        if r["scn"].get("fam", "").startswith("blank-line-peer"):
            # accepted by TLC: every Empty / Error on the open stream here answered a blank line of the peer
            opened = [e for e in r["ev"] if e["e"] in ("ReadEnd", "Close")]
            cut = next((j for j, e in enumerate(opened) if e["e"] == "Close"), len(opened))
            tally = unspecified["report_for_a_non_message_line_of_the_peer"]
            kinds = {e["r"] for e in opened[:cut] if e["r"] in ("Empty", "Error")} or {"skipped"}
            for k in kinds:
                tally[k] = tally.get(k, 0) + 1
        elif any(x[0] == "Error" for x in outs):
            unspecified["error_at_end_of_stream_inside_message"] += 1
        if outs and outs[-1][0] == "Hang":
            unspecified["hang_on_open_stream"] += 1
    if not rep.violations:
        # cross-check of the harness's own stream fake against kernel sockets; on a tree that already violates the
        # property the two may legitimately differ (a non-conforming loop can depend on timing)
        compare_fake_with_kernel(rep, results, real_base, real_pairs, verdicts)
    rep.extra["spec_to_code_drift"] = drift
    rep.extra["unspecified"] = unspecified
    rep.extra["observations"] = notes
    rep.extra["byte_level_traces"] = byte_checked
    rep.extra["kinds"] = {}
    for r in results:
        rep.extra["kinds"][r["kind"]] = rep.extra["kinds"].get(r["kind"], 0) + 1
    for r in [results[0], results[n_short // 2], results[n_short + 1], results[-1]]:
        rep.sample({"kind": r["kind"], "lens": r["lens"][:6], "plan": r["scn"].get("plan", r["scn"].get("actions", []))[:10],
                    "outcomes": r["outcomes"][:8]})
    rep.exhaustive = True
    rep.extra["exhaustive_spaces"] = (
        "for each of tcp-lines client, unix-lines client, server loop: every single split point, every pair of split "
        "points, every peer-close offset and every timeout position of three 10-11 byte streams; every segmentation "
        "(2^(n-1)) of the first stream (thorough: of all three); every choice vector {no cut, cut, cut+timeout, close}^(n-1) x "
        "{close, open} of a 6 byte stream (thorough: also of an 8 and a 9 byte stream, tcp-lines client: of a 10 byte stream). Long bursts, random multi-splits "
        "and real-socket runs are sampled (seeded).")
    # ---- 6. binding self-tests
    self_tests(rep, results, verdicts)
    return rep


def replay(path: str) -> int:
    quiet_gallia_logging()
    data = json.loads(open(path).read())
    runs = []
    for v in data["violations"]:
        scn = v["detail"]["scenario"]
        if scn.get("fam") in ("real-socket", "real-socket-server", "real-e2e", "tlc-simulate") or "plan" not in scn \
                or "policy" not in scn:
            print(f"replay: scenario family {scn.get('fam')} is replayed by re-running the tier; skipped")
            continue
        runs.extend(execute_all(scn))
    verdicts = validate(runs, None, "replay") if runs else {}
    bad = 0
    for i, r in enumerate(runs):
        scn = r["scn"]
        print(f"replay kind={r['kind']} fam={scn.get('fam')} plan={scn['plan'][:8]} outcomes={r['outcomes'][:8]} "
              f"verdict={verdicts[i][0]}")
        bad += verdicts[i][0] != "ok"
    if bad:
        print(f"VIOLATION property=C19 replay={path}")
        return 1
    return 0
