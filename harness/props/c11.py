"""C11 — every exchange is recorded once, in order and byte-exact, in the scan database.

spec   : spec/DbLogContract.tla (clauses B1..B4), spec/DbLog.tla (design: ECU._request ->
         queue -> writer task -> rows; ToggleImplicit; Abort at any await; Disconnect =
         join + cancel writer + close)
MC     : MC_DbLog_len{2,3,4}.cfg exhaustive, MC_DbLog_live.cfg liveness (Drains);
         devS17 / devFinally / devNoJoin / devState are negative controls
binding: real UDSScanner.entry_point (real ECU, real DBHandler on a temp sqlite file, real
         setup/teardown/_db_finish_run_meta) on a scripted transport; rows read back with
         sqlite3; code->spec: every run validated by Trace_DbLog (TLC);
         spec->code: TLC-simulated design behaviours replayed, design rows compared (DRIFT).
         Family `scanner-level`: the command is varied too (implicit logging chosen in the
         constructor / in main() / never, --ecu-reset, --ping, --properties with an OEM ECU class
         that reads a DID); the exchanges setup()/teardown() make themselves are exchanges of the
         run like any other, and "implicit logging on/off" is what the COMMAND asked for.
         Family `entry-points`: main() calls the client's convenience entry points (transmit_data, set_session with
         its database fall-back, leave_session, check_and_set_session, ping, read_dtc, ..., every typed one-shot
         helper found by reflection), each with ONE request config (no config / empty / ANALYZE / another tag / both)
         for SEVERAL exchanges, interleaved with plain calls tagged the other way: every exchange that IS the
         operation must be marked as the caller of the entry point asked (B2/log-mode), all rows present, in order.
"""

from __future__ import annotations

import json
import os
import random
from concurrent.futures import ProcessPoolExecutor, ThreadPoolExecutor
from typing import Any

from harness import tlc
from harness.common import Machinery, Report, quiet_gallia_logging

NEG_CONTROLS = {
    "devS17": ("B1_OncePerExchangeInOrder", "B4_CompleteAfterClose", "Contract"),
    "devFinally": ("B1_OncePerExchangeInOrder", "B4_CompleteAfterClose", "Contract"),
    "devNoJoin": ("B1_OncePerExchangeInOrder", "B4_CompleteAfterClose", "Contract"),
    "devState": ("B2_RowHoldsTheExchange", "Contract"),
    "devCut": ("B1_OncePerExchangeInOrder", "B4_CompleteAfterClose", "Contract"),
}
DESIGN_ACTIONS = ["StartCall", "Send", "Reply", "ToggleImplicit", "Abort", "Finish", "DiscJoin",
                  "DiscCancelWriter", "DiscClose", "WriterTake", "WriterCommit"]
TRACE_KEYS = ("id", "exch", "rows", "closed", "aborted", "stray")


# --------------------------------------------------------------------------- workers

def _work(jobs: list[dict[str, Any]]) -> list[dict[str, Any]]:
    quiet_gallia_logging()
    from harness import c11_drive

    return c11_drive.run_file(jobs)


def run_files(files: list[list[dict[str, Any]]]) -> list[dict[str, Any]]:
    """Each element of `files` is a list of jobs executed on one fresh database file.
    Results come back in input order (deterministic regardless of the pool)."""
    nproc = int(os.environ.get("VERIF_JOBS", "8"))
    out: list[dict[str, Any]] = []
    if nproc <= 1 or len(files) < 4:
        for f in files:
            out.extend(_work(f))
        return out
    # TLC runs in background threads at this point: never fork a multi-threaded process (a forked child can
    # inherit a lock held by another thread and hang; seen once under load) -> fresh interpreter per worker
    import multiprocessing as mp

    with ProcessPoolExecutor(max_workers=nproc, mp_context=mp.get_context("forkserver")) as ex:
        for res in ex.map(_work, files, chunksize=max(1, min(8, len(files) // (nproc * 4) or 1))):
            out.extend(res)
    return out


# --------------------------------------------------------------------------- histories

def req_step(spec: dict[str, Any], script: list[list[str]], ana: bool = False, retry: int | None = None,
             label: str = "") -> dict[str, Any]:
    return {"op": "req", "spec": {"cls": spec["cls"], "kw": spec["kw"]}, "script": script, "ana": ana,
            "retry": retry, "label": label}


def outcome_scripts(spec: dict[str, Any], thorough: bool) -> list[tuple[str, list[list[str]], int | None]]:
    """(label, script, retry) for every outcome class of one request instance."""
    from harness import c11_kinds as K

    req = K.build(spec)
    rep = K.replies_for(req)
    sid = req.pdu[0]
    out: list[tuple[str, list[list[str]], int | None]] = []
    pos = rep["Pos"] if thorough else rep["Pos"][:3]
    for b, cls in pos:
        out.append((f"Pos:{cls}", [["D", b.hex()]], None))
    for b, _ in (rep["Neg"] if thorough else rep["Neg"][:1]):
        out.append(("Neg", [["D", b.hex()]], None))
    out.append(("Timeout", [["T"]], None))
    for b, _ in (rep["Mismatch"] if thorough else rep["Mismatch"][:1]):
        out.append(("Mismatch", [["D", b.hex()]], None))
    for b, _ in (rep["Malformed"] if thorough else rep["Malformed"][:1]):
        out.append(("Malformed", [["D", b.hex()]], None))
    out.append(("ConnErr:read", [["C"]], None))
    if thorough:
        out.append(("ConnErr:empty", [["E"]], None))
        out.append(("ConnErr:write", [["WC"]], None))
    if pos:
        p0 = pos[0][0].hex()
        if thorough:
            out.append(("Pending+Pos", [["D", bytes([0x7F, sid, 0x78]).hex()], ["D", p0]], None))
            out.append(("Busy,retry+Pos", [["D", bytes([0x7F, sid, 0x21]).hex()], ["D", p0]], 1))
            out.append(("Timeout,retry+Pos", [["T"], ["D", p0]], 1))
    return out


STATEFUL = ["DiagnosticSessionControlRequest", "SendKeyRequest", "ECUResetRequest", "RequestSeedRequest"]


def random_history(rnd: random.Random, specs: list[dict[str, Any]], scripts: dict[int, list[Any]],
                   maxlen: int) -> list[dict[str, Any]]:
    n = rnd.randint(1, maxlen)
    stateful = [i for i, s in enumerate(specs) if s["cls"] in STATEFUL or s.get("pdu") == "22f186"]
    hist: list[dict[str, Any]] = []
    for _ in range(n):
        if rnd.random() < 0.10:
            hist.append({"op": "toggle", "on": rnd.random() < 0.5})
        si = rnd.choice(stateful) if rnd.random() < 0.4 else rnd.randrange(len(specs))
        sc = scripts[si]
        if rnd.random() < 0.5:
            cand = [x for x in sc if x[0].startswith("Pos")] or sc
        else:
            cand = sc
        lab, script, retry = rnd.choice(cand)
        hist.append(req_step(specs[si], script, ana=rnd.random() < 0.2, retry=retry, label=lab))
    if rnd.random() < 0.08:
        hist.insert(rnd.randint(0, len(hist)), {"op": "raise"})
    return hist


def par_history(rnd: random.Random, specs: list[dict[str, Any]], scripts: dict[int, list[Any]]) -> list[dict[str, Any]]:
    def lane() -> list[dict[str, Any]]:
        out = []
        for _ in range(rnd.randint(1, 4)):
            si = rnd.randrange(len(specs))
            lab, script, retry = rnd.choice(scripts[si])
            out.append(req_step(specs[si], script, ana=rnd.random() < 0.2, retry=retry, label=lab))
        return out

    pre = random_history(rnd, specs, scripts, 2)
    pre = [s for s in pre if s["op"] != "raise"]
    return pre + [{"op": "par", "lanes": [lane() for _ in range(rnd.randint(2, 3))]}]


# --------------------------------------------------------------------------- scanner-level family

def scanner_level_files(thorough: bool, rd: dict[str, Any], ds: dict[str, Any],
                        pos_rd: list[list[str]], pos_ds: list[list[str]]) -> list[list[dict[str, Any]]]:
    """Commands (not only histories): where the scanner chooses its implicit logging (constructor off / constructor
    on / only in main() or never) x --ecu-reset (none, answered, refused twice, refused then answered after the
    session change) x properties (--no-properties, default ECU class, OEM class that reads a DID in setup AND
    teardown) x --ping / --no-ping (answered at once, first pings unanswered) x what main() does (nothing, plain
    exchanges, toggling off/on around exchanges, ending switched off, a session change first)."""
    def r(ana: bool = False, script: list[list[str]] | None = None, label: str = "Pos") -> dict[str, Any]:
        return req_step(rd, script if script is not None else pos_rd, ana=ana, label=label)

    on, off = {"op": "toggle", "on": True}, {"op": "toggle", "on": False}
    hists: list[list[dict[str, Any]]] = [
        [r(ana=True), on, r(), off, r(ana=True), r(), on, r(script=[["T"]], label="Timeout")],
        [r(), r(ana=True)],
        [off, r(), on, req_step(ds, pos_ds, label="Pos"), r(), off],
        [],
    ]
    resets: list[tuple[int | None, str]] = [(None, "ok"), (1, "ok"), (3, "neg_then_ok"), (1, "neg")]
    files: list[list[dict[str, Any]]] = []
    # --no-ping: the full cross (fast), the runs of one (constructor, reset) cell share one database file
    for ctor in (None, False, True):
        for lvl, beh in resets:
            jobs = []
            for props in ("off", "plain", "oem"):
                for h in hists:
                    jobs.append({"hist": h, "scan": {"ctor": ctor, "ping": False, "reset": lvl, "props": props,
                                                     "ecu": {"reset": beh}}})
            files.append(jobs)
    # --ping (every ping waits 0.5 s of real time first): one run per file so that the pool spreads them
    for ctor in (None, False, True):
        for props in ("off", "plain", "oem"):
            for lvl, beh in (resets if thorough else resets[:2]):
                for h in (hists if thorough else (hists[0], hists[2])):
                    files.append([{"hist": h, "scan": {"ctor": ctor, "ping": True, "reset": lvl, "props": props,
                                                       "ecu": {"reset": beh}}}])
        for silent in ((1, 2) if thorough else (1,)):
            files.append([{"hist": hists[1], "scan": {"ctor": ctor, "ping": True, "reset": None, "props": "off",
                                                      "ecu": {"silent_pings": silent}}}])
    return files


# --------------------------------------------------------------------------- entry-point family

EP_SCAN = {"ctor": None, "ping": False, "reset": None, "props": "off"}
# request configs a caller may hand to an entry point: none at all, one without tags, an empty tag list, the ANALYZE
# tag, another tag, both (either order)
TAG_VARIANTS: list[dict[str, Any]] = [
    {"tags": None}, {"tags": ["ANALYZE"]}, {"tags": ["OTHER"]}, {"tags": ["OTHER", "ANALYZE"]},
    {"tags": None, "emptycfg": True}, {"tags": []}, {"tags": ["ANALYZE", "x"]},
]


def ep_step(name: str, args: dict[str, Any] | None = None, variant: dict[str, Any] | None = None,
            faults: dict[str, Any] | None = None, retry: int | None = None) -> dict[str, Any]:
    from harness import c11_kinds as K

    st: dict[str, Any] = {"op": "ep", "name": name, "args": {k: K._enc(v) for k, v in (args or {}).items()},
                          "tags": None, "retry": retry, "faults": faults or {}}
    st.update(variant or {})
    return st


def helper_calls() -> tuple[list[tuple[str, dict[str, Any]]], list[str]]:
    """Every typed one-shot helper of the UDS client that takes a request config (reflection), with simple valid
    arguments chosen by parameter name; helpers with a required parameter nothing is known about are skipped
    (and named in the evidence), never guessed."""
    import inspect

    from gallia.services.uds.core.client import UDSClient
    from harness import c11_kinds as K

    calls: list[tuple[str, dict[str, Any]]] = []
    skipped: list[str] = []
    for name, fn in inspect.getmembers(UDSClient, inspect.iscoroutinefunction):
        params = inspect.signature(fn).parameters
        if name.startswith("_") or name in ("request", "request_unsafe") or "config" not in params:
            continue
        args: dict[str, Any] = {}
        ok = True
        for p in list(params.values())[1:]:
            ann = str(p.annotation)
            if p.name == "config":
                continue
            if p.name == "security_access_type":
                args[p.name] = 1 if "seed" in name else 2
            elif p.name == "pdu":
                args[p.name] = b"\x22\x12\x34"
            elif p.name in K.INT_BY_NAME:
                args[p.name] = K.INT_BY_NAME[p.name][0]
            elif p.name in K.BYTES_BY_NAME:
                args[p.name] = K.BYTES_BY_NAME[p.name][0]
            elif p.default is not inspect.Parameter.empty:
                continue
            elif "bytes" in ann and "int" not in ann:
                args[p.name] = b"\xaa\xbb"
            else:
                ok = False
        if ok:
            calls.append((name, args))
        else:
            skipped.append(name)
    return calls, skipped


def entry_point_files(thorough: bool, rd: dict[str, Any], pos_rd: list[list[str]]) -> tuple[
        list[list[dict[str, Any]]], list[list[dict[str, Any]]], dict[str, Any]]:
    """(files, histories to abort at every await point, facts for the evidence)."""
    def r(ana: bool = False) -> dict[str, Any]:
        return req_step(rd, pos_rd, ana=ana, label="Pos")

    def ana_of(v: dict[str, Any]) -> bool:
        return bool(v.get("tags")) and "ANALYZE" in v["tags"]

    def job(h: list[dict[str, Any]], **ecu: Any) -> dict[str, Any]:
        return {"hist": h, "scan": {**EP_SCAN, "ecu": {"stateful": True, "positive_default": True, **ecu}}}

    def interleaved(steps: list[dict[str, Any]]) -> list[dict[str, Any]]:
        """plain calls between the entry-point calls, tagged the OTHER way round"""
        h: list[dict[str, Any]] = []
        for st in steps:
            h.append(r(ana=not ana_of(st)))
            h.append(st)
        return h + [r()]

    on, off = {"op": "toggle", "on": True}, {"op": "toggle", "on": False}
    files: list[list[dict[str, Any]]] = []
    V = TAG_VARIANTS
    # -- transmit_data: shapes (data length, block_length, max_block_length) x every config variant
    shapes = [(40, 10, 0xFFF), (1, 3, 0xFFF), (16, 10, 0xFFF), (30, 0x20, 8), (0, 10, 0xFFF),
              (520 if not thorough else 1300, 4, 0xFFF)]      # the last one: the block counter wraps

    def tx(shape: tuple[int, int, int], v: dict[str, Any], **kw: Any) -> dict[str, Any]:
        n, bl, mbl = shape
        return ep_step("transmit_data", {"data": bytes(i & 0xFF for i in range(n)), "block_length": bl,
                                         "max_block_length": mbl}, v, **kw)

    for shape in shapes[:-1]:
        files.append([job(interleaved([tx(shape, v) for v in V]))])
    files.append([job(interleaved([tx(shapes[-1], V[1]), tx(shapes[-1], V[0])]))])
    # ... with one exchange of the transfer going wrong (the n-th: first block, a middle one, the exit): refused,
    # unanswered, answered by a foreign reply, connection reset; unanswered once with a retry granted
    faults = [("neg36", [["D", "7f3672"]]), ("timeout", [["T"]]), ("mismatch", [["D", "7f2231"]]), ("reset", [["C"]])]
    for nth, sid in ((1, 0x36), (3, 0x36), (6, 0x37)):
        steps = []
        for k, (_, sc) in enumerate(faults):
            script = [["D", bytes([0x7F, sid, 0x72]).hex()]] if sc[0][0] == "D" and sc[0][1] == "7f3672" else sc
            steps.append(tx(shapes[0], V[(k + nth) % 4], faults={str(nth): script}))
        ok = bytes([0x76, nth]).hex() if sid == 0x36 else "77"
        steps.append(tx(shapes[0], V[1], faults={str(nth): [["T"], ["D", ok]]}, retry=1))
        steps.append(tx(shapes[0], V[2], faults={str(nth): [["D", bytes([0x7F, sid, 0x78]).hex()], ["D", ok]]}))
        files.append([job(interleaved(steps))])
    # -- set_session: plain, refused, and the database fall-back (a session only reachable through another one,
    #    with a transition stored for the target by an earlier scan of sessions)
    files.append([job(interleaved([ep_step("set_session", {"level": lvl}, v)
                                   for lvl, v in zip((3, 2, 1, 3, 0x42, 1, 2), V)]))])
    files.append([job(interleaved([ep_step("set_session", {"level": lvl}, v)
                                   for lvl, v in ((5, V[1]), (5, V[0]), (3, V[3]), (5, V[2]))]), refused=[5])])
    for steps_db in ([3], [1, 3], [3, 0x42]):
        for v in (V[1], V[0], V[3], V[2]):
            files.append([job([r(ana=not ana_of(v)), {"op": "transitions", "dest": 0x42, "steps": steps_db},
                               ep_step("set_session", {"level": 0x42}, v), r(),
                               ep_step("set_session", {"level": 1}, V[0]),
                               ep_step("set_session", {"level": 0x42, "use_db": False}, v),
                               ep_step("set_session", {"level": 0x42}, v), r(ana=True)],
                              gated={"66": 3})])
    files.append([job(interleaved([ep_step("set_session", {"level": 0x42}, v) for v in V[:4]]), gated={"66": 3})])
    # -- the ECU class's one-exchange conveniences x every config variant
    for name in ("ping", "read_session", "read_dtc", "clear_dtc", "read_vin"):
        files.append([job(interleaved([ep_step(name, {}, v) for v in V]))])
    # -- every typed one-shot helper that takes a config (reflection), config variants rotating
    helpers, skipped = helper_calls()
    for rot in range(4 if not thorough else len(V)):
        files.append([job(interleaved([ep_step(n, a, V[(k + rot) % (4 if not thorough else len(V))])
                                       for k, (n, a) in enumerate(helpers)]))])
    # -- entry points whose exchanges are auxiliary as far as the caller's config goes: rows complete and in order,
    #    each marked by the config its request was made with
    files.append([job(interleaved([ep_step("check_and_set_session", {"expected_session": 1}),
                                   ep_step("check_and_set_session", {"expected_session": 3}),
                                   ep_step("check_and_set_session", {"expected_session": 5, "retries": 1}),
                                   ep_step("refresh_state", {}), ep_step("refresh_state", {"reset_state": True}),
                                   ep_step("set_session", {"level": 2}, V[1]),
                                   ep_step("check_and_set_session", {"expected_session": 2},
                                           faults={"1": [["D", "7f2231"]]}),
                                   ep_step("check_and_set_session", {"expected_session": 3},
                                           faults={"1": [["T"], ["T"], ["T"], ["T"]]})]), refused=[5])])
    for v in ((V[1], V[0]) if not thorough else V[:4]):     # (every ping waits 0.5 s of real time first)
        files.append([job(interleaved([ep_step("set_session", {"level": 3}, v),
                                       ep_step("leave_session", {"level": 3}, v)]))])
    files.append([job(interleaved([ep_step("wait_for_ecu", {"timeout": 5})]), silent_pings=1)])
    # -- implicit logging switched off / on around entry-point calls
    files.append([job([off, tx(shapes[0], V[1]), on, tx(shapes[2], V[1]), off, ep_step("set_session", {"level": 3}, V[1]),
                       r(ana=True), on, ep_step("read_dtc", {}, V[1]), tx(shapes[1], V[0]), off])])
    # -- entry-point calls of concurrent tasks (their exchanges interleave on the wire)
    for va, vb in ((V[1], V[0]), (V[0], V[1]), (V[1], V[3])):
        files.append([job([r(), {"op": "par", "lanes": [[tx(shapes[0], va)], [r(ana=ana_of(vb))] * 3,
                                                       [ep_step("set_session", {"level": 3}, vb),
                                                        ep_step("read_dtc", {}, va)],
                                                       [tx(shapes[2], vb)]]}, r(ana=True)])])
    abort_h = [[r(), tx((16, 7, 0xFFF), V[1]), {"op": "transitions", "dest": 0x42, "steps": [3]},
                ep_step("set_session", {"level": 0x42}, V[1]), ep_step("read_dtc", {}, V[0])]]
    facts = {"typed_helpers_called": len(helpers), "typed_helpers_skipped": skipped,
             "config_variants": [json.dumps(v, sort_keys=True) for v in V], "gated_session": 0x42}
    return files, abort_h, facts


def abort_job(h: list[dict[str, Any]]) -> dict[str, Any]:
    return {"hist": h, "scan": {**EP_SCAN, "ecu": {"stateful": True, "positive_default": True, "gated": {"66": 3}}}}


# --------------------------------------------------------------------------- TLC validation

def validate(traces: list[dict[str, Any]], rep: Report | None = None) -> dict[int, tuple[str, int]]:
    verdicts: dict[int, tuple[str, int]] = {}
    CH = 3000
    for off in range(0, len(traces), CH):
        sub = {"traces": [{k: t[k] for k in TRACE_KEYS} for t in traces[off:off + CH]]}
        res = tlc.validate_batch("Trace_DbLog", "Trace_DbLog.cfg", sub, timeout=1800,
                                 env={"JAVA_TOOL_OPTIONS": "-Xss256m"})
        if rep is not None:
            rep.add_tlc(res, "Trace_DbLog batch")
        for p in res.prints:
            if isinstance(p, list) and len(p) == 4 and p[0] == "V":
                verdicts[p[1]] = (p[2], p[3])
        missing = [t["id"] for t in traces[off:off + CH] if t["id"] not in verdicts]
        if missing:
            raise Machinery(f"TLC produced no verdict for {len(missing)} runs (first id {missing[0]}):\n"
                            + res.out[-2000:])
    return verdicts


def reply_kind(t: dict[str, Any], j: int) -> str:
    """Coverage label of the last reply of exchange j (1-based): response class / outcome."""
    from harness import c11_kinds as K
    from gallia.services.uds.core import service

    e = t["exch"][j - 1]
    if not e["replies"]:
        return "none"
    try:
        lab, cls = K.classify(bytes(e["replies"][-1]), service.UDSRequest.parse_dynamic(bytes(e["req"])))
    except Exception:  # noqa: BLE001
        return "?"
    return cls or lab


def signature(t: dict[str, Any], label: str, j: int) -> dict[str, Any]:
    sig: dict[str, Any] = {"what": label}
    if 1 <= j <= len(t["exch"]) and not label.startswith("B1/row-without"):
        m = t["meta"][j - 1]
        e = t["exch"][j - 1]
        sig["request"] = m["cls"]
        if t["job"].get("scan") is not None:
            sc = t["job"]["scan"]
            sig["phase"] = m.get("phase", "main")   # setup / main / teardown exchange of the command
            sig["implicit_logging_chosen"] = {None: "in main() or never", False: "constructor: off",
                                              True: "constructor: on"}[sc.get("ctor")]
            sig["properties"] = sc.get("props")
        if m.get("ep"):
            # an exchange made by a convenience entry point on behalf of its caller
            sig["entry_point"] = m["ep"]
            sig["exchange_is"] = m["role"]
            sig["caller_tagged_ANALYZE"] = m["tag_of_caller"]
            sig["tag_reached_request"] = m["tag_reached_request"]
        sig["reply"] = reply_kind(t, j)
        sig["call"] = e["out"]
        sig["warned"] = m["warn"] is not None
        if m["warn"] is not None and "database: " in m["warn"]:
            # class of the exception the warning reports (why the row was not written)
            sig["lost_because"] = m["warn"].split("database: ", 1)[1].split("(", 1)[0][:40]
        if label == "B2/reply-bytes" and len(t["rows"]) == len(t["exch"]) and e["replies"]:
            r = t["rows"][j - 1]
            a, b = len(r["resp"]), len(e["replies"][-1])
            sig["stored"] = "null" if not r["hasResp"] else "shorter" if a < b else "longer" if a > b else "same-length"
    ab = t["aborts"]
    sig["abort"] = ab[0]["where"] if ab else "none"
    return sig


def synthetic_ok_trace() -> dict[str, Any]:
    a, b = [0x22, 0x12, 0x34], [0x10, 0x03]

    def ex(req: list[int], replies: list[list[int]], out: str, st: list[int]) -> dict[str, Any]:
        return {"req": req, "nw": 1, "replies": replies, "out": out, "st": st, "impl": "on", "ana": False}

    def row(req: list[int], resp: list[int] | None, exc: bool, st: list[int], send: int) -> dict[str, Any]:
        return {"okDecode": True, "req": req, "hasResp": resp is not None, "resp": resp or [], "hasExc": exc,
                "st": st, "mode": "implicit", "send": send, "hasRecv": not exc, "recv": send + 7 if not exc else 0}

    return {"id": 0, "closed": True, "aborted": False, "stray": 0,
            "exch": [ex(a, [[0x62, 0x12, 0x34, 1]], "ret", [1, -1]), ex(b, [[0x50, 3]], "ret", [1, -1]),
                     ex(a, [], "exc", [3, -1]), ex(a, [[0x62, 0x12, 0x34, 2]], "ret", [3, -1])],
            "rows": [row(a, [0x62, 0x12, 0x34, 1], False, [1, -1], 100), row(b, [0x50, 3], False, [1, -1], 200),
                     row(a, None, True, [3, -1], 300), row(a, [0x62, 0x12, 0x34, 2], False, [3, -1], 400)]}


# --------------------------------------------------------------------------- spec -> code

KIND_SPEC = {
    "Plain": ({"cls": "ReadDataByIdentifierRequest", "kw": {"data_identifiers": 0x1234}}, "62123401"),
    "Sess": None,  # chosen per step: toggles between session 3 and 1
    "Sec": ({"cls": "SendKeyRequest", "kw": {"security_access_type": 2, "security_key": {"$b": "dead"}}}, "6702"),
}


def behaviour_to_job(beh: list[tuple[str, dict[str, Any]]]) -> tuple[dict[str, Any], dict[str, Any]] | None:
    """Project a TLC behaviour of DbLog on its environment actions -> a job for the real code.
    Returns (job, expectation) or None when the behaviour does not reach Closed."""
    if not beh or beh[-1][1].get("phase") != "Closed":
        return None
    hist: list[dict[str, Any]] = []
    session = 1
    cancel_point = None
    points = 0  # await points passed by the real driver so far
    cur_kind = None
    prev = beh[0][1]
    for act, st in beh[1:]:
        if act == "StartCall":
            cur_kind = st["cur"]["kind"]
            ana = st["cur"]["ana"]
            if cur_kind == "Sess":
                target = 3 if session == 1 else 1
                spec = {"cls": "DiagnosticSessionControlRequest", "kw": {"diagnostic_session_type": target}}
                pos = bytes([0x50, target]).hex()
            else:
                spec, pos = KIND_SPEC[cur_kind]  # type: ignore[misc]
            hist.append({"op": "req", "spec": spec, "script": [], "ana": bool(ana), "retry": None, "pos": pos})
            points += 1  # idle point before the step
        elif act == "Send":
            points += 2  # write-pre, write-post
        elif act == "Reply":
            e = st["wire"][-1]
            step = hist[-1]
            sid = bytes.fromhex(step["pos"])[0] - 0x40
            o = None
            # outcome class of the design = shape of the reply it put into the exchange
            rb = e["replies"][0] if e["replies"] else None
            if e["out"] == "cut":
                step["script"] = [["H"]]
                step["cut"] = True
                points += 1  # read-pre only: the read never returns
                prev = st
                continue
            if e["out"] == "ret":
                o = "Pos" if rb and rb[0] != 127 else "Neg"
            elif rb is None:
                o = "TimeoutOrConn"
            else:
                o = "Mismatch" if len(rb) == 1 else "Malformed"
            if o == "Pos":
                step["script"] = [["D", step["pos"]]]
                if cur_kind == "Sess":
                    session = 3 if session == 1 else 1
            elif o == "Neg":
                step["script"] = [["D", bytes([0x7F, sid, 0x31]).hex()]]
            elif o == "Mismatch":
                step["script"] = [["D", bytes([0x7F, sid ^ 1, 0x31]).hex()]]
            elif o == "Malformed":
                step["script"] = [["D", bytes([0x7F, sid]).hex()]]
            else:
                # Timeout and ConnErr rows are identical in the design; alternate by exception-free rule
                step["script"] = [["T"]] if len(hist) % 2 else [["C"]]
            points += 2  # read-pre, read-post
        elif act == "ToggleImplicit":
            hist.append({"op": "toggle", "on": bool(st["implicit"])})
            points += 1
        elif act == "Abort":
            pcb = prev["pc"]
            # idle: the idle point before the next step / at the end; presend: write-pre of the call
            # that just started; sent: read-pre (the request is on the wire, no reply yet)
            assert pcb in ("idle", "presend", "sent")
            cancel_point = points + 1
        prev = st
    for s in hist:
        s.pop("pos", None)
    rows = beh[-1][1]["rows"]
    exp = {"rows": [{"req0": r["req"][0], "hasResp": r["hasResp"], "hasExc": r["hasExc"], "st": r["st"],
                     "mode": r["mode"]} for r in rows]}
    return {"hist": hist, "cancel_at": cancel_point, "late": False}, exp


# --------------------------------------------------------------------------- run

def run(tier: str, seed: int) -> Report:
    quiet_gallia_logging()
    from harness import c11_kinds as K

    thorough = tier == "thorough"
    rep = Report("C11", tier, seed)
    rep.rule = ("runs = real UDSScanner.entry_point executions (real ECU + DBHandler on a fresh sqlite file, real "
                "setup/teardown) against a scripted transport; enumerated: every request kind (reflection over "
                "service.py, several instances each) x every outcome class (positive replies of several shapes, "
                "negative, timeout, mismatch, malformed, connection error on read/empty/write, pending, busy+retry) "
                "as histories of length 1; cancellation at EVERY await point k of a set of histories, plus 'raise' "
                "and a late cancellation landing inside disconnect; seeded random histories (length <= 30) with "
                "implicit toggles / ANALYZE tags / aborts; concurrent lanes; TLC-simulated design behaviours; "
                "scanner-level: commands that choose implicit logging in the constructor / in main() / never x "
                "--ecu-reset x --ping x properties (off / default / OEM class reading a DID), setup's and teardown's "
                "own exchanges judged like main()'s; entry-points: the client's convenience calls (transmit_data "
                "of several shapes with a fault at the n-th exchange, set_session incl. refused and the database "
                "fall-back, leave_session, check_and_set_session, refresh_state, wait_for_ecu, ping, read_session, "
                "read_dtc, clear_dtc, read_vin, every typed one-shot helper with a config parameter) x the request "
                "config the caller hands in (none / empty / ANALYZE / another tag / both), interleaved with plain "
                "calls tagged the other way, with implicit toggles, as concurrent lanes, aborted at every await. "
                "distinct = distinct (history, abort point); non-trivial = anything but a single positive exchange")
    rep.assumptions = [
        "outcome classes of replies are coverage labels found by offering candidate bytes to the real parse_pdu; "
        "the contract only uses what the call did (returned / raised / cancelled) and the bytes",
        "the stored pdu columns are decoded the way gallia's own reader does (unhexlify); state column decoded as "
        "JSON with keys session / security_access_level",
        "timestamps are shipped to TLC as microsecond offsets from the start of the run (fit 31 bits)",
        "ECU.retry_wait is shortened (back-off duration is irrelevant to C11); load_transport is stubbed in the "
        "harness process to return the scripted transport",
        "the tester-present worker is switched off; concurrency is exercised by concurrent caller tasks instead",
        "'implicit logging switched off' is what the command asked for through UDSScanner.implicit_logging (the "
        "documented switch, assigned in the constructor by `scan uds dump-seeds`), whenever it was assigned; in the "
        "scanner-level family gallia.command.uds.load_ecu is stubbed to hand out an ECU subclass that notes the "
        "calls of its public request() (and, for the OEM variant, reads DID 0xF190 in properties())",
        "an entry-point call is made with ONE request config for all its exchanges: the exchanges that are the "
        "operation itself (TransferData / RequestTransferExit of transmit_data, the DiagnosticSessionControl to the "
        "requested level of set_session, the exchange of a one-shot helper) are 'requested' with the caller's tags; "
        "auxiliary exchanges (reset and pings of leave_session, session read-backs, intermediate sessions of a stored "
        "transition, check_and_set_session / refresh_state / wait_for_ecu) are 'requested' with whatever config their "
        "request was made with - statement silent on whose config applies, counted as unspecified",
        "a call in flight that is cut by the cancellation of the RUN / a call that never reached the wire / a handler "
        "that was never closed: statement silent ('no completed exchange is missing') -> every outcome accepted, "
        "counted as unspecified; a call cut by a timeout of its own caller while the run goes on (asyncio.wait_for, "
        "as ECU.wait_for_ecu does) is an outcome like any other: its row is due",
    ]
    # ---- 1. model checking of the design layer against the contract + negative controls
    # (TLC subprocesses run in the background while the real runs are produced; results are
    #  collected in a fixed order below)
    mcs = ["len2", "len3", "live"] + (["len3tags", "len4"] if thorough else [])
    tp = ThreadPoolExecutor(max_workers=3)
    # the largest model is started first with most of the cores
    mc_futs = {c: tp.submit(tlc.run_tlc, "MC_DbLog", f"MC_DbLog_{c}.cfg", timeout=3000, coverage=(c == "len2"),
                            workers=(10 if c == "len4" else 3))
               for c in sorted(mcs, key=lambda c: c != "len4")}
    neg_futs = {c: tp.submit(tlc.run_tlc, "MC_DbLog", f"MC_DbLog_{c}.cfg", timeout=600, workers=2)
                for c in NEG_CONTROLS}

    # ---- 2. families of real runs
    specs_all = K.request_specs()
    good = [s for s in specs_all if "broken" not in s]
    broken = [s for s in specs_all if "broken" in s]
    # quick: the first instance of every kind with all outcome classes; the other instances positive only
    first: dict[str, dict[str, Any]] = {}
    for s in good:
        first.setdefault(s["cls"], s)
    scripts: dict[int, list[Any]] = {i: outcome_scripts(s, thorough) for i, s in enumerate(good)}
    files: list[list[dict[str, Any]]] = []
    origin: list[str] = []

    def add_file(jobs: list[dict[str, Any]], org: str) -> None:
        files.append(jobs)
        origin.extend([org] * len(jobs))

    kinds_seen: set[str] = set()
    reply_classes: set[str] = set()
    for i, s in enumerate(good):
        jobs = []
        for lab, script, retry in scripts[i]:
            if not thorough and s is not first[s["cls"]] and not lab.startswith("Pos"):
                continue
            jobs.append({"hist": [req_step(s, script, retry=retry, label=lab)]})
            if lab.startswith("Pos:"):
                reply_classes.add(lab[4:])
        kinds_seen.add(s["cls"])
        add_file(jobs, "len1")       # all outcome variants of one instance share one file (several scan_runs)
    for s in broken if thorough else broken[::2]:
        add_file([{"hist": [req_step(s, [], label="pdu-raises")]}], "len1-offwire")
    rep.extra["request_kinds"] = len({s["cls"] for s in specs_all})
    rep.extra["request_instances"] = len(good)
    rep.extra["request_instances_whose_pdu_raises"] = len(broken)
    rep.extra["positive_reply_classes"] = len(reply_classes)

    rnd = random.Random(seed)
    # abort at every await point of a set of histories
    n_abort_h = 8 if not thorough else 40
    abort_hists: list[list[dict[str, Any]]] = []
    rd = next(i for i, s in enumerate(good) if s["cls"] == "ReadDataByIdentifierRequest")
    ds = next(i for i, s in enumerate(good) if s["cls"] == "DiagnosticSessionControlRequest")

    def pick(i: int, pref: str) -> tuple[str, list[list[str]], int | None]:
        return next(x for x in scripts[i] if x[0].startswith(pref))

    h0 = [req_step(good[ds], pick(ds, "Pos")[1], label="Pos"),
          req_step(good[rd], pick(rd, "Pos")[1], ana=True, label="Pos"),
          req_step(good[rd], [["T"]], label="Timeout"),
          {"op": "toggle", "on": False},
          req_step(good[rd], pick(rd, "Pos")[1], label="Pos"),
          {"op": "toggle", "on": True},
          req_step(good[rd], pick(rd, "Mismatch")[1], label="Mismatch"),
          req_step(good[rd], [["C"], ["D", "62123404"]], retry=1, label="ConnErr,retry+Pos")]
    abort_hists.append(h0)
    while len(abort_hists) < n_abort_h:
        abort_hists.append([s for s in random_history(rnd, good, scripts, 5) if s["op"] != "raise"])
    # calls cut by a timeout of their own caller while the request is on the wire (the run goes on)
    for pre in ([], [["D", "7f2278"]]):
        cut = dict(req_step(good[rd], pre + [["H"]], label="Cut"), cut=True)
        add_file([{"hist": [cut]}], "cut-by-caller-timeout")
        add_file([{"hist": [req_step(good[ds], pick(ds, "Pos")[1], label="Pos"), cut,
                            req_step(good[rd], pick(rd, "Pos")[1], ana=True, label="Pos"), dict(cut, ana=True),
                            req_step(good[rd], [["T"]], label="Timeout")]}], "cut-by-caller-timeout")
        add_file([{"hist": [{"op": "toggle", "on": False}, cut, {"op": "toggle", "on": True}, cut]}],
                 "cut-by-caller-timeout")
    # a long run whose database writer cannot insert for a while (slow disk, another process holding the file):
    # the rows pile up; if the client ever waits for the writer, the run is cancelled right there
    nstall = 700 if not thorough else 5000
    pos_step = req_step(good[rd], pick(rd, "Pos")[1], label="Pos")
    add_file([{"hist": [pos_step] * nstall, "stall": True}], "writer-stalled")
    # ... and, once the writer runs again, sqlite reports "database is locked" for a few of its inserts
    add_file([{"hist": [pos_step] * 40, "stall": "busy"}], "writer-stalled")
    for nlast in (1, 4, 9):
        add_file([{"hist": [pos_step] * nlast, "stall": "busy-last"}], "writer-stalled")
    add_file([{"hist": [pos_step, req_step(good[rd], [["T"]], label="Timeout")] * 12, "stall": "busy"}],
             "writer-stalled")
    add_file([{"hist": [pos_step, req_step(good[rd], [["T"]], label="Timeout")] * (nstall // 4), "stall": True}],
             "writer-stalled")
    # commands whose set-up / tear-down exchange something, with implicit logging chosen before / in / never in main()
    for jobs in scanner_level_files(thorough, good[rd], good[ds], pick(rd, "Pos")[1], pick(ds, "Pos")[1]):
        add_file(jobs, "scanner-level")
    # convenience entry points of the client called with one request config for several exchanges
    ep_files, ep_abort, ep_facts = entry_point_files(thorough, good[rd], pick(rd, "Pos")[1])
    for jobs in ep_files:
        add_file(jobs, "entry-points")
    probe = run_files([[{"hist": h}] for h in abort_hists])
    probe_ep = run_files([[abort_job(h)] for h in ep_abort])
    for h, p in zip(ep_abort, probe_ep):
        for k in range(1, p["points"] + 1):
            add_file([dict(abort_job(h), cancel_at=k)], "entry-points-abort-every-point")
        for pos in range(len(h) + 1):
            add_file([abort_job(h[:pos] + [{"op": "raise"}] + h[pos:])], "entry-points-abort-every-point")
    probe = probe + probe_ep
    for h, p in zip(abort_hists, probe):
        for k in range(1, p["points"] + 1):
            add_file([{"hist": h, "cancel_at": k}], "abort-every-point")
        add_file([{"hist": h, "late": True}], "abort-inside-disconnect")
        for pos in range(len(h) + 1):
            add_file([{"hist": h[:pos] + [{"op": "raise"}] + h[pos:]}], "raise-every-step")
    # seeded random histories, pairs of runs on one file
    nrand = 120 if not thorough else 2500
    for _ in range(nrand // 2):
        jobs = []
        for _ in range(2):
            h = random_history(rnd, good, scripts, 30)
            job: dict[str, Any] = {"hist": h}
            r = rnd.random()
            if r < 0.25:
                job["cancel_at"] = rnd.randint(1, 5 * len(h) + 2)
            elif r < 0.30:
                job["late"] = True
            jobs.append(job)
        add_file(jobs, "random")
    for _ in range(20 if not thorough else 300):
        job = {"hist": par_history(rnd, good, scripts)}
        if rnd.random() < 0.3:
            job["cancel_at"] = rnd.randint(1, 40)
        add_file([job], "concurrent")

    # ---- 3. spec -> code: TLC-simulated design behaviours replayed into the real code
    nsim = 80 if not thorough else 800
    sres, behs = tlc.simulate_behaviours("MC_DbLog", "MC_DbLog_sim.cfg", num=nsim, depth=200, seed=seed + 1,
                                         timeout=900)
    expectations: dict[int, dict[str, Any]] = {}
    nfile0 = len(origin)
    for b in behs:
        pj = behaviour_to_job(b)
        if pj is None:
            continue
        expectations[len(origin)] = pj[1]
        add_file([pj[0]], "tlc-simulate")
    rep.extra["simulated_behaviours"] = len(behs)
    rep.extra["spec_to_code_replayed"] = len(origin) - nfile0

    traces = probe + run_files(files)
    origin = ["abort-probe"] * len(probe) + origin
    off = len(probe)
    for i, t in enumerate(traces):
        t["id"] = i
        t["origin"] = origin[i]

    # ---- 4a. collect the model-checking results
    cov: dict[str, int] = {}
    for c in mcs:
        res = mc_futs[c].result()
        rep.add_tlc(res, f"MC_DbLog_{c}")
        if c == "len2":
            cov = {a: res.coverage.get(a, (0, 0))[1] for a in DESIGN_ACTIONS}
        if not res.ok:
            rep.violate(f"design/{res.violated}", {"where": "DbLog design layer", "cfg": c},
                        {"cex": res.cex[-6:], "out": res.out[-1500:]})
    never = [a for a, n in cov.items() if n == 0]
    if never:
        raise Machinery(f"design-layer actions never taken in MC_DbLog_len2: {never}")
    rep.extra["design_action_coverage"] = cov
    for c, expect in NEG_CONTROLS.items():
        res = neg_futs[c].result()
        rep.add_tlc(res, f"MC_DbLog_{c} (negative control)")
        if res.violated not in expect:
            raise Machinery(f"negative control {c} did not violate {expect} (got {res.violated}): contract is vacuous")
    tp.shutdown()

    # ---- 4. code -> spec: TLC validates every run
    verdicts = validate(traces, rep)
    rep.traces = len(traces)
    rep.evaluations = sum(len(t["exch"]) for t in traces)
    unspecified = {"cancelled_in_flight": 0, "never_on_the_wire": 0, "handler_never_closed": 0,
                   "illegal_reply_without_receive_time": 0, "implicit_toggled_during_call": 0}
    seen_keys: set[str] = set()
    for i, t in enumerate(traces):
        key = json.dumps([t["job"]["hist"], t["job"]["cancel_at"], t["job"]["late"], t["job"].get("scan")],
                         sort_keys=True)
        if key not in seen_keys:
            seen_keys.add(key)
            ex = t["exch"]
            if not (len(ex) == 1 and ex[0]["out"] == "ret" and ex[0]["replies"] and ex[0]["replies"][-1][0] != 0x7F
                    and not t["aborts"]):
                rep.nontrivial.add(i)
        for e in t["exch"]:
            unspecified["cancelled_in_flight"] += e["out"] == "cancel"
            unspecified["never_on_the_wire"] += e["nw"] == 0
            unspecified["implicit_toggled_during_call"] += e["impl"] == "amb"
        unspecified["handler_never_closed"] += not t["closed"]
        unspecified["illegal_reply_without_receive_time"] += sum(
            1 for r in t["rows"] if r["hasResp"] and r["hasExc"] and not r["hasRecv"])
        label, j = verdicts[i]
        if label != "ok":
            rep.violate(label, signature(t, label, j),
                        {"job": t["job"], "at": j, "origin": t["origin"],
                         "exchange": t["exch"][j - 1] if 1 <= j <= len(t["exch"]) else None,
                         "meta": t["meta"][j - 1] if 1 <= j <= len(t["meta"]) else None,
                         "n_rows": len(t["rows"]), "n_exchanges": len(t["exch"]), "warns": t["warns"][:3],
                         "closed": t["closed"], "aborts": t["aborts"]})
    rep.extra["unspecified"] = unspecified
    sl: dict[str, int] = {}
    for t in traces:
        if t["origin"] != "scanner-level":
            continue
        for e, m in zip(t["exch"], t["meta"]):
            k = f"{m.get('phase', 'main')}:{e['impl']}"
            sl[k] = sl.get(k, 0) + (e["nw"] > 0)
    rep.extra["scanner_level_exchanges_by_phase_and_implicit_logging"] = dict(sorted(sl.items()))
    for k in ("setup:off", "setup:on", "teardown:off", "teardown:on", "main:off", "main:on"):
        if not sl.get(k) and not rep.violations:
            raise Machinery(f"scanner-level family is vacuous: no exchange on the wire for {k} ({sl})")
    # entry-point family: what was exercised, per (entry point, role of the exchange, tag the caller gave)
    epc: dict[str, int] = {}
    aux_passed: dict[str, list[int]] = {}
    for t in traces:
        if not t["origin"].startswith("entry-points"):
            continue
        for e, m in zip(t["exch"], t["meta"]):
            if not m.get("ep") or e["nw"] == 0:
                continue
            k = f"{m['ep']}:{m['role']}:{'ANALYZE' if m['tag_of_caller'] else 'untagged'}"
            epc[k] = epc.get(k, 0) + 1
            if m["role"] == "auxiliary" and m["tag_of_caller"]:
                # unspecified: whether an auxiliary exchange is made with the caller's config (recorded only)
                a = aux_passed.setdefault(f"{m['ep']}:{m['cls']}", [0, 0])
                a[0 if m["tag_reached_request"] else 1] += 1
    rep.extra["entry_point_exchanges_by_role_and_caller_tag"] = dict(sorted(epc.items()))
    rep.extra["entry_point_auxiliary_exchanges_of_tagged_calls__with_vs_without_the_callers_config"] = \
        dict(sorted(aux_passed.items()))
    rep.extra["entry_point_calls"] = sum(len(t.get("ep_calls", [])) for t in traces)
    rep.extra["entry_point_family"] = ep_facts
    unspecified["auxiliary_exchange_of_a_tagged_entry_point_call"] = sum(sum(v) for v in aux_passed.values())
    for k in ("transmit_data:operation:ANALYZE", "transmit_data:operation:untagged", "set_session:operation:ANALYZE",
              "set_session:operation:untagged", "set_session:auxiliary:ANALYZE", "leave_session:auxiliary:ANALYZE",
              "read_dtc:operation:ANALYZE", "ping:operation:ANALYZE"):
        if not epc.get(k) and not rep.violations:
            raise Machinery(f"entry-point family is vacuous: no exchange on the wire for {k} ({epc})")
    if ep_facts["typed_helpers_called"] < 20 and not rep.violations:
        raise Machinery(f"entry-point family: reflection found only {ep_facts['typed_helpers_called']} typed helpers "
                        f"with a config parameter (skipped: {ep_facts['typed_helpers_skipped']})")
    rep.extra["origins"] = {o: origin.count(o) for o in sorted(set(origin))}
    rep.extra["rows_read_back"] = sum(len(t["rows"]) for t in traces)
    rep.extra["warnings_could_not_log"] = sum(len(t["warns"]) for t in traces)
    rep.extra["abort_points_enumerated"] = origin.count("abort-every-point")
    rep.exhaustive = True
    rep.extra["exhaustive_over"] = ("every concrete request class of service.py x every outcome class (length 1); "
                                    "every await point of the abort histories; NOT the random families")
    for t in (traces[off], traces[off + len(traces) // 3], traces[-1]):
        rep.sample({"origin": t["origin"], "exchanges": [[bytes(e["req"]).hex(), e["out"], e["impl"]]
                                                         for e in t["exch"][:6]],
                    "rows": [[bytes(r["req"]).hex(), bytes(r["resp"]).hex() if r["hasResp"] else None, r["mode"]]
                             for r in t["rows"][:6]], "closed": t["closed"], "aborts": t["aborts"]})

    # spec -> code comparison (design rows vs real rows): DRIFT only
    drift = 0
    for idx, exp in expectations.items():
        t = traces[off + idx]
        got = [{"req0": r["req"][0] if r["req"] else -1, "hasResp": r["hasResp"], "hasExc": r["hasExc"],
                "st": r["st"], "mode": r["mode"]} for r in t["rows"]]
        if got != exp["rows"]:
            drift += 1
            rep.drift.append({"job": t["job"], "design_rows": exp["rows"], "code_rows": got})
    rep.extra["spec_to_code_drift"] = drift

    # ---- 5. binding self-tests: corrupted accepted traces must be rejected
    okt = [t for i, t in enumerate(traces) if verdicts[i][0] == "ok" and t["closed"] and len(t["rows"]) >= 3
           and any(r["hasRecv"] for r in t["rows"])]
    if okt:
        base = json.loads(json.dumps({k: okt[0][k] for k in TRACE_KEYS}))
        rep.extra["binding_selftest_base"] = "recorded run"
    elif rep.violations:
        # every multi-row run of this tree is already rejected: corrupt a synthetic accepted run instead
        base = synthetic_ok_trace()
        rep.extra["binding_selftest_base"] = "synthetic (no recorded multi-row run was accepted)"
    else:
        raise Machinery("no accepted multi-row run to corrupt for the binding self-test")
    if validate([{**base, "id": 0}])[0][0] != "ok":
        raise Machinery("binding self-test: the uncorrupted base trace is not accepted")
    muts: list[tuple[str, dict[str, Any]]] = []

    def mut(name: str) -> dict[str, Any]:
        m = json.loads(json.dumps(base))
        m["id"] = len(muts)
        muts.append((name, m))
        return m

    mut("drop-row")["rows"].pop(1)
    m = mut("dup-row"); m["rows"].insert(1, m["rows"][1])
    m = mut("swap-rows"); m["rows"][0], m["rows"][-1] = m["rows"][-1], m["rows"][0]
    m = mut("flip-request-byte"); m["rows"][0]["req"][-1] ^= 1
    m = mut("state"); m["rows"][1]["st"] = [m["rows"][1]["st"][0] + 1, m["rows"][1]["st"][1]]
    m = mut("mode"); m["rows"][0]["mode"] = "emphasized" if m["rows"][0]["mode"] == "implicit" else "implicit"
    m = mut("time")
    r = next(r for r in m["rows"] if r["hasRecv"]); r["send"] = r["recv"] + 1
    m = mut("stray"); m["stray"] = 1
    swap = [m for _, m in muts if m["id"] == 2][0]
    if swap["rows"][0] == swap["rows"][-1]:
        muts = [x for x in muts if x[0] != "swap-rows"]
        for k, (_, m) in enumerate(muts):
            m["id"] = k
    offb = next((t for i, t in enumerate(traces) if verdicts[i][0] == "ok" and t["origin"] == "scanner-level"
                 and t["closed"] and t["exch"] and t["exch"][0]["impl"] == "off" and t["exch"][0]["nw"] > 0
                 and t["exch"][0]["out"] == "ret" and t["meta"][0].get("phase") == "setup"), None)
    if offb is None and not rep.violations:
        raise Machinery("no accepted scanner-level run with a set-up exchange made while implicit logging was off")
    if offb is not None:
        m = json.loads(json.dumps({k: offb[k] for k in TRACE_KEYS}))
        e0 = m["exch"][0]
        m["rows"].insert(0, {"okDecode": True, "req": e0["req"], "hasResp": True, "resp": e0["replies"][-1],
                             "hasExc": False, "st": e0["st"], "mode": "implicit", "send": 1, "hasRecv": True,
                             "recv": 2})
        m["id"] = len(muts)
        muts.append(("row-for-setup-exchange-while-off", m))
        offb_id = m["id"]
    epb = None
    for i, t in enumerate(traces):
        if verdicts[i][0] != "ok" or t["origin"] != "entry-points" or not t["closed"] or len(t["rows"]) != len(t["exch"]):
            continue
        last = [j for j, (e, mm) in enumerate(zip(t["exch"], t["meta"]))
                if mm.get("ep") == "transmit_data" and mm["role"] == "operation" and e["ana"] and e["impl"] == "on"
                and e["req"][:1] == [0x37]]
        if last:
            epb = (t, last[0])
            break
    if epb is None and not rep.violations:
        raise Machinery("no accepted entry-point run with a tagged, completed data transfer")
    if epb is not None:
        m = json.loads(json.dumps({k: epb[0][k] for k in TRACE_KEYS}))
        m["rows"][epb[1]]["mode"] = "implicit"
        m["id"] = len(muts)
        muts.append(("exit-of-tagged-transfer-marked-implicit", m))
    mv = validate([m for _, m in muts])
    if epb is not None and mv[muts[-1][1]["id"]][0] != "B2/log-mode":
        raise Machinery("binding self-test: the concluding exchange of a tagged transfer marked implicit is not "
                        f"reported as B2/log-mode but as {mv[muts[-1][1]['id']][0]}")
    acc = [n for (n, m) in muts if mv[m["id"]][0] == "ok"]
    if acc:
        raise Machinery(f"binding self-test: corrupted traces accepted: {acc}")
    rep.extra["binding_selftest"] = {n: mv[m["id"]][0] for n, m in muts}
    if offb is not None and mv[offb_id][0] != "B3/recorded-while-implicit-off":
        raise Machinery("binding self-test: a row for a set-up exchange made while implicit logging was off is not "
                        f"reported as B3 but as {mv[offb_id][0]}")
    return rep


def replay(path: str) -> int:
    quiet_gallia_logging()
    from harness import c11_drive

    data = json.loads(open(path).read())
    bad = 0
    for v in data["violations"]:
        job = v["detail"].get("job")
        if job is None:
            print(f"replay: design-layer violation {v['clause']} (re-run the tier)")
            bad += 1
            continue
        t = c11_drive.run_file([{"hist": job["hist"], "cancel_at": job.get("cancel_at"),
                                 "late": bool(job.get("late")), "scan": job.get("scan")}])[0]
        t["id"] = 0
        label, j = validate([t])[0]
        print(f"replay steps={len(job['hist'])} cancel_at={job.get('cancel_at')} rows={len(t['rows'])}/"
              f"{len(t['exch'])} warns={len(t['warns'])} verdict={label} at={j}")
        bad += label != "ok"
    if bad:
        print(f"VIOLATION property=C11 replay={path}")
        return 1
    return 0
