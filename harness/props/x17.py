"""X17 (growth) — gallia's command-line front end and plugin registry do what their help texts / docstrings /
docs say (statement: /verif/growth/X17.json).

spec   : spec/CliTreeContract.tla (clauses L1-L6 D1-D4 R1-R3 S1-S4 T0-T2 P0-P3 RR1-RR4 H1 B1, sources in its header),
         spec/CliTree.tla (design: merge of the plugins' trees in discovery order, token-by-token descent of the
         parser tree, dispatch, registry look-up, listing, template; 7 deviation constants)
MC     : MC_CliTree_design (2 178 pairs of plugin trees + dispatch / look-up / template universes, exports the
         scenarios, argument-vector classes and look-ups for spec -> code) + 7 negative controls MC_CliTree_dev*
binding: the REAL code in-process: gallia.cli.gallia.main() with sys.argv patched (stdout / stderr / SystemExit
         captured; BaseCommand.entry_point stubbed at class level: records class + config, connects nowhere),
         load_commands / load_transport / load_ecu / load_transports / load_ecus with synthetic plugins installed
         the way third-party plugins are (a dist-info with [gallia_plugins] entry points on sys.path, before or
         after the builtin ones), `script rerun` through the CLI with the real entry_point / DBHandler / sqlite
         file / META.json (only run() of the concrete command is stubbed), gallia.cli.hr.main().
         code -> spec: every record validated by Trace_CliTree (TLC decides);
         spec -> code: every scenario / argument-vector class / look-up TLC enumerated is instantiated on the real
         code (argument-vector classes on EVERY command of the real tree); disagreement with the design = DRIFT.
"""

from __future__ import annotations

import json
import multiprocessing as mp
import os
import random
from concurrent.futures import ThreadPoolExecutor
from typing import Any

from harness import tlc
from harness import x17_cases as cs
from harness.common import Machinery, Report, quiet_gallia_logging

NEG = {
    "devOverwrite": {"Inv_Load"}, "devLeafByName": {"Inv_Dispatch"}, "devRunOnMissing": {"Inv_Dispatch"},
    "devUsageExitZero": {"Inv_Dispatch"}, "devPrefixLookup": {"Inv_Lookup"}, "devListOmitsNested": {"Inv_List"},
    "devTemplateLastDefault": {"Inv_Template"},
}
ACTIONS = ["Merge", "Loaded", "ChooseDispatch", "Top", "Help", "Descend", "Unknown", "EndAtGroup", "AtLeaf",
           "Lookup", "List", "Template"]
NPROC = max(2, min(12, (os.cpu_count() or 4) - 2))
JOPT = {"JAVA_TOOL_OPTIONS": "-XX:TieredStopAtLevel=1 -XX:ParallelGCThreads=2"}

# the documented invocations of `script vecu db` (docs/uds/virtual_ecu.md, "db" section), in today's syntax
VECU_DB = [
    {"path": ["script", "vecu", "db"], "cls": "gallia.commands.script.vecu.DbVirtualECU",
     "valid": ["tcp://127.0.0.1:20162", "/path/to/db"], "required": [["tcp://127.0.0.1:20162"], ["/path/to/db"]],
     "foreign": ["--zz-no-such-option", "1"], "doc": "gallia vecu \"tcp-lines://127.0.0.1:20162\" db /path/to/db"},
    {"path": ["script", "vecu", "db"], "cls": "gallia.commands.script.vecu.DbVirtualECU",
     "valid": ["tcp://127.0.0.1:20162", "/path/to/db", "--ecu", "XYZ", "--properties", '{"software_version": "1.2.3"}'],
     "required": [], "foreign": ["--zz-no-such-option", "1"],
     "doc": "... db /path/to/db --ecu \"XYZ\" --properties '{\"software_version\": \"1.2.3\"}'"},
]


# ------------------------------------------------------------------ 1. design layer
def _design(rep: Report) -> Any:
    res = tlc.run_tlc("MC_CliTree", "MC_CliTree_design.cfg", workers=1, timeout=900)
    rep.add_tlc(res, "MC_CliTree_design")
    if not res.ok:
        rep.violate(f"design/{res.violated}", {"where": "CliTree design layer"}, {"cex": res.cex[-8:], "out": res.out[-1500:]})
    seen: set[str] = set()
    for p in res.prints:
        if isinstance(p, list) and len(p) == 2 and p[0] == "H":
            seen.update(p[1])
    never = [a for a in ACTIONS if a not in seen]
    if never:
        raise Machinery(f"MC_CliTree_design: design actions never taken: {never}")
    rep.extra["design_layer_not_vacuous"] = f"every action of CliTree is taken ({len(ACTIONS)} actions, from the exported histories)"
    return res


def _negatives(rep: Report) -> None:
    def one(c: str) -> Any:
        return tlc.run_tlc("MC_CliTree", f"MC_CliTree_{c}.cfg", workers=1, timeout=900, env=JOPT, parse_prints=False)

    with ThreadPoolExecutor(max_workers=4) as ex:
        results = list(ex.map(one, list(NEG)))
    for c, res in zip(NEG, results):
        rep.add_tlc(res, f"MC_CliTree_{c} (negative control)")
        if res.violated not in NEG[c]:
            raise Machinery(f"negative control MC_CliTree_{c} did not violate {sorted(NEG[c])} (got {res.violated}): "
                            "contract is vacuous")
    rep.extra["negative_controls"] = sorted(NEG)


# ------------------------------------------------------------------ 2. real executions
def _work(arg: tuple[int, dict[str, Any]]) -> tuple[int, dict[str, Any]]:
    from harness import x17_run as R

    i, job = arg
    try:
        return i, R.run_job(job)
    except Machinery as e:
        return i, {"machinery": str(e)}


def _init(parent: str) -> None:
    import tempfile

    from harness import x17_run as R

    R._ROOT[:] = [tempfile.mkdtemp(prefix="w-", dir=parent)]


def _run_jobs(jobs: list[dict[str, Any]]) -> list[dict[str, Any]]:
    import shutil
    import tempfile

    from harness import x17_run as R  # noqa: F401  (import gallia before forking)

    cost = {"rerun": 9, "template": 8, "dispatch": 7, "showcfg": 5, "plugins": 3, "lookup": 2, "hr": 1, "load": 0}
    order = sorted(range(len(jobs)), key=lambda i: (-cost.get(jobs[i]["job"], 0), i))
    ctx = mp.get_context("fork")
    out: dict[int, dict[str, Any]] = {}
    parent = tempfile.mkdtemp(prefix="x17-")
    try:
        with ctx.Pool(NPROC, initializer=_init, initargs=(parent,)) as pool:
            for i, res in pool.imap_unordered(_work, [(i, jobs[i]) for i in order], chunksize=1):
                out[i] = res
    finally:
        shutil.rmtree(parent, ignore_errors=True)
    recs: list[dict[str, Any]] = []
    for i in range(len(jobs)):
        if "machinery" in out[i]:
            raise Machinery(out[i]["machinery"])
        for r in out[i]["records"]:
            r["design"] = jobs[i].get("design")
            recs.append(r)
    return recs


_SYN = ("xa", "xb")


def _slim(r: dict[str, Any]) -> dict[str, Any]:
    """the fields Trace_CliTree reads (everything else stays in Python for the replay file)"""
    k = r["kind"]
    x: dict[str, Any] = {"id": r["id"], "kind": k}
    if k == "load":
        proj = r["job"].get("map") == 1
        keep = (lambda p: p["path"][0] in _SYN) if proj else (lambda p: True)
        x.update(regs=[q for q in r["regs"] if keep(q)], descs=[q for q in r["descs"] if keep(q)], ok=r["ok"],
                 tree=[q for q in r["tree"] if keep(q)])
    elif k == "broken":
        x.update(ok=r["ok"])
    elif k == "dispatch":
        x.update({f: r[f] for f in ("cls_", "tree", "ran", "exit", "ret", "err", "children", "listed", "top", "version",
                                    "shown_version")})
    elif k == "lookup":
        x.update(reg=r.get("reg", []), q=r.get("q", ""), res=r["res"])
    elif k == "list":
        x.update(reg=r.get("reg", []), got=r.get("got", []))
    elif k == "showcfg":
        x.update({f: r[f] for f in ("have", "git", "shown", "used", "ran", "content")})
    elif k == "template":
        x.update(parses=r["parses"], exit=r["exit"], ran=r["ran"])
    elif k == "template_cmd":
        x.update({f: r[f] for f in ("base_ran", "with_ran", "base", "with")})
    elif k == "plugins":
        x.update({f: r[f] for f in ("expect", "found", "counts", "exit", "ran")})
    elif k == "rerun":
        x.update({f: r[f] for f in ("how", "stored_cls", "want_cls", "stored", "ran", "exit", "ret")})
    elif k == "hr":
        x.update({f: r[f] for f in ("exit", "out_empty", "err")})
    return x


def _validate(recs: list[dict[str, Any]], rep: Report | None, chunk: int = 1200) -> dict[int, str]:
    jobs = [recs[o:o + chunk] for o in range(0, len(recs), chunk)]

    def one(sub: list[dict[str, Any]]) -> Any:
        return tlc.validate_batch("Trace_CliTree", "Trace_CliTree.cfg", {"traces": [_slim(r) for r in sub]},
                                  timeout=1800, workers=1, heap="3g", env={"JAVA_TOOL_OPTIONS": "-Xss64m"})

    with ThreadPoolExecutor(max_workers=4) as ex:
        results = list(ex.map(one, jobs))
    verdicts: dict[int, str] = {}
    for res in results:
        if rep is not None:
            rep.add_tlc(res, "Trace_CliTree batch")
        for p in res.prints:
            if isinstance(p, list) and len(p) == 3 and p[0] == "V":
                verdicts[p[1]] = p[2]
    missing = [r["id"] for r in recs if r["id"] not in verdicts]
    if missing:
        raise Machinery(f"TLC produced no verdict for {len(missing)} records (first id {missing[0]}):\n" + results[-1].out[-2500:])
    return verdicts


# ------------------------------------------------------------------ signatures / projections (facts of the case, no judging)
def _synthetic(path: list[str]) -> bool:
    return bool(path) and (path[0] in _SYN or any(t in _SYN for t in path))


def _sig(r: dict[str, Any]) -> dict[str, Any]:
    k = r["kind"]
    if k == "dispatch":
        p = r["path"]
        syn = _synthetic(p) or bool((r.get("job") or {}).get("scenario"))
        return {"kind": k, "cls_": r["cls_"], "path": "synthetic" if syn else "/".join(p)}
    if k in ("lookup", "list"):
        q = r.get("q", "")
        by_plugin = any(x["key"] == q and x["cls"].startswith("harness.") for x in r.get("reg", []))
        return {"kind": k, "what": r["what"], "registered_by": "plugin" if by_plugin else "builtin-or-nobody",
                "q": q if not by_plugin and not q.startswith("x") else "synthetic"}
    if k == "load":
        return {"kind": k, "map": r["job"].get("map", 0), "synth": r["job"].get("synth")}
    if k == "showcfg":
        return {"kind": k, "env": r["have"]["env"], "shown": r["shown"], "used": r["used"]}
    if k == "template_cmd":
        return {"kind": k, "differs": (r.get("differs") or ["?"])[0]}
    if k == "rerun":
        syn = _synthetic(r["path"]) or bool((r.get("job") or {}).get("scenario"))
        return {"kind": k, "how": r["how"], "path": "synthetic" if syn else "/".join(r["path"])}
    if k == "hr":
        return {"kind": k, "cls_": r["cls_"]}
    return {"kind": k}


def _detail(r: dict[str, Any]) -> dict[str, Any]:
    d = {k: v for k, v in r.items() if k not in ("regs", "descs", "tree", "tdescs", "reg", "expect", "found")}
    if r["kind"] == "load":
        d["tree_synthetic"] = [t for t in r["tree"] if _synthetic(t["path"])]
    if r["kind"] == "plugins":
        d["not_listed"] = [e for e, f in zip(r["expect"], r["found"]) if not f]
    return d


def _nontrivial(r: dict[str, Any]) -> bool:
    k = r["kind"]
    if k == "dispatch":
        return r["cls_"] not in ("valid", "help", "help_group") or _synthetic(r["path"])
    if k == "load":
        return bool(r["job"].get("scenario", {}).get("pls"))
    if k == "showcfg":
        h = r["have"]
        return sum(bool(h[x]) for x in ("cwd", "xdg", "home")) + (h["git"] is True) + (h["env"] != "unset") >= 2
    if k == "lookup":
        return True
    return k in ("rerun", "template_cmd", "plugins", "hr", "broken", "list")


def _key(r: dict[str, Any]) -> str:
    return json.dumps([r["kind"], r.get("job"), r.get("item"), r.get("q"), r.get("path"), r.get("how")],
                      sort_keys=True, default=str)


# ------------------------------------------------------------------ spec -> code comparison (drift only)
def _drift(rep: Report, recs: list[dict[str, Any]], classes: dict[str, str]) -> None:
    n = {"load": 0, "dispatch": 0, "lookup": 0}
    for r in recs:
        if r["kind"] == "load" and r.get("design") and r["job"].get("map") == 1:
            n["load"] += 1
            d = r["design"]
            names = r["job"]["scenario"]["names"]
            want = sorted(json.dumps([[names[t] for t in p], "harness.x17_synth." + c]) for p, c in d["tree"])
            got = sorted(json.dumps([t["path"], t["cls"]]) for t in r["tree"] if _synthetic(t["path"]))
            if d["refused"] != (not r["ok"]) or (r["ok"] and want != got):
                rep.drift.append({"what": "merge of plugin trees", "scenario": r["job"]["scenario"]["pls"],
                                  "design": d, "code": {"ok": r["ok"], "tree": got, "msg": r["msg"]}})
        elif r["kind"] == "dispatch":
            n["dispatch"] += 1
            real = ("run" if r["ran"] else "usage" if r["err"] and r["exit"] not in (0, -1)
                    else "help" if r["cls_"] in ("help", "help_group") else "top")
            if classes.get(r["cls_"]) != real:
                rep.drift.append({"what": "argument-vector class", "cls_": r["cls_"], "argv": r["argv"],
                                  "design": classes.get(r["cls_"]), "code": real, "exit": r["exit"]})
        elif r["kind"] == "lookup" and "design" in (r.get("item") or {}):
            n["lookup"] += 1
            want = ("harness.x17_synth." + r["item"]["design"]) if r["item"]["design"] else ""
            if want != r["res"]:
                rep.drift.append({"what": "registry look-up", "q": r.get("q"), "design": want, "code": r["res"] or r["raised"]})
    rep.extra["spec_to_code_replayed"] = n
    rep.extra["spec_to_code_drift"] = len(rep.drift)
    if min(n.values()) == 0:
        raise Machinery(f"spec->code: nothing replayed for {[k for k, v in n.items() if not v]}")


# ------------------------------------------------------------------ run
def _build_jobs(tier: str, seed: int, prints: list[Any]) -> tuple[list[dict[str, Any]], dict[str, str], dict[str, Any]]:
    from harness import x17_run as R

    rnd = random.Random(seed)
    scs = cs.scenarios_from_prints(prints)
    classes = cs.argv_classes_from_prints(prints)
    lks = cs.lookups_from_prints(prints)
    if len(scs) < 100 or len(classes) < 8 or len(lks) < 20:
        raise Machinery(f"design exported too little: {len(scs)} scenarios, {len(classes)} argv classes, {len(lks)} look-ups")
    specs = R.command_specs()
    have = {"/".join(s["path"]) for s in specs}
    from harness import c18_lib as L

    all_paths = ["/".join(p) for p, _ in L.walk_commands()]
    nobase = [p for p in all_paths if p not in have]
    extra_specs = [v for v in VECU_DB if "/".join(v["path"]) in nobase]
    unknown = [p for p in nobase if p not in {"/".join(v["path"]) for v in VECU_DB}]
    jobs: list[dict[str, Any]] = []
    jobs += cs.real_dispatch_jobs(specs, classes, tier)
    if extra_specs:
        only = {k: v for k, v in classes.items() if k in ("valid", "unknown_leaf", "help", "foreign_option")}
        for v in extra_specs:
            jobs.append({"job": "dispatch", "scenario": None, "synth": None,
                         "items": cs._items_for(v, only if v["required"] else {"valid": "run"}, children={}, rets=(3,))})
    jobs += cs.synth_dispatch_jobs(scs, classes, tier, rnd)
    if tier == "thorough":
        # the whole matrix over the real tree once more with third-party plugins installed (found first / last)
        rich = [s for s in scs if not s["design"]["refused"] and len(s["design"]["tree"]) >= 3]
        for n, j in enumerate(cs.real_dispatch_jobs(specs, classes, "quick")):
            jobs.append(dict(j, scenario=cs.concrete(rich[n % len(rich)], cs.NAMES1), synth="first" if n % 2 else "last"))
    jobs += cs.load_jobs(scs, tier)
    jobs += cs.lookup_jobs(lks, tier)
    jobs += cs.showcfg_jobs(tier)
    jobs += cs.template_jobs(specs)
    jobs += cs.plugins_jobs(scs)
    jobs += cs.rerun_jobs(specs, scs, tier)
    jobs += cs.hr_jobs()
    info = {"scenarios": len(scs), "argv_classes": classes, "lookups": len(lks), "commands": len(all_paths),
            "commands_without_generated_base": nobase, "commands_with_no_known_valid_invocation": unknown}
    return jobs, classes, info


def run(tier: str, seed: int) -> Report:
    quiet_gallia_logging()
    rep = Report("X17", tier, seed)
    rep.rule = ("executions = one in-process run of the real front end / registry function (gallia main() with an argument "
                "vector, load_commands with a set of installed plugins, load_transport / load_ecu with a URI / vendor, hr "
                "main()); distinct = distinct (kind, environment, argument vector); non-trivial = NOT a plain valid / help "
                "invocation of a builtin command: usage-error classes, synthetic plugin environments, look-ups, config "
                "discovery with >= 2 candidate locations, re-runs, template-as-config, listings")
    rep.assumptions = [
        "growth item, not a listed property; the statement is /verif/growth/X17.json, the source of every clause is listed in "
        "the header of spec/CliTreeContract.tla",
        "in-process: sys.argv / os.environ / cwd / sys.path patched per case and restored; BaseCommand.entry_point (dispatch) "
        "or the concrete command's run() (rerun) stubbed at class level; gallia.cli.gallia.setup_logging replaced by a no-op; "
        "argcomplete.autocomplete is a no-op without _ARGCOMPLETE in the environment",
        "synthetic plugins are installed as a real distribution (dist-info + entry_points.txt on sys.path); their registrations "
        "are the harness's own data; the builtin plugins' registrations are read from Plugin.commands() / transports() / ecus() "
        "(the INPUT of the merge / look-up), discovery order from importlib.metadata (not from gallia's loader)",
        "valid option vectors of the real commands come from the C18 helpers (harness/c18_cases.CommandCtx); `script vecu db` has "
        "none there, its two documented invocations (docs/uds/virtual_ecu.md) are used instead",
        "config discovery: HOME, XDG_CONFIG_HOME, GALLIA_CONFIG, cwd and a `git init` repository are set up per case in a "
        "temporary directory; platformdirs resolves ~/.config from HOME",
        "the scheme of a target URI is what urllib.parse.urlparse says (RFC 3986: case-insensitive, lower-cased)",
    ]
    # ---- 1. design layer (exports scenarios / classes / look-ups)
    res = _design(rep)
    jobs, classes, info = _build_jobs(tier, seed, res.prints)
    rep.extra["exported_by_design"] = info
    if info["commands_with_no_known_valid_invocation"]:
        rep.extra["unspecified_no_valid_invocation_known"] = info["commands_with_no_known_valid_invocation"]
    # ---- 2./3. real executions (fork BEFORE any TLC thread exists in this process)
    recs = _run_jobs(jobs)
    for i, r in enumerate(recs):
        r["id"] = i
    # ---- negative controls + code -> spec
    _negatives(rep)
    verdicts = _validate(recs, rep)
    _drift(rep, recs, classes)
    rep.traces = rep.evaluations = len(recs)
    kinds: dict[str, int] = {}
    unspec: dict[str, int] = {}
    for r in recs:
        kinds[r["kind"]] = kinds.get(r["kind"], 0) + 1
        v = verdicts[r["id"]]
        if _nontrivial(r):
            rep.nontrivial.add(_key(r))
        if v == "ok-unspecified":
            unspec[r["kind"]] = unspec.get(r["kind"], 0) + 1
        elif v != "ok":
            if v.startswith("machinery/"):
                raise Machinery(f"{v}: {json.dumps(_detail(r), default=str)[:1500]}")
            rep.violate(v, _sig(r), _detail(r))
    rep.extra["records_by_kind"] = kinds
    rep.extra["unspecified"] = unspec
    rep.extra["observed_where_sources_are_silent"] = _observations(recs)
    rep.extra["not_demanded"] = [
        "the exit status of a usage error beyond 'not 0' (today 2, and 64 for no arguments), message texts, order of listings",
        "GALLIA_CONFIG naming a missing file (today: FileNotFoundError traceback from every invocation, also --version)",
        "whether ~/.config/gallia/gallia.toml is read when XDG_CONFIG_HOME is set (docs list both; platformdirs reads one)",
        "which class wins when two plugins register the same scheme / OEM; whether the SAME class registered twice under one "
        "path is a conflict (today: refused)",
        "the description of a group when only some plugins give one (today: the FIRST plugin's, even if that is None)",
        "top-level options given AFTER a command path (today: 'unrecognized arguments')",
        "option values (C18), exit codes / META.json of a run (C15), the reader behind hr (C17)",
    ]
    for r in (recs[0], recs[len(recs) // 3], recs[len(recs) // 2], recs[-1]):
        rep.sample({"kind": r["kind"], "sig": _sig(r), "verdict": verdicts[r["id"]],
                    "argv": r.get("argv"), "exit": r.get("exit"), "ran": r.get("ran") if r["kind"] != "showcfg" else None})
    rep.exhaustive = True
    rep.extra["exhaustive_spaces"] = (
        f"every command of the real tree ({info['commands']}) x every argument-vector class the design enumerates "
        f"({len(classes)}; missing_required once per required option, unknown_group once per group level); every pair of "
        f"plugin trees of the design universe ({info['scenarios']} scenarios) through the real load_commands; every "
        f"(registry, query) of the design ({info['lookups']}) through load_transport and load_ecu; every command through "
        "`script rerun` by --id, by --file and with an unknown id; every command with the template as its config file; "
        + ("every" if tier == "thorough" else "with GALLIA_CONFIG unset every")
        + " combination of config-file locations; dispatch on synthetic trees and the remaining environments are samples")
    _selftest(rep, recs, verdicts)
    return rep


def _observations(recs: list[dict[str, Any]]) -> dict[str, Any]:
    """facts recorded where the sources are silent (not judged)"""
    lost = 0
    for r in recs:
        if r["kind"] == "load" and r["ok"]:
            given = {json.dumps(d["path"]): d["d"] for d in r["descs"] if d["d"]}
            for t in r.get("tdescs", []):
                if not t["d"] and json.dumps(t["path"]) in given:
                    lost += 1
    exits: dict[str, int] = {}
    for r in recs:
        if r["kind"] == "dispatch" and r["cls_"] not in ("valid", "help", "help_group", "top_then_path"):
            exits[str(r["exit"])] = exits.get(str(r["exit"]), 0) + 1
    envmiss = sorted({r["used"] + "/" + str(r["exit"]) for r in recs if r["kind"] == "showcfg" and r["have"]["env"] == "missing"})
    return {"groups whose description was lost because the first plugin gave none": lost,
            "exit status of usage errors": exits, "GALLIA_CONFIG names a missing file (used/exit)": envmiss}


# ------------------------------------------------------------------ binding self-test
def _selftest(rep: Report, recs: list[dict[str, Any]], verdicts: dict[int, str]) -> None:
    def clone(r: dict[str, Any]) -> dict[str, Any]:
        return json.loads(json.dumps(r, default=str))

    def pick(pred: Any) -> dict[str, Any] | None:
        for r in recs:
            if verdicts[r["id"]] == "ok" and pred(r):
                return clone(r)
        return None

    muts: list[tuple[str, dict[str, Any], str]] = []
    skipped: list[str] = []

    def add(name: str, base: dict[str, Any] | None, fn: Any, want: str) -> None:
        if base is None:
            skipped.append(name)
            return
        fn(base)
        muts.append((name, base, want))

    add("dispatch: another class run", pick(lambda r: r["kind"] == "dispatch" and r["cls_"] == "valid"),
        lambda r: r["ran"][0].update(cls="gallia.commands.script.rerun.Rerunner"), "D1/other")
    add("dispatch: exit status changed", pick(lambda r: r["kind"] == "dispatch" and r["cls_"] == "valid" and r["ret"] == 3),
        lambda r: r.update(exit=0), "D1/exit")
    add("usage error: command run", pick(lambda r: r["kind"] == "dispatch" and r["cls_"] == "missing_required"),
        lambda r: r.update(ran=[{"cls": "x", "cfgok": True}]), "D2/command-run")
    add("usage error: exit 0", pick(lambda r: r["kind"] == "dispatch" and r["cls_"] == "unknown_leaf"),
        lambda r: r.update(exit=0), "D2/usage-error-exits-zero")
    add("help: child not listed", pick(lambda r: r["kind"] == "dispatch" and r["cls_"] == "help_group" and len(r["listed"]) > 1),
        lambda r: r.update(listed=r["listed"][1:]), "D3/help-omits")

    def drop_leaf(r: dict[str, Any]) -> None:
        r["tree"] = r["tree"][:-1]
    add("load: leaf dropped from the tree", pick(lambda r: r["kind"] == "load" and r["ok"] and len(r["tree"]) >= 2
                                                  and r["job"].get("map") == 2), drop_leaf, "L1/")

    def accept_conflict(r: dict[str, Any]) -> None:
        r["ok"] = True
        r["tree"] = [{"path": q["path"], "cls": q["cls"]} for q in r["regs"]]
    add("load: conflict accepted", pick(lambda r: r["kind"] == "load" and not r["ok"] and r["job"].get("map") == 1),
        accept_conflict, "L")
    add("lookup: class of another scheme", pick(lambda r: r["kind"] == "lookup" and r["res"] and len(r["reg"]) >= 2),
        lambda r: r.update(res=next(x["cls"] for x in r["reg"] if x["key"] != r["q"])), "R1/class-of-another")
    add("lookup: unknown scheme answered", pick(lambda r: r["kind"] == "lookup" and not r["res"] and r["reg"]),
        lambda r: r.update(res=r["reg"][0]["cls"]), "R2/")
    add("show-config: another file shown", pick(lambda r: r["kind"] == "showcfg" and r["shown"] == "cwd" and r["have"]["home"]),
        lambda r: r.update(shown="home"), "S1/")
    add("template: default changed", pick(lambda r: r["kind"] == "template_cmd"), lambda r: r.update({"with": 2}), "T2/")
    add("rerun: another class", pick(lambda r: r["kind"] == "rerun" and r["how"] == "id"),
        lambda r: r["ran"][0].update(cls="gallia.commands.script.rerun.Rerunner"), "RR1/other")
    add("rerun: config differs", pick(lambda r: r["kind"] == "rerun" and r["how"] == "file"),
        lambda r: r["ran"][0].update(cfg=2), "RR2/")
    add("plugins: command not listed", pick(lambda r: r["kind"] == "plugins"),
        lambda r: r["found"].__setitem__(len(r["found"]) - 1, False), "P2/command")
    add("hr: exit 0", pick(lambda r: r["kind"] == "hr"), lambda r: r.update(exit=0), "H1/")
    # one mutant of the harness's own fake plugin
    from harness import x17_run as R

    try:
        m = R.run_job({"job": "load", "synth": "last", "map": 1, "mutant": True,
                       "scenario": {"names": cs.NAMES1, "descs": cs.DESCS,
                                    "pls": [{"leaves": [[["a", "a"], "c1aa"], [["b"], "c1b"]], "desc": ""},
                                            {"leaves": [], "desc": ""}]}})["records"][0]
    finally:
        R.cleanup()
    muts.append(("fake plugin registers another class than the ground truth", clone(m), "L1/"))
    if not muts:
        raise Machinery("binding self-test: no accepted record to corrupt")
    for n, (_, r, _) in enumerate(muts):
        r["id"] = n
    v = _validate([r for _, r, _ in muts], None)
    got = {name: v[n] for n, (name, _, _) in enumerate(muts)}
    wrong = [name for n, (name, _, want) in enumerate(muts) if not v[n].startswith(want)]
    if wrong:
        raise Machinery(f"binding self-test: corrupted records not rejected as expected: {wrong}: {got}")
    if skipped:
        if not rep.violations:
            raise Machinery(f"binding self-test: no accepted base record for {skipped}")
        got["skipped (no accepted base record on this tree; violations are reported)"] = ", ".join(skipped)
    rep.extra["binding_selftest"] = got


# ------------------------------------------------------------------ replay
def replay(path: str) -> int:
    quiet_gallia_logging()
    from harness import x17_run as R

    data = json.loads(open(path).read())
    recs: list[dict[str, Any]] = []
    bad = 0
    try:
        for n, v in enumerate(data["violations"]):
            d = v["detail"]
            job = d.get("job")
            if job is None:
                print(f"replay: violation {n} ({v['clause']}) is a design-layer counterexample: re-run ./check X17")
                bad += 1
                continue
            job = dict(job)
            if "item" in d and job["job"] == "lookup":
                job["queries"] = [d["item"]]
            elif "item" in d:
                job["items"] = [d["item"]]
            got = R.run_job(job)["records"]
            want_kind = d.get("kind")
            for r in got:
                if want_kind in (None, r["kind"]) and (r.get("how") == d.get("how")):
                    r["id"] = len(recs)
                    r["_clause"] = v["clause"]
                    recs.append(r)
        if recs:
            verdicts = _validate(recs, None)
            for r in recs:
                vv = verdicts[r["id"]]
                print(f"replay kind={r['kind']} sig={json.dumps(_sig(r), sort_keys=True)} verdict={vv}")
                bad += vv not in ("ok", "ok-unspecified")
    finally:
        R.cleanup()
    if bad:
        print(f"VIOLATION property=X17 replay={path}")
        return 1
    return 0
