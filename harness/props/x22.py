"""X22 (growth) — `--lock-file` serialises concurrent gallia runs.

spec   : spec/LockFileContract.tla (clauses L1..L7 over the recorded interleaving), spec/LockFile.tla (design:
         N processes with pc in idle/waiting/pre/main/post/after/dead, the kernel's flock as a variable, environment
         actions Start/Go/Interrupt/Kill/Probe; six deviation constants as negative controls, Dev_ThreadWait = the
         tree as found)
MC     : MC_LockFile_{same2,bad2,three}.cfg (quick) + {files2,nolock2,probe2,same3}.cfg (thorough) exhaustive,
         MC_LockFile_dev_*.cfg negative controls, MC_LockFile_sim3*.cfg -simulate (3 processes)
binding: REAL processes (harness/x22_child.py = `sys.exit(asyncio.run(cmd.entry_point()))` of a small AsyncScript in a
         fresh interpreter each) on real lock files, driven through schedules by harness/x22_run.py (FIFO tokens at
         checkpoints inside pre-hook / setup / main / teardown / post-hook, real SIGINT / SIGKILL); every run and the
         driver append timestamped records to ONE O_APPEND event file.
         spec -> code: behaviours exported / simulated by TLC are replayed on the real processes (+ an enumerated family)
         code -> spec: every recorded interleaving is judged by TLC (Trace_LockFile); design prediction vs. real
         outcome = drift only.
"""

from __future__ import annotations

import concurrent.futures as cf
import json
import random
import time
from typing import Any

from harness import tlc, x22_cases, x22_run
from harness.common import Machinery, Report, quiet_gallia_logging

GROUPS = {"same2": [1, 1], "bad2": [1, -1], "files2": [1, 2], "nolock2": [1, 0], "sim3": [1, 1, 1], "sim3b": [1, 1, 2],
          "sim3c": [1, 1, -1]}
NEG = {"relpost": "Inv_L1", "afterpre": "Inv_L1", "nounlock": "Inv_L5", "threadwait": "Inv_L4", "silent": "Inv_L2",
       "lostwakeup": "Inv_L3"}
SOLO = {"id": "solo", "procs": [x22_cases.P(1)], "acts": [["start", 1]], "origin": "baseline"}
HARNESS_LABEL = "harness/run-made-no-progress-or-malformed-recording"


def mc(cfg: str, **kw: Any) -> Any:
    return tlc.run_tlc("MC_LockFile", f"MC_LockFile_{cfg}.cfg", workers=2, timeout=900, **kw)


def validate(traces: list[dict[str, Any]], baseline: list[int]) -> tuple[dict[str, str], Any]:
    res = tlc.validate_batch("Trace_LockFile", "Trace_LockFile.cfg", {"traces": traces, "baseline": baseline})
    v = {p[1]: p[2] for p in res.prints if isinstance(p, list) and len(p) == 3 and p[0] == "V"}
    if len(v) != len(traces):
        raise Machinery(f"Trace_LockFile: {len(v)} verdicts for {len(traces)} traces\n{res.out[-1500:]}")
    return v, res


def summary(r: dict[str, Any]) -> list[list[int]]:
    out = []
    for i in range(1, len(r["procs"]) + 1):
        ent = int(any(e["p"] == i and e["k"] in ("B", "E") for e in r["raw"]))
        ex = next((e["n"] for e in r["raw"] if e["p"] == i and e["k"] == "exit"), 999)
        out.append([ent, ex])
    return out


def cls(rc: int) -> str:
    return {0: "ok", -9: "killed", -2: "sigint", 999: "none"}.get(rc, "code")


def features(r: dict[str, Any]) -> dict[str, Any]:
    raw = r["raw"]
    return {"blocked": sorted({e["p"] for e in raw if e["k"] == "blocked"}),
            "int_waiting": any(e["k"] == "int" and e["ph"] == "waiting" for e in raw),
            "int_inside": any(e["k"] == "int" and e["ph"] != "waiting" for e in raw),
            "kill": sorted({e["ph"] for e in raw if e["k"] == "kill"}),
            "bad": sorted({p["bad"] for p in r["procs"] if p.get("bad")}),
            "skips": sum(e["k"] == "skip" for e in raw)}


def sig_of(label: str, r: dict[str, Any]) -> dict[str, Any]:
    f = features(r)
    s: dict[str, Any] = {"what": label.split("/", 1)[1] if "/" in label else label}
    if label.startswith("L4"):
        s["signal"] = "SIGINT"
        s["state"] = "waiting-for-the-lock"
    if label.startswith("L7"):
        s["bad"] = ",".join(f["bad"])
    return s


def run(tier: str, seed: int) -> Report:
    quiet_gallia_logging()
    rep = Report("X22", tier, seed)
    rng = random.Random(seed)
    quick = tier == "quick"
    rep.rule = ("executions = schedules of 1..3 REAL gallia processes (fresh interpreter each, real entry_point(), real "
                "flock, real SIGINT/SIGKILL) recorded through one O_APPEND event file; non-trivial = distinct (process "
                "flavours, actions) in which a run was blocked on the lock, interrupted, killed, or given an unusable "
                "lock file")
    rep.assumptions = [
        "growth item, not a listed property (growth/X22.json)",
        "Linux: flock(2) semantics, /proc/locks to see a queued flock request (fallbacks: a log record the run does not "
        "emit when the lock is free, then a real-time settle delay)",
        "real-time deadlines, scaled with the measured duration of an uncontended run: an interrupted waiter is gone "
        "within max(5 s, 4 x), a run that may move rests again within max(20 s, 10 x)",
        "Ctrl-C is delivered to the gallia process only (not to the process group), while it waits for the lock or rests "
        "inside setup/main/teardown; Ctrl-C inside hooks is not specified",
        "the order in which several waiters are admitted is the kernel's choice and is not judged",
    ]
    pool = cf.ThreadPoolExecutor(max_workers=10)
    # ---- 1. model checking (runs in the background while the real processes run)
    pos = ["same2", "bad2", "three"] + ([] if quick else ["files2", "nolock2", "probe2", "same3"])
    fut_pos = {c: pool.submit(mc, c, coverage=(c == "same2")) for c in pos}
    fut_neg = {d: pool.submit(mc, f"dev_{d}", parse_prints=False) for d in NEG}
    sims = {} if quick else {c: pool.submit(tlc.simulate_behaviours, "MC_LockFile", f"MC_LockFile_{c}.cfg",
                                            num=40, depth=40, seed=seed + 1) for c in ("sim3", "sim3b", "sim3c")}

    # ---- 2. baseline: an uncontended run (its log texts before the section; its duration scales the deadlines)
    tm = x22_run.Timing()
    t0 = time.monotonic()
    solo = x22_run.run_schedule(SOLO, None, tm)
    T0 = time.monotonic() - t0
    base_msgs = set(solo["pre_msgs"]["1"])
    tm = x22_run.Timing(spawn=max(60.0, 30 * T0), step=max(20.0, 10 * T0), intr=max(5.0, 4 * T0),
                        settle=max(1.5, 2 * T0))
    rep.extra["uncontended_run_s"] = round(T0, 2)
    par = 6 if quick else 8

    # ---- 3. real processes: enumerated family now, TLC's behaviours as soon as the model checker has them
    fam = x22_cases.family(tier)
    fut_fam = pool.submit(x22_run.run_all, fam, base_msgs, tm, par)
    scheds_tlc: list[dict[str, Any]] = []
    predicted: dict[str, list[list[int]]] = {}
    n_exported = {}
    for c in [c for c in pos if c in GROUPS]:
        res = fut_pos[c].result()
        ex = x22_cases.exported(res.prints)
        n_exported[c] = len(ex)
        if len(ex) < 20:
            raise Machinery(f"MC_LockFile_{c}: only {len(ex)} behaviours exported")
        ex.sort(key=lambda t: (-x22_cases.interesting(t[0]), json.dumps(t[0])))
        want = {"same2": 14, "bad2": 4}.get(c, 0) if quick else {"same2": 90, "bad2": 16, "files2": 20, "nolock2": 12}[c]
        head = ex[: max(1, len(ex) // 3)]
        pick = rng.sample(head, min(want * 2 // 3, len(head))) + rng.sample(ex, min(want - want * 2 // 3, len(ex)))
        for i, (acts, summ) in enumerate(pick):
            s = x22_cases.from_tlc(acts, GROUPS[c], f"T-{c}-{i:03d}", rng)
            scheds_tlc.append(s)
            predicted[s["id"]] = summ
    for c, f in sims.items():
        _res, behs = f.result()
        for i, b in enumerate(behs):
            acts = b[-1][1].get("acts") if b else None
            if isinstance(acts, list) and acts:
                scheds_tlc.append(x22_cases.from_tlc(acts, GROUPS[c], f"S-{c}-{i:03d}", rng))
    rep.extra["tlc_behaviours_exported"] = n_exported
    res_tlc = x22_run.run_all(scheds_tlc, base_msgs, tm, par)
    results = [solo] + fut_fam.result() + res_tlc
    scheds = {s["id"]: s for s in [SOLO] + fam + scheds_tlc}

    # ---- 4. TLC judges every recorded interleaving
    msg_ids = {m: i + 1 for i, m in enumerate(sorted(base_msgs))}
    baseline = sorted(msg_ids.values())
    traces = [x22_run.encode(r, msg_ids) for r in results]
    verd, vres = validate(traces, baseline)
    # a recording in which a run made no progress within the (generous) deadlines is repeated once
    again = [r["id"] for r in results if verd[r["id"]] == HARNESS_LABEL]
    if again:
        redo = x22_run.run_all([scheds[i] for i in again], base_msgs, tm, 2)
        rv, _ = validate([x22_run.encode(r, msg_ids) for r in redo], baseline)
        still = [i for i in again if rv[i] == HARNESS_LABEL]
        if still:
            raise Machinery(f"runs made no progress within the deadlines (twice): {still[:5]}")
        byid = {r["id"]: r for r in redo}
        results = [byid.get(r["id"], r) for r in results]
        verd.update(rv)
        rep.extra["repeated_after_no_progress"] = again
    rep.add_tlc(vres, "Trace_LockFile batch")
    rep.traces = rep.evaluations = len(results)
    n_proc = 0
    for r in results:
        f = features(r)
        n_proc += len(r["procs"])
        if f["blocked"] or f["int_waiting"] or f["kill"] or f["bad"]:
            rep.nontrivial.add(json.dumps([r["procs"], r["acts"]], sort_keys=True))
        v = verd[r["id"]]
        if v != "ok":
            rep.violate(v, sig_of(v, r), {"schedule": scheds[r["id"]], "events": r["raw"][:400]})
        elif r["id"] in predicted and f["skips"] == 0 and len(r["procs"]) <= 2:
            real = [[e, cls(x)] for e, x in summary(r)]
            pred = [[e, cls(x)] for e, x in predicted[r["id"]]]
            how = [p["how"] for p in r["procs"]]
            if real != pred and "setup-exc" not in how:
                rep.drift.append({"schedule": r["id"], "acts": r["acts"], "design": pred, "real": real, "how": how})
    rep.extra["real_processes_run"] = n_proc
    rep.extra["schedules"] = {"family": len(fam), "from_tlc": len(scheds_tlc)}
    rep.extra["verdicts"] = {v: sum(1 for x in verd.values() if x == v) for v in sorted(set(verd.values()))}
    rep.extra["skipped_actions"] = sum(features(r)["skips"] for r in results)
    rep.extra["unspecified"] = {"order_of_admission_with_two_waiters": sum(len(features(r)["blocked"]) >= 2 for r in results),
                                "exit_code_of_unusable_lock_file": sorted({e["n"] for r in results for e in r["raw"]
                                                                           if e["k"] == "exit" and r["procs"][e["p"] - 1].get("bad")})}
    for r in results[1:3] + results[-2:]:
        rep.sample({"id": r["id"], "acts": r["acts"], "verdict": verd[r["id"]],
                    "events": [[e["p"], e["k"], e["ph"], e["n"]] for e in r["raw"] if e["k"] != "log"][:60]})
    rep.exhaustive = False

    # ---- 5. model checking results
    for c in pos:
        res = fut_pos[c].result()
        rep.add_tlc(res, f"MC_LockFile_{c}")
        if not res.ok:
            rep.violate(f"design/{res.violated}", {"cfg": c}, {"cex": res.cex[-6:]})
        if c == "same2":
            need = {"Start", "Grant", "Go", "Interrupt", "Kill"}
            taken = {a for a, (n, _d) in res.coverage.items() if n > 0}
            if res.coverage and not need <= taken:
                raise Machinery(f"design actions never taken: {sorted(need - taken)}")
            rep.extra["design_actions_taken"] = sorted(taken & (need | {"Probe", "ObserveStuck"}))
    for d, want in NEG.items():
        res = fut_neg[d].result()
        rep.add_tlc(res, f"MC_LockFile_dev_{d} (negative control)")
        if res.violated != want:
            raise Machinery(f"negative control dev_{d}: expected {want}, TLC says {res.violated}")
    rep.extra["negative_controls"] = {d: w for d, w in NEG.items()}
    pool.shutdown()

    # ---- 6. binding self-test: corrupted recordings must be rejected, a harness that hands two runs of one lock
    #         group DIFFERENT files must be caught with a real overlap
    selftest(rep, results, verd, msg_ids, baseline, base_msgs, tm)
    return rep


def selftest(rep: Report, results: list[dict[str, Any]], verd: dict[str, str], msg_ids: dict[str, int],
             baseline: list[int], base_msgs: set[str], tm: Any) -> None:
    muts: list[dict[str, Any]] = []
    want: dict[str, str] = {}

    def ok_with(pred: Any) -> dict[str, Any] | None:
        for r in results:
            if verd[r["id"]] == "ok" and pred(r):
                return x22_run.encode(r, dict(msg_ids))
        return None

    t = ok_with(lambda r: len(features(r)["blocked"]) == 1 and len(r["procs"]) == 2 and not features(r)["kill"]
                and not features(r)["int_waiting"] and summary(r)[0][0] and summary(r)[1][0])
    if t is not None:
        # (a) the waiter's first section record moved in front of the holder's last one
        m = json.loads(json.dumps(t))
        w = next(e["p"] for e in m["ev"] if e["k"] == "blocked")
        i = next(i for i, e in enumerate(m["ev"]) if e["p"] == w and e["k"] == "B")
        j = next(i for i, e in enumerate(m["ev"]) if e["k"] == "blocked")
        rec = m["ev"].pop(i)
        rec["t"] = m["ev"][j]["t"]
        m["ev"].insert(j + 1, rec)
        m["id"] = "mut-overlap"
        muts.append(m)
        want["mut-overlap"] = "L1/guarded-sections-overlap"
        # (b) a probe inside the holder's section that found the lock free
        m = json.loads(json.dumps(t))
        for e in m["ev"]:
            if e["k"] == "probe":
                e["n"] = 1
                break
        m["id"] = "mut-probe"
        muts.append(m)
        want["mut-probe"] = "L1/lock-free-inside-a-guarded-section"
        # (c) the waiter's announcement removed
        m = json.loads(json.dumps(t))
        m["ev"] = [e for e in m["ev"] if not (e["k"] == "log" and e["p"] == w and e["m"] not in baseline)]
        m["id"] = "mut-silent"
        muts.append(m)
        want["mut-silent"] = "L2/waiting-not-announced"
        # (d) the waiter never gets in
        m = json.loads(json.dumps(t))
        m["ev"] = [e for e in m["ev"] if not (e["p"] == w and e["k"] in ("B", "E", "at", "go", "ret"))]
        m["id"] = "mut-starved"
        muts.append(m)
        want["mut-starved"] = "L3/waiter-never-admitted"
    t = ok_with(lambda r: bool(features(r)["bad"]))
    if t is not None:
        m = json.loads(json.dumps(t))
        for e in m["ev"]:
            if e["k"] in ("ret", "exit") and m["procs"][e["p"] - 1]["g"] == -1:
                e["n"] = 0
        m["id"] = "mut-bad-exit0"
        muts.append(m)
        want["mut-bad-exit0"] = "L7/unusable-lock-file-not-answered-with-an-error-exit-code"
    got: dict[str, str] = {}
    if muts:
        got, _ = validate(muts, baseline)
        wrong = {k: (got[k], w) for k, w in want.items() if got[k] != w}
        if wrong:
            raise Machinery(f"binding self-test: corrupted recordings not rejected as expected: {wrong}")
    elif not rep.violations:
        raise Machinery("no accepted recording with a waiter for the binding self-test")
    # the harness' own mutant: one lock group, two different files -> a REAL overlap must be recorded and rejected
    mut = {"id": "mut-split-lock", "procs": [x22_cases.P(1), x22_cases.P(1, split=True)],
           "acts": [["start", 1], ["go", 1], ["start", 2], ["go", 2], ["go", 1]], "origin": "selftest"}
    r = x22_run.run_schedule(mut, base_msgs, tm)
    v, _ = validate([x22_run.encode(r, dict(msg_ids))], baseline)
    if not v["mut-split-lock"].startswith("L1/"):
        raise Machinery(f"binding self-test: two runs on different files declared as one lock group were accepted "
                        f"({v['mut-split-lock']})")
    rep.extra["binding_selftest"] = {"corrupted_rejected": got, "split_lock_mutant": v["mut-split-lock"]}


def replay(path: str) -> int:
    quiet_gallia_logging()
    data = json.loads(open(path).read())
    scheds = [v["detail"]["schedule"] for v in data["violations"] if "schedule" in v["detail"]][:12]
    tm = x22_run.Timing()
    solo = x22_run.run_schedule(SOLO, None, tm)
    base_msgs = set(solo["pre_msgs"]["1"])
    msg_ids = {m: i + 1 for i, m in enumerate(sorted(base_msgs))}
    results = x22_run.run_all(scheds, base_msgs, tm, 4)
    verd, _ = validate([x22_run.encode(r, msg_ids) for r in results], sorted(msg_ids.values()))
    bad = 0
    for r in results:
        print(f"replay {r['id']} acts={r['acts']} verdict={verd[r['id']]}")
        bad += verd[r["id"]] != "ok"
    if bad:
        print(f"VIOLATION property=X22 replay={path}")
        return 1
    return 0
