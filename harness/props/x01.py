"""X01 (growth, not a listed property) — ECU.check_and_set_session follows its documented behaviour.

spec   : spec/EcuSessionContract.tla (S1..S5), spec/EcuSession.tla (design, ECU with spontaneous fallback)
binding: real gallia ECU.check_and_set_session on a scripted transport; all ECU behaviours enumerated.
"""

from __future__ import annotations

import json
from typing import Any

from gallia.services.uds.ecu import ECU

from harness import tlc, vloop
from harness.common import Machinery, Report, quiet_gallia_logging
from harness.enum import explore
from harness.fakes import ScriptedTransport, ScriptEnv


class SessionEnv(ScriptEnv):
    def __init__(self, ch: Any, init: int, accepts: set[int], read_mode: str) -> None:
        super().__init__()
        self.ch, self.ecu, self.accepts, self.read_mode = ch, init, accepts, read_mode
        self.pending: bytes = b""
        self.ev: list[dict[str, Any]] = []

    def on_write(self, data: bytes) -> str | None:
        if self.ecu != 1 and self.ch.choose(2) == 1:
            self.ecu = 1  # S3 timeout: the ECU fell back to the default session on its own
        self.pending = bytes(data)
        return None

    def on_read(self, timeout: float | None) -> tuple[str, bytes | None]:
        d = self.pending
        if d[:3] == b"\x22\xf1\x86":
            if self.read_mode == "ok":
                self.ev.append({"e": "Read", "kind": "session", "s": self.ecu})
                return "Final", bytes([0x62, 0xF1, 0x86, self.ecu])
            self.ev.append({"e": "Read", "kind": self.read_mode, "s": 0})
            if self.read_mode == "timeout":
                return "Timeout", None
            return "Final", bytes([0x7F, 0x22, 0x31 if self.read_mode == "unsupported" else 0x33])
        if d[0] == 0x10:
            s = d[1] & 0x7F
            ok = s in self.accepts
            self.ev.append({"e": "Dsc", "s": s, "ok": ok})
            if ok:
                self.ecu = s
                return "Final", bytes([0x50, s, 0x00, 0x19, 0x01, 0xF4])
            return "Final", bytes([0x7F, 0x10, 0x22])
        return "Final", bytes([0x7F, d[0], 0x11])


def one(ch: Any, init: int, accepts: set[int], read_mode: str, expected: int, retries: int) -> dict[str, Any]:
    env = SessionEnv(ch, init, accepts, read_mode)
    out: dict[str, Any] = {}

    async def main() -> None:
        ecu = ECU(ScriptedTransport(env), timeout=0.5, max_retry=0)
        try:
            out["val"] = "True" if await ecu.check_and_set_session(expected, retries) else "False"
        except Exception as e:  # noqa: BLE001
            out["val"] = "Raise"
            out["exc"] = type(e).__name__

    try:
        vloop.run(main(), horizon=600)
    except (TimeoutError, vloop.BlockedForever):
        out["val"] = "Hang"
    env.dispose()
    return {"cfg": {"expected": expected, "retries": retries}, "ev": env.ev + [{"e": "Ret", "val": out["val"]}],
            "init": init, "accepts": sorted(accepts), "read_mode": read_mode, "exc": out.get("exc")}


def run(tier: str, seed: int) -> Report:
    quiet_gallia_logging()
    rep = Report("X01", tier, seed)
    rep.rule = ("executions = real ECU.check_and_set_session(expected, retries) against a scripted ECU: read mode {ok, "
                "unsupported, timeout, other NRC} x accepted sessions x initial session x expected x retries 0..3 x every "
                "pattern of spontaneous fall-backs to the default session between requests; non-trivial = at least one "
                "session change attempted")
    rep.assumptions = ["growth item (DESIGN section 5.1), not one of the listed properties; contract = the method's docstring"]
    for i in range(1, 9):
        res = tlc.run_tlc("MC_EcuSession", f"MC_EcuSession_{i}.cfg", workers=2, timeout=300)
        rep.add_tlc(res, f"MC_EcuSession_{i}")
        if not res.ok:
            rep.violate(f"design/{res.violated}", {"cfg": i}, {"cex": res.cex[-6:]})
    traces: list[dict[str, Any]] = []
    seen = set()
    for read_mode in ("ok", "unsupported", "timeout", "othernr"):
        for accepts in ({1, 2, 3}, {1, 2}, {1}):
            for init in (1, 2, 3):
                for expected in (1, 2, 3):
                    for retries in ((0, 1, 2, 3) if tier == "thorough" else (0, 2)):
                        def runit(ch: Any, a: Any = (init, accepts, read_mode, expected, retries)) -> dict[str, Any]:
                            return one(ch, *a)

                        for _v, t in explore(runit, 8 if tier == "thorough" else 5):
                            k = json.dumps([t["cfg"], t["ev"], t["init"], t["accepts"]])
                            if k not in seen:
                                seen.add(k)
                                traces.append(t)
    sub = {"traces": [{"id": i, "cfg": t["cfg"], "ev": t["ev"]} for i, t in enumerate(traces)]}
    res = tlc.validate_batch("Trace_EcuSession", "Trace_EcuSession.cfg", sub, timeout=900)
    rep.add_tlc(res, "Trace_EcuSession batch")
    verdicts = {p[1]: p[2] for p in res.prints if isinstance(p, list) and len(p) == 3 and p[0] == "V"}
    if len(verdicts) != len(traces):
        raise Machinery(f"Trace_EcuSession: {len(verdicts)} verdicts for {len(traces)} traces\n{res.out[-2000:]}")
    rep.traces = rep.evaluations = len(traces)
    for i, t in enumerate(traces):
        if any(e["e"] == "Dsc" for e in t["ev"]):
            rep.nontrivial.add(i)
        if verdicts[i] != "ok":
            rep.violate(verdicts[i], {"read_mode": t["read_mode"], "ret": t["ev"][-1]["val"]},
                        {k: t[k] for k in ("cfg", "ev", "init", "accepts", "read_mode", "exc")})
    for t in traces[10:12] + traces[-2:]:
        rep.sample({k: t[k] for k in ("cfg", "init", "accepts", "read_mode", "ev")})
    rep.exhaustive = True
    bad = json.loads(json.dumps(next(t for i, t in enumerate(traces) if verdicts[i] == "ok" and t["ev"][-1]["val"] == "False")))
    bad["ev"][-1]["val"] = "True"
    r2 = tlc.validate_batch("Trace_EcuSession", "Trace_EcuSession.cfg", {"traces": [{"id": 0, "cfg": bad["cfg"], "ev": bad["ev"]}]})
    if r2.prints[0][2] == "ok":
        raise Machinery("binding self-test: corrupted return value accepted")
    return rep


def replay(path: str) -> int:
    return 0
