"""C20 — target URIs and range expressions denote exactly what the user wrote.

spec    : spec/RangeExprContract.tla (denotation of the AST, integer literals) and
          spec/TargetUriContract.tla (round trip, transport acceptance, split/join);
          design layers spec/RangeExpr.tla, spec/TargetUri.tla (shaped like
          unravel / unravel_2d and from_parts / urlparse / split_host_port).
MC      : MC_RangeExpr_{small,quick,thorough}.cfg, MC_TargetUri_{small,quick,thorough}.cfg
          exhaustive; mutHalfOpen / mutKeyedOverridesAll / devS27 / devS28 / devN1 are
          negative controls.
binding : spec -> code: every AST / abstract URI case TLC enumerates is printed in several
          spellings / concretised and run through the REAL parsers;
          code -> spec: every recorded outcome is judged by TLC (Trace_RangeExpr,
          Trace_TargetUri) in batches.  Python only drives, records and counts.
"""

from __future__ import annotations

import json
import multiprocessing
import random
import re
from concurrent.futures import ThreadPoolExecutor
from typing import Any

from harness import c20_ranges as R
from harness import c20_uri as U
from harness import tlc
from harness.common import Machinery, Report, quiet_gallia_logging

CAP_PER_SIG = 12
# small JVMs: the machine is shared, start-up and GC threads dominate short runs
JOPT = "-XX:ParallelGCThreads=2 -XX:CICompilerCount=2 -XX:TieredStopAtLevel=1"
JENV = {"JAVA_TOOL_OPTIONS": JOPT + " -Xss256m"}


# ----------------------------------------------------------------------------
# TLC plumbing


def parse_exports(out: str) -> list[list[Any]]:
    vals = []
    for ch in tlc._balanced_chunks(out):  # noqa: SLF001
        s = ch.replace("<<", "[").replace(">>", "]").replace("TRUE", "true").replace("FALSE", "false")
        try:
            vals.append(json.loads(s))
        except ValueError as e:
            raise Machinery(f"cannot parse a value exported by TLC: {ch[:200]!r}") from e
    return vals


_RE_INIT = re.compile(r"Finished computing initial states: (\d+) (?:distinct states generated|states generated, with (\d+) of them distinct)")


def initial_states(out: str) -> int:
    m = _RE_INIT.search(out)
    if not m:
        raise Machinery("TLC did not report its initial states")
    return int(m.group(2) or m.group(1))


def mc(module: str, cfg: str, **kw: Any) -> tlc.TlcResult:
    return tlc.run_tlc(module, f"{module}_{cfg}.cfg", parse_prints=False, env={"JAVA_TOOL_OPTIONS": JOPT}, **kw)


STRIP = ("wit", "text", "calls", "base", "origin", "hc", "tr", "design")


def validate(module: str, cases: list[dict[str, Any]], chunk: int, par: int = 5) -> tuple[dict[int, tuple[str, int]], list[tlc.TlcResult]]:
    """TLC batch validation of cases[i] (id = i); returns id -> (label, k)."""
    chunks = []
    for off in range(0, len(cases), chunk):
        chunks.append({"cases": [dict({k: v for k, v in c.items() if k not in STRIP}, id=off + j)
                                 for j, c in enumerate(cases[off:off + chunk])]})

    def one(b: dict[str, Any]) -> tlc.TlcResult:
        return tlc.validate_batch(module, f"{module}.cfg", b, timeout=3000, env=JENV, workers=2, heap="3g")

    with ThreadPoolExecutor(max_workers=par) as ex:
        results = list(ex.map(one, chunks))
    verdicts: dict[int, tuple[str, int]] = {}
    for res in results:
        for p in res.prints:
            if isinstance(p, list) and len(p) == 4 and p[0] == "V":
                verdicts[p[1]] = (p[2], p[3])
    missing = [i for i in range(len(cases)) if i not in verdicts]
    if missing:
        raise Machinery(f"{module}: no verdict for {len(missing)} cases (first id {missing[0]}):\n" + results[-1].out[-1500:])
    return verdicts, results


# ----------------------------------------------------------------------------
# signatures of violations (small, stable)


def ast_shape(c: dict[str, Any]) -> str:
    def sh(e: list[list[int]]) -> set[str]:
        s = set()
        for it in e:
            s.add("single" if len(it) == 1 else "reversed" if it[0] > it[1] else "one-element-range" if it[0] == it[1] else "range")
        return s
    if c["kind"] == "r1":
        return "+".join(sorted(sh(c["ast"]))) or "empty"
    s: set[str] = set()
    for en in c["ast"]:
        s.add("bare" if len(en) == 1 else "keyed")
    return "+".join(sorted(s)) or "empty"


def sig_of(c: dict[str, Any], label: str, k: int) -> tuple[dict[str, Any], dict[str, Any]]:
    kind = c["kind"]
    if kind in ("r1", "r2", "int"):
        w = c["wit"][k - 1] if 0 < k <= len(c["wit"]) else {}
        sig = {"api": w.get("api"), "notation": w.get("nota"), "spelling": w.get("ws")}
        det: dict[str, Any] = {"replay": {"kind": kind, "ast": c.get("ast"), "base": c.get("base"), "r": c.get("r"), "ds": c.get("ds")},
                               "input": w.get("text"), "got": c["outs"][k - 1]["res"] if 0 < k <= len(c["outs"]) else None,
                               "origin": c.get("origin")}
        if kind != "int":
            det["shape"] = ast_shape(c)
        return sig, det
    if kind == "uri":
        host = c["text"]["host"]
        if label.startswith("T"):
            sig = {"api": f"{c['scheme']} Config", "notations": sorted({s["r"] for s in c["settings"] if s["kind"] == "int"})}
        else:
            sig = {"api": "TargetURI.from_parts/parse", "host_class": U.host_class(host), "port": U.port_class(c["port"])}
        det = {"replay": {"kind": "uri", "tr": c["scheme"], "host": host, "port": c["port"], "settings": c["settings"],
                          "args": c["text"]["args"]}, "text": c["text"], "got": c.get("got"), "cfg": c.get("cfg"),
               "origin": c.get("origin")}
        return sig, det
    host = c["text"]["host"]
    if kind == "hpx":
        port = c["ports"][k - 1]
        got = None if c["ge"][k - 1] else {"host": "".join(map(chr, c["hosts"][c["hi"][k - 1] - 1])), "port": c["gp"][k - 1]}
        mode = c["mode"]
    else:
        port, mode = c["port"], kind
        got = c["got"]
    api = "split_host_port(join_host_port(h,p))" if mode == "hp" else "split_host_port(text)"
    sig = {"api": api, "host_class": U.host_class(host), "port": U.port_class(port), "default_given": c["dflt"] != U.NOPORT}
    det = {"replay": {"kind": mode, "host": host, "port": port, "dflt": c["dflt"]}, "got": got}
    return sig, det


# ----------------------------------------------------------------------------


def run(tier: str, seed: int) -> Report:  # noqa: PLR0912, PLR0915
    quiet_gallia_logging()
    U.check_field_tables()
    rep = Report("C20", tier, seed)
    thorough = tier == "thorough"
    rnd = random.Random(seed)
    rep.rule = (
        "a case = one AST / integer literal / URI (transport, host, port, parameter map, notation) / host:port pair "
        "run through the real parsers in all its spellings; cases are distinct by construction (TLC enumerates each AST "
        "and abstract URI case once, seeded cases are de-duplicated by their inputs); non-trivial = range case with a "
        "range item or >= 2 items (2-D: >= 1 entry), integer literal with >= 2 digits, URI case with >= 1 parameter or "
        "an IPv6 host, host:port case with an IPv6 host or a boundary port (0, 65535); evaluations = calls of the real "
        "parsers / constructors")
    rep.assumptions = [
        "spellings are produced by the harness printer (harness/c20_ranges.py, c20_uri.py); the spec fixes only the denotation",
        "numbers >= 2^31 travel to TLC as offsets from a per-case base (range cases) or as digit sequences (integer "
        "literals, compared bit by bit / digit by digit)",
        "hosts are compared by denotation (case-insensitive names; IPv6 by its eight groups) so that a normalising "
        "implementation is not flagged",
        "left open by the statement and accepted either way (counted in coverage.unspecified): rejecting expressions "
        "with reversed/empty parts, whitespace inside expressions, upper-case prefixes / underscores / sign in "
        "literals, non-decimal notation for settings the scanners write in decimal, "
        "parameter maps lacking a mandatory setting",
        "IPv6 zone identifiers (fe80::1%eth0) are part of the host: the DoIP discovery emits such URIs",
        "urllib / ipaddress of CPython 3.12 and pydantic as installed in /venv are part of the system under test",
    ]
    unspecified: dict[str, int] = {}

    # ---- 1. model checking: design vs contract, negative controls, exports (run concurrently)
    ex_cfg = "thorough" if thorough else "quick"
    jobs = {
        "RangeExpr mutHalfOpen (negative control)": ("MC_RangeExpr", "mutHalfOpen", dict(workers=2)),
        "RangeExpr mutKeyedOverridesAll (negative control)": ("MC_RangeExpr", "mutKeyedOverridesAll", dict(workers=2)),
        "RangeExpr export": ("MC_RangeExpr", ex_cfg, dict(workers=6 if thorough else 2, heap="8g" if thorough else "4g",
                                                          coverage=not thorough)),
        "TargetUri devS27 (negative control)": ("MC_TargetUri", "devS27", dict(workers=2)),
        "TargetUri devS28 (negative control)": ("MC_TargetUri", "devS28", dict(workers=2)),
        "TargetUri devN1 (negative control)": ("MC_TargetUri", "devN1", dict(workers=2)),
        "TargetUri export": ("MC_TargetUri", ex_cfg, dict(workers=8 if thorough else 4, heap="8g" if thorough else "4g",
                                                          coverage=not thorough)),
    }
    if thorough:  # small families: per-action coverage and termination (liveness)
        jobs["RangeExpr small"] = ("MC_RangeExpr", "small", dict(workers=2, coverage=True))
        jobs["TargetUri small"] = ("MC_TargetUri", "small", dict(workers=2, coverage=True))
    cov_runs = ("RangeExpr small", "TargetUri small") if thorough else ("RangeExpr export", "TargetUri export")
    with ThreadPoolExecutor(max_workers=len(jobs)) as ex:
        futs = {k: ex.submit(mc, m, c, timeout=3000, **kw) for k, (m, c, kw) in jobs.items()}
        mcres = {k: f.result() for k, f in futs.items()}
    expect_neg = {
        "RangeExpr mutHalfOpen (negative control)": ("D2_NothingLost", "VerdictOk", "D2_Partial"),
        "RangeExpr mutKeyedOverridesAll (negative control)": ("E2_BareMeansAll", "VerdictOk"),
        "TargetUri devS27 (negative control)": ("H1_JoinSplit", "U0_RoundTripTotal"),
        "TargetUri devS28 (negative control)": ("H1_JoinSplit", "H2_Split"),
        "TargetUri devN1 (negative control)": ("U0_RoundTripTotal", "U2_Host"),
    }
    for k, res in mcres.items():
        rep.add_tlc(res, k)
        if k in expect_neg:
            if res.violated not in expect_neg[k]:
                raise Machinery(f"negative control '{k}' did not violate its clause (got {res.violated}): contract is vacuous")
        elif not res.ok:
            rep.violate(f"design/{res.violated}", {"where": k}, {"cex": res.cex[-6:], "out": res.out[-1200:]})
    cov = {}
    for k in cov_runs:
        never = [a for a, (n, _d) in mcres[k].coverage.items() if n == 0]
        if never or not mcres[k].coverage:
            raise Machinery(f"{k}: actions never taken {never} (vacuous model)")
        cov[k] = {a: n for a, (n, _d) in mcres[k].coverage.items()}
    rep.extra["action_coverage"] = cov
    rep.extra["every_design_action_taken"] = True

    rexp = parse_exports(mcres["RangeExpr export"].out)
    uexp = parse_exports(mcres["TargetUri export"].out)
    for name, vals in (("RangeExpr export", rexp), ("TargetUri export", uexp)):
        n0 = initial_states(mcres[name].out)
        if len(vals) != n0:
            raise Machinery(f"{name}: {len(vals)} exported cases but {n0} initial states")

    # ---- 2. spec -> code, ranges: every exported AST through the real parsers
    asts1 = [v[2] for v in rexp if v[0] == "A" and v[1] == 1]
    asts2 = [v[2] for v in rexp if v[0] == "A" and v[1] == 2]
    design1 = [v[3] for v in rexp if v[0] == "A" and v[1] == 1]
    design2 = [v[3] for v in rexp if v[0] == "A" and v[1] == 2]
    # always in worker processes with a memory limit (see R.limit_worker_memory)
    CH = 4000 if thorough else 1500
    work = [(1, asts1[i:i + CH]) for i in range(0, len(asts1), CH)] + [(2, asts2[i:i + CH]) for i in range(0, len(asts2), CH)]
    with multiprocessing.get_context("fork").Pool(10 if thorough else 6, initializer=R.limit_worker_memory) as pool:
        parts = pool.map(R.run_chunk, work, chunksize=1)
    rcases = [c for p in parts for c in p]
    for c in rcases:
        c["origin"] = "tlc-enumerated"
    # drift: design result vs the code on the plain decimal spelling (first witness)
    ndrift = 0
    for c, d in zip(rcases, design1 + design2):
        if c["kind"] == "r2":
            d = [{"k": x[0], "all": x[1], "v": x[2]} for x in d]
        if c["outs"][0]["res"] != {"t": "ok", "v": d}:
            ndrift += 1
            if len(rep.drift) < 10:
                rep.drift.append({"ast": c["ast"], "design": d, "code": c["outs"][0]["res"], "input": c["wit"][0]["text"]})
    rep.extra["range_asts_enumerated_by_tlc"] = {"one_dimensional": len(asts1), "two_dimensional": len(asts2)}
    rep.extra["range_spec_to_code_drift"] = ndrift
    rep.extra["range_calls_skipped_over_misread_literals"] = "counted per worker; 0 on a conforming tree (see R.SKIPPED_MISREAD)"

    # seeded: more items, large values (offsets from big bases), integer literals
    seen: set[str] = set()
    nrand = 6000 if thorough else 500
    rjobs: list[tuple[int, Any, int]] = []
    for i in range(nrand):
        base = R.BASES[i % len(R.BASES)]
        if i % 3:
            e = R.rand_expr(rnd, 8, 300)
            key = f"1|{base}|{e}"
            if key in seen:
                continue
            seen.add(key)
            rjobs.append((1, e, base))
        else:
            e2 = R.rand_expr2(rnd)
            key = f"2|{base}|{e2}"
            if key in seen:
                continue
            seen.add(key)
            rjobs.append((2, e2, base))
    with multiprocessing.get_context("fork").Pool(8, initializer=R.limit_worker_memory) as pool:
        for part in pool.map(R.run_based_chunk, [rjobs[i:i + 100] for i in range(0, len(rjobs), 100)], chunksize=1):
            for c in part:
                c["origin"] = "seeded-random"
                rcases.append(c)
    lits: list[tuple[int, list[int]]] = []
    for r in (10, 16, 8, 2):
        for n in list(range(0, 300 if thorough else 40)) + [255, 256, 65535, 65536, (1 << 31) - 1, 1 << 31, (1 << 32) - 1,
                                                              1 << 32, (1 << 64) - 1, 1 << 64, 10**30]:
            lits.append((r, R.digits_of(n, r)))
        for _ in range(1500 if thorough else 120):
            ln = rnd.randint(1, 40)
            ds = [rnd.randrange(r) for _ in range(ln)]
            if r == 10 and ln > 1 and ds[0] == 0:
                ds[0] = rnd.randint(1, 9)  # a decimal literal with leading zeros is not in the statement
            lits.append((r, ds))
    for r, ds in lits:
        key = f"i|{r}|{ds}"
        if key in seen:
            continue
        seen.add(key)
        c = R.case_int(r, ds)
        c["origin"] = "literal"
        rcases.append(c)

    # ---- 3. spec -> code, URIs: concretise every abstract case
    ucases: list[dict[str, Any]] = []
    udrift = 0
    nabs = 0
    for v in uexp:
        if v[0] != "C":
            continue
        if v[1] == "uri":
            _c, _m, tr, hc, port, idx, nota, dparse, dcfg = v
            nabs += 1
            hosts = U.HOSTS[hc]
            pick = [hosts[nabs % len(hosts)], hosts[(nabs // len(hosts) + 1) % len(hosts)]] if len(hosts) > 1 else hosts
            for host in dict.fromkeys(pick):
                st, args = U.make_settings(tr, idx, nota, rnd)
                c = U.run_uri(tr, host, port, st, args)
                c.update(origin="tlc-enumerated", hc=hc, tr=tr)
                code_parse = c["got"]["t"]
                code_cfg = c["cfg"]["t"] if code_parse == "ok" else None
                if code_parse != dparse or (code_cfg is not None and code_cfg != dcfg):
                    udrift += 1
                    if len(rep.drift) < 20:
                        rep.drift.append({"uri_case": [tr, host, port, idx, nota], "design": [dparse, dcfg],
                                          "code": [code_parse, code_cfg], "uri": c["text"].get("uri")})
                ucases.append(c)
        else:
            _c, mode, hc, port, dflt, dres = v
            for host in U.HOSTS[hc]:
                c = U.run_hp(mode, host, port, dflt)
                c.update(origin="tlc-enumerated", hc=hc)
                if c["got"]["t"] != dres:
                    udrift += 1
                    if len(rep.drift) < 20:
                        rep.drift.append({"hp_case": [mode, host, port, dflt], "design": dres, "code": c["got"]["t"]})
                ucases.append(c)
    rep.extra["uri_abstract_cases_enumerated_by_tlc"] = nabs
    rep.extra["uri_spec_to_code_drift"] = udrift
    # the scanners' own argument shapes, other ports
    for tr, host, port, st, args in U.scanner_shapes(rnd, 400 if thorough else 60):
        c = U.run_uri(tr, host, port, st, args)
        c.update(origin="scanner-shape", tr=tr)
        ucases.append(c)
    for _ in range(3000 if thorough else 150):
        tr = rnd.choice(list(U.FIELDS))
        hc = rnd.choice(list(U.HOSTS))
        n = len(U.FIELDS[tr])
        idx = sorted(set(rnd.sample(range(1, n + 1), rnd.randint(0, n))) | ({1, 2} if rnd.random() < 0.8 else set()))
        st, args = U.make_settings(tr, idx, rnd.choice(["scanner", "dec", "hex", "oct", "bin", "mixed"]), rnd)
        port = rnd.choice([U.NOPORT, rnd.randint(0, 65535)])
        c = U.run_uri(tr, rnd.choice(U.HOSTS[hc]), port, st, args)
        c.update(origin="seeded-random", tr=tr)
        ucases.append(c)
    # split/join over the port range: exhaustive 0..65535 in the thorough tier
    if thorough:
        ports = list(range(0, 65536))
    else:
        ports = sorted({0, 1, 2, 9, 10, 79, 80, 99, 100, 443, 999, 1000, 1023, 1024, 6801, 9999, 10000, 13400, 32767,
                        32768, 65534, 65535} | {rnd.randint(0, 65535) for _ in range(40)})
    sweep_hosts = [hs[0] for hs in U.HOSTS.values()] + ["::1"]
    for host in sweep_hosts:
        for mode in ("hp", "split"):
            for dflt in (U.NOPORT, 7):
                pl = ports if dflt == U.NOPORT or not thorough else [0, 1, 7, 8, 65535]
                for off in range(0, len(pl), 8192):
                    c = U.run_hpx(mode, host, pl[off:off + 8192], dflt)
                    c["origin"] = "port-sweep"
                    ucases.append(c)
    # other spellings of the same written text: IPv6 in brackets without a port ("[::1]"), and the netloc of a target
    # URI built from the parts (TargetURI.from_parts(...).netloc is what the capture filter code splits)
    for host in [h for hs in U.HOSTS.values() for h in hs] + ["::1"]:
        for mode in ("splitb", "netloc"):
            for dflt in (U.NOPORT, 7, 13400):
                for port in (U.NOPORT, 0, 1, 6801, 65535):
                    try:
                        c = U.run_hp(mode, host, port, dflt)
                    except Exception:  # noqa: BLE001  (from_parts itself refusing the host is U0's subject)
                        continue
                    c["origin"] = "written-spellings"
                    ucases.append(c)
    if thorough:  # every other listed host: boundary ports
        for host in [h for hs in U.HOSTS.values() for h in hs if h not in sweep_hosts]:
            for mode in ("hp", "split"):
                for dflt in (U.NOPORT, 7):
                    c = U.run_hpx(mode, host, [0, 1, 9, 10, 6801, 13400, 65534, 65535], dflt)
                    c["origin"] = "port-sweep"
                    ucases.append(c)
    rep.extra["port_sweep"] = {"ports": len(ports), "hosts": len(sweep_hosts), "exhaustive_0_65535": thorough}

    # ---- 4. code -> spec: TLC judges every recorded case
    rv, rres = validate("Trace_RangeExpr", rcases, 25000 if thorough else 6000)
    uv, ures = validate("Trace_TargetUri", ucases, 12000 if thorough else 3000)
    for res in rres:
        rep.add_tlc(res, "Trace_RangeExpr batch")
    for res in ures:
        rep.add_tlc(res, "Trace_TargetUri batch")
    rep.traces = len(rcases) + len(ucases)
    evals = sum(c.get("calls", 0) for c in rcases)
    for c in ucases:
        evals += 2 * len(c["ports"]) if c["kind"] == "hpx" else 3 if c["kind"] == "uri" else 2
    rep.evaluations = evals

    per_sig: dict[str, int] = {}
    totals: dict[str, int] = {}

    def report(c: dict[str, Any], label: str, k: int) -> None:
        if label.startswith("unspecified"):
            unspecified[label] = unspecified.get(label, 0) + 1
            return
        if label.startswith("machinery"):
            raise Machinery(f"trace spec could not read a case: {label} {json.dumps(c)[:400]}")
        sig, det = sig_of(c, label, k)
        key = label + json.dumps(sig, sort_keys=True)
        totals[label] = totals.get(label, 0) + 1
        per_sig[key] = per_sig.get(key, 0) + 1
        if per_sig[key] <= CAP_PER_SIG:
            rep.violate(label, sig, det)

    for i, c in enumerate(rcases):
        if rv[i][0] != "ok":
            report(c, *rv[i])
    for i, c in enumerate(ucases):
        if uv[i][0] != "ok":
            report(c, *uv[i])
    if totals:
        rep.extra["violating_cases_by_clause"] = totals

    # counting (no judging): non-trivial cases, unspecified input classes, samples
    for i, c in enumerate(rcases):
        k = c["kind"]
        if k == "r1" and (len(c["ast"]) >= 2 or any(len(it) == 2 for it in c["ast"])):
            rep.nontrivial.add(("r", i))
        elif k == "r2" and len(c["ast"]) >= 1:
            rep.nontrivial.add(("r", i))
        elif k == "int" and len(c["ds"]) >= 2:
            rep.nontrivial.add(("r", i))
        if any(not o["must"] for o in c["outs"]):
            unspecified["spelling-outside-plain-grammar"] = unspecified.get("spelling-outside-plain-grammar", 0) + sum(
                1 for o in c["outs"] if not o["must"])
        if k in ("r1", "r2") and "reversed" in json.dumps(ast_shape(c)):
            unspecified["reversed-range-in-expression"] = unspecified.get("reversed-range-in-expression", 0) + 1
    for i, c in enumerate(ucases):
        k = c["kind"]
        h = c["text"]["host"]
        if k == "uri":
            if c["params"] or ":" in h:
                rep.nontrivial.add(("u", i))
            if not c["complete"]:
                unspecified["mandatory-setting-missing"] = unspecified.get("mandatory-setting-missing", 0) + 1
            if any(not s["must"] for s in c["settings"]):
                unspecified["setting-in-notation-scanners-never-write"] = unspecified.get(
                    "setting-in-notation-scanners-never-write", 0) + 1
        elif k == "hpx" or ":" in h or c["port"] in (0, 65535):
            rep.nontrivial.add(("u", i))
        if "%" in h:
            unspecified["ipv6-zone-id-host"] = unspecified.get("ipv6-zone-id-host", 0) + 1
    rep.extra["unspecified"] = unspecified
    rep.extra["cases"] = {"range_and_literal": len(rcases), "uri_and_hostport": len(ucases)}
    origins: dict[str, int] = {}
    for c in rcases + ucases:
        origins[c.get("origin", "?")] = origins.get(c.get("origin", "?"), 0) + 1
    rep.extra["origins"] = origins
    for c in (rcases[len(asts1) // 2], rcases[len(asts1) + len(asts2) // 2], rcases[-1]):
        rep.sample({"kind": c["kind"], "ast": c.get("ast"), "literal": [c.get("r"), c.get("ds")] if c["kind"] == "int" else None,
                    "inputs": [w["text"] for w in c["wit"]][:4], "outcomes": [o["res"] for o in c["outs"]][:3]})
    for c in (ucases[len(ucases) // 3], next(x for x in ucases if x["kind"] == "hp")):
        rep.sample({"kind": c["kind"], "text": c["text"], "port": c.get("port"), "got": c.get("got"), "cfg": c.get("cfg")})
    rep.exhaustive = True
    rep.extra["exhaustive_spaces"] = (
        "every range AST of the families in MC_RangeExpr (" + ("<= 3 items over 0..6; 2-D families T_E2a, T_E2c, Q_E2a, Q_E2b up to 4 entries" if thorough
                                                               else "<= 2 items over 0..6 and <= 3 items over 0..2; 2-D families Q_E2a/b")
        + ") x 6 notations x parsers; every abstract URI case host class x port {none,0,1,65535} x transport x "
        + ("(quick subset family x 6 notations) and (every subset of settings x scanner / mixed notation)" if thorough
           else "quick subset family x 6 notations") + "; "
        + ("ports 0..65535 for one host per class" if thorough else "a boundary + seeded port list") + ". Seeded cases are samples.")

    # ---- 5. binding self-tests: corrupted records and mutant parsers must be rejected by TLC
    selftest(rep, rcases, rv, ucases, uv)
    return rep


def selftest(rep: Report, rcases: list[dict[str, Any]], rv: dict[int, tuple[str, int]],
             ucases: list[dict[str, Any]], uv: dict[int, tuple[str, int]]) -> None:
    def first(cases: list[dict[str, Any]], v: dict[int, tuple[str, int]], pred: Any) -> dict[str, Any] | None:
        for i, c in enumerate(cases):
            if v[i][0] == "ok" and pred(c):
                return json.loads(json.dumps(c))
        return None

    bad: list[dict[str, Any]] = []
    c = first(rcases, rv, lambda c: c["kind"] == "r1" and c["outs"][0]["res"].get("v") and len(c["outs"][0]["res"]["v"]) >= 2)
    if c is None:
        if rep.violations:
            rep.extra["binding_selftest"] = "skipped: the tree under test leaves no accepted range case"
            return
        raise Machinery("no accepted range case to corrupt")
    c["outs"][0]["res"]["v"] = c["outs"][0]["res"]["v"][:-1]
    bad.append(c)
    c = first(rcases, rv, lambda c: c["kind"] == "r2" and any(e["all"] for e in c["outs"][0]["res"].get("v", [])))
    if c is not None:
        for e in c["outs"][0]["res"]["v"]:
            e["all"] = False
        bad.append(c)
    c = first(rcases, rv, lambda c: c["kind"] == "int" and len(c["ds"]) >= 3 and c["outs"][0]["res"]["t"] == "ok")
    if c is not None:
        c["outs"][0]["res"]["bin"][-1] ^= 1
        c["outs"][0]["res"]["dec"][-1] = (c["outs"][0]["res"]["dec"][-1] + 1) % 10
        bad.append(c)
    # mutant parsers through the same recording pipeline
    m1 = R.case1([[1, 3], [5]], parsers={**R.PARSERS1, "unravel": R.mutant_unravel_half_open})
    m2 = R.case2([[[[1]]], [[[1]], [[2]]]], parsers={**R.PARSERS2, "unravel_2d": R.mutant_unravel_2d_last_wins})
    m3 = R.case_int(16, [1, 15], parsers={"auto_int": R.mutant_int_decimal_only})
    bad += [m1, m2, m3]
    v, _ = validate("Trace_RangeExpr", bad, 100, par=1)
    if any(v[i][0] == "ok" for i in range(len(bad))):
        raise Machinery(f"binding self-test (ranges): corrupted / mutant cases accepted: {v}")
    st_r = [v[i][0] for i in range(len(bad))]

    ubad: list[dict[str, Any]] = []
    c = first(ucases, uv, lambda c: c["kind"] == "uri" and c["cfg"]["t"] == "ok" and c["complete"] and c["settings"]
              and "%" not in c["text"]["host"])
    if c is not None:
        c1 = json.loads(json.dumps(c)); c1["got"]["port"] = c1["got"]["port"] + 1
        c2 = json.loads(json.dumps(c)); c2["cfg"]["vals"][0]["v"] += 1
        c3 = json.loads(json.dumps(c)); c3["got"]["host"] = c3["got"]["host"][:-1]
        ubad += [c1, c2, c3]
    c = first(ucases, uv, lambda c: c["kind"] == "hpx" and "%" not in c["text"]["host"])
    if c is not None:
        c["gp"][len(c["gp"]) // 2] += 1
        ubad.append(c)
    ubad.append(U.run_hp("hp", "fe80::1", 80, U.NOPORT, join=U.mutant_join_no_brackets))
    ubad.append(U.run_hp("split", "fe80::1", 80, U.NOPORT, split=U.mutant_split_first_colon))
    v2, _ = validate("Trace_TargetUri", ubad, 100, par=1)
    if any(v2[i][0] == "ok" for i in range(len(ubad))):
        raise Machinery(f"binding self-test (URIs): corrupted / mutant cases accepted: {v2}")
    rep.extra["binding_selftest"] = {"rejected_ranges": st_r, "rejected_uris": [v2[i][0] for i in range(len(ubad))]}


# ----------------------------------------------------------------------------


def replay(path: str) -> int:
    quiet_gallia_logging()
    data = json.loads(open(path).read())
    bad = 0
    rc: list[dict[str, Any]] = []
    uc: list[dict[str, Any]] = []
    for viol in data["violations"]:
        rp = viol["detail"].get("replay")
        if not rp:
            print(f"replay: {viol['clause']} has no replayable case (design-layer finding)")
            bad += 1
            continue
        k = rp["kind"]
        if k in ("r1", "r2", "int"):
            base = int(rp.get("base") or 0)
            rc.append(R.case1(rp["ast"], base) if k == "r1" else R.case2(rp["ast"], base) if k == "r2"
                      else R.case_int(rp["r"], rp["ds"]))
        elif k == "uri":
            uc.append(U.run_uri(rp["tr"], rp["host"], rp["port"], rp["settings"], rp["args"]))
        else:
            uc.append(U.run_hp(k, rp["host"], rp["port"], rp["dflt"]))
    if rc:
        v, _ = validate("Trace_RangeExpr", rc, 5000, par=1)
        for i, c in enumerate(rc):
            w = c["wit"][v[i][1] - 1]["text"] if v[i][1] else None
            print(f"replay {c['kind']} ast={c.get('ast')} literal={c.get('r')},{c.get('ds')} input={w!r} verdict={v[i][0]}")
            bad += v[i][0] != "ok"
    if uc:
        v, _ = validate("Trace_TargetUri", uc, 5000, par=1)
        for i, c in enumerate(uc):
            got = c["got"]
            if c["kind"] == "uri":
                print(f"replay uri {c['text'].get('uri')!r} parsed={got['t']} cfg={c['cfg']['t']} verdict={v[i][0]}")
            else:
                shown = {"host": "".join(map(chr, got["host"])), "port": got["port"]} if got["t"] == "ok" else got
                print(f"replay {c['kind']} host={c['text']['host']!r} port={c['port']} default={c['dflt']} got={shown} "
                      f"verdict={v[i][0]}")
            bad += not (v[i][0] == "ok" or v[i][0].startswith("unspecified"))
    if bad:
        print(f"VIOLATION property=C20 replay={path}")
        return 1
    print(f"replay: all {len(rc) + len(uc)} recorded cases are accepted now")
    return 0
