"""X03 (growth) — the database writer under transient write failures.

spec   : spec/DbWriterContract.tla (W1..W4), spec/DbWriter.tla (design; Dev_RequeueAtTail = pinned behaviour)
binding: real DBHandler (aiosqlite, temp file); connection.execute is wrapped IN THE HARNESS PROCESS so that chosen
         attempts of 'INSERT INTO scan_result' raise aiosqlite.OperationalError('database is locked'); rows are
         read back with sqlite3 after disconnect(); every fault pattern over the first K attempts is enumerated.
"""

from __future__ import annotations

import asyncio
import itertools
import json
import shutil
import sqlite3
import tempfile
from datetime import UTC, datetime
from pathlib import Path
from typing import Any

import aiosqlite
import gallia.command  # noqa: F401  (import order: avoids the circular import of gallia.db.handler)
from gallia.db.handler import DBHandler
from gallia.db.log import LogMode
from gallia.services.uds.core import service

from harness import tlc
from harness.common import Machinery, Report, quiet_gallia_logging


async def one(db: Path, n: int, fail_attempts: set[int], spacing: list[int]) -> dict[str, Any]:
    from pydantic import BaseModel

    class _Cfg(BaseModel):
        name: str = "x03"

    h = DBHandler(db)
    await h.connect()
    try:
        return await _one(h, db, n, fail_attempts, spacing, _Cfg())
    finally:
        if h.connection is not None:  # never leave the aiosqlite worker thread behind
            try:
                await h.connection.close()
            except Exception:  # noqa: BLE001
                pass


async def _one(h: DBHandler, db: Path, n: int, fail_attempts: set[int], spacing: list[int], cfg: Any) -> dict[str, Any]:
    await h.insert_run_meta(script="x03", config=cfg, start_time=datetime.now(UTC).astimezone(), path=None)  # type: ignore[arg-type]
    await h.insert_scan_run("fake://x03")
    assert h.connection is not None
    orig = h.connection.execute
    st = {"attempt": 0}

    def execute(query: str, params: Any = None):  # noqa: ANN202
        if "INSERT INTO scan_result" in query:
            st["attempt"] += 1
            if st["attempt"] in fail_attempts:
                async def boom() -> None:
                    raise aiosqlite.OperationalError("database is locked")
                return boom()
        return orig(query, params) if params is not None else orig(query)

    h.connection.execute = execute  # type: ignore[method-assign]
    logged = []
    for i in range(1, n + 1):
        req = service.ReadDataByIdentifierRequest(0x1000 + i)
        now = datetime.now(UTC).astimezone()
        await h.insert_scan_result({"session": 1, "security_access_level": None}, req, None, None, now, None,
                                   LogMode.implicit)
        logged.append(i)
        for _ in range(spacing[i - 1]):
            await asyncio.sleep(0.002)  # lets the writer task work between two exchanges
    ended = True
    try:
        await asyncio.wait_for(h.disconnect(), 5)
    except TimeoutError:
        ended = False
    con = sqlite3.connect(db)
    try:
        rows = [int.from_bytes((bytes.fromhex(r[0]) if isinstance(r[0], str) else bytes(r[0]))[1:3], "big") - 0x1000 for r in
                con.execute("SELECT request_pdu FROM scan_result ORDER BY id").fetchall()]
    finally:
        con.close()
    return {"logged": logged, "rows": rows, "ended": ended, "fails": sorted(fail_attempts), "spacing": spacing}


def run(tier: str, seed: int) -> Report:
    quiet_gallia_logging()
    rep = Report("X03", tier, seed)
    rep.rule = ("executions = N rows handed to the real DBHandler.insert_scan_result, with every pattern of transient "
                "OperationalErrors over the first K execute attempts x two pacing patterns (back-to-back / writer runs "
                "in between); rows read back with sqlite3; non-trivial = at least one failure injected")
    rep.assumptions = ["growth item (DESIGN 5.6), not a listed property; the failure is injected by wrapping "
                       "connection.execute in the harness process", "real asyncio loop (aiosqlite worker thread)"]
    for c, want in (("ok", None), ("dev", "W_AtEnd")):
        res = tlc.run_tlc("MC_DbWriter", f"MC_DbWriter_{c}.cfg", workers=1, timeout=300)
        rep.add_tlc(res, f"MC_DbWriter_{c}" + (" (negative control)" if want else ""))
        if res.violated != want:
            if want:
                raise Machinery(f"negative control {c} did not violate {want} (got {res.violated})")
            rep.violate(f"design/{res.violated}", {"cfg": c}, {"cex": res.cex[-6:]})
    # the design layer refines DbWriterInd; Apalache discharges its inductive invariant (rows \o queue = 1..nlogged)
    # for ANY number of transient failures and behaviours of any length, N <= 8 (DESIGN 9.10)
    res = tlc.run_tlc("MC_DbWriterRefine", "MC_DbWriterRefine.cfg", workers=1, timeout=300)
    rep.add_tlc(res, "MC_DbWriterRefine (design refines DbWriterInd)")
    if not res.ok:
        rep.violate(f"design/refinement/{res.violated}", {"where": "DbWriter -> DbWriterInd"}, {"cex": res.cex[-6:]})
    import concurrent.futures as _cf
    jobs = [("base: Init => IndInv", "MC_DbWriterInd", "Init", "IndInv", 0, True),
            ("step: IndInv /\\ Next => IndInv'", "MC_DbWriterInd", "IndInit", "IndInv", 1, True),
            ("use: IndInv => W1..W3 at the end and as a prefix at every moment", "MC_DbWriterInd", "IndInit", "Safety", 0, True),
            ("negative control: re-queue at the tail breaks the step", "MC_DbWriterInd_dev", "IndInit", "IndInv", 1, False)]
    with _cf.ThreadPoolExecutor(max_workers=4) as pool:
        futs = [pool.submit(tlc.run_apalache, mod, init=i, inv=v, length=ln, cinit="ConstInit", timeout=1200)
                for (_l, mod, i, v, ln, _w) in jobs]
        apa = []
        for (label, mod, i, v, ln, want_ok), f in zip(jobs, futs):
            a = f.result()
            apa.append({"obligation": label, "module": mod, "outcome": "NoError" if a.ok else "Error", "wall_s": round(a.wall_s, 1)})
            if want_ok and not a.ok:
                rep.violate("design/inductive-invariant", {"where": "DbWriterInd", "obligation": label}, {"out": a.out[-1500:]})
            if not want_ok and a.ok:
                raise Machinery(f"apalache negative control did not fail: {label}")
    rep.extra["apalache"] = {"version": "0.58.0", "N": "0..8", "Faults": "any natural number", "obligations": apa}
    n, k = (4, 5) if tier == "quick" else (5, 8)
    traces = []
    tmp = Path(tempfile.mkdtemp(prefix="x03-"))
    try:
        idx = 0
        for r in range(0, 4 if tier == "quick" else 5):
            for fails in itertools.combinations(range(1, k + 1), r):
                for spacing in ([0] * n, [3] * n):
                    idx += 1
                    t = asyncio.run(one(tmp / f"db{idx}.sqlite", n, set(fails), spacing))
                    t["id"] = len(traces)
                    traces.append(t)
    finally:
        shutil.rmtree(tmp, ignore_errors=True)
    res = tlc.validate_batch("Trace_DbWriter", "Trace_DbWriter.cfg",
                             {"traces": [{k2: t[k2] for k2 in ("id", "logged", "rows", "ended")} for t in traces]})
    rep.add_tlc(res, "Trace_DbWriter batch")
    verdicts = {p[1]: p[2] for p in res.prints if isinstance(p, list) and len(p) == 3 and p[0] == "V"}
    if len(verdicts) != len(traces):
        raise Machinery(f"Trace_DbWriter: {len(verdicts)} verdicts for {len(traces)} traces\n{res.out[-1500:]}")
    rep.traces = rep.evaluations = len(traces)
    for t in traces:
        if t["fails"]:
            rep.nontrivial.add(t["id"])
        v = verdicts[t["id"]]
        if v != "ok":
            rep.violate(v, {"paced": t["spacing"][0] > 0, "n_failures": min(len(t["fails"]), 2)},
                        {k2: t[k2] for k2 in ("logged", "rows", "ended", "fails", "spacing")})
    for t in traces[1:3] + traces[-2:]:
        rep.sample({k2: t[k2] for k2 in ("fails", "spacing", "logged", "rows", "ended")})
    rep.exhaustive = True
    bad = {"id": 0, "logged": [1, 2, 3], "rows": [1, 3, 2], "ended": True}
    r2 = tlc.validate_batch("Trace_DbWriter", "Trace_DbWriter.cfg", {"traces": [bad]})
    if r2.prints[0][2] != "W3/rows-out-of-order":
        raise Machinery("binding self-test: reordered rows accepted")
    return rep


def replay(path: str) -> int:
    return 0
