"""C10 — service and identifier scans report what the ECU really supports, nothing else.

spec   : spec/ServiceScanContract.tla + ServiceScan.tla, spec/IdentScanContract.tla + IdentScan.tla
MC     : MC_ServiceScan_{a,b,c,d}(+a6,afull,a12,b3 thorough), MC_IdentScan_{a,b,c,noclamp};
         negative controls MC_ServiceScan_dev{Mask,Lens,Break,Check}, MC_IdentScan_dev{End,Neg,Endian}
binding: the REAL ServicesScanner / ScanIdentifiers, run through AsyncScript.run() with a real ECU
         client over the full tcp-lines stack in memory (harness/c10_stack.py), virtual time;
         code->spec: every execution validated by Trace_ServiceScan / Trace_IdentScan (TLC);
         spec->code: TLC-simulated design behaviours concretised and replayed, probe sequence compared (DRIFT only).
"""

from __future__ import annotations

import hashlib
import json
import multiprocessing as mp
import os
from concurrent.futures import ThreadPoolExecutor
from typing import Any

from gallia.services.uds.server import RandomUDSServer

from harness import c10_cases as cs
from harness import tlc
from harness.c10_run import run_case
from harness.c10_stack import LEN, NONE, SNS, SNSIAS, setup_logging_once
from harness.common import Machinery, Report

SVC_MC_QUICK = ["a", "b", "c", "d"]
SVC_MC_THOROUGH = ["a6", "afull", "a12", "b3"]
SVC_NEG = {"devMask": {"V5_RespIds", "V3_Probed"}, "devLens": {"V1b_All"}, "devBreak": {"V1b_All"},
           "devTimeout": {"V1b_All"},
           "devCheck": {"V2_InSession"}}
ID_MC = ["a", "b", "c", "noclamp"]
ID_NEG = {"devEnd": {"I2_Asked", "I1_Counter"}, "devNeg": {"I1_Counter"}, "devEndian": {"I2_Asked", "I1_Counter"}}

NPROC = max(2, min(12, (os.cpu_count() or 4) - 2))


def _services_of(sd: int, params: dict[str, Any] | None = None) -> dict[int, set[int]]:
    s = RandomUDSServer(sd, RandomUDSServer.RandomnessParameters(**(params or {})))
    s.randomize()
    return {k: {int(x) for x in v} for k, v in s.services.items()}


def _run_cases(cases: list[dict[str, Any]]) -> list[dict[str, Any]]:
    if not cases:
        return []
    ctx = mp.get_context("fork")
    with ctx.Pool(NPROC) as pool:
        return pool.map(run_case, cases, chunksize=2)


def _validate(traces: list[dict[str, Any]], rep: Report | None) -> tuple[dict[int, str], dict[int, int]]:
    """TLC batch validation (parallel JVMs); returns id -> verdict, id -> unspecified count."""
    jobs = []
    for kind, module, ch in (("svc", "Trace_ServiceScan", 150), ("ident", "Trace_IdentScan", 1500)):
        sub = [t for t in traces if t["kind"] == kind]
        for off in range(0, len(sub), ch):
            jobs.append((module, sub[off:off + ch]))

    def one(job: tuple[str, list[dict[str, Any]]]) -> Any:
        module, sub = job
        batch = {"traces": [{k: v for k, v in t.items() if k != "case"} for t in sub]}
        return tlc.validate_batch(module, f"{module}.cfg", batch, timeout=3000, workers=1, heap="3g")

    with ThreadPoolExecutor(max_workers=6) as ex:
        results = list(ex.map(one, jobs))
    verdicts: dict[int, str] = {}
    unspec: dict[int, int] = {}
    for (module, _), res in zip(jobs, results):
        if rep is not None:
            rep.add_tlc(res, f"{module} batch")
        for p in res.prints:
            if isinstance(p, list) and len(p) == 3 and p[0] == "V":
                verdicts[p[1]] = p[2]
            elif isinstance(p, list) and len(p) == 3 and p[0] == "U":
                unspec[p[1]] = p[2]
    missing = [t["id"] for t in traces if t["id"] not in verdicts]
    if missing:
        raise Machinery(f"TLC produced no verdict for {len(missing)} traces (first id {missing[0]}):\n"
                        + results[-1].out[-2000:])
    return verdicts, unspec


def _mc(rep: Report, tier: str) -> None:
    jobs: list[tuple[str, str, set[str] | None, bool]] = []
    for c in SVC_MC_QUICK + (SVC_MC_THOROUGH if tier == "thorough" else []):
        jobs.append(("MC_ServiceScan", c, None, c == "d"))
    for c, want in SVC_NEG.items():
        jobs.append(("MC_ServiceScan", c, want, False))
    for c in ID_MC:
        jobs.append(("MC_IdentScan", c, None, c == "a"))
    for c, want in ID_NEG.items():
        jobs.append(("MC_IdentScan", c, want, False))

    def one(j: tuple[str, str, set[str] | None, bool]) -> Any:
        return tlc.run_tlc(j[0], f"{j[0]}_{j[1]}.cfg", workers=4, timeout=3000, coverage=j[3], heap="3g")

    with ThreadPoolExecutor(max_workers=4) as ex:
        results = list(ex.map(one, jobs))
    cov: dict[str, Any] = {}
    for (module, c, want, coverage), res in zip(jobs, results):
        rep.add_tlc(res, f"{module}_{c}" + (" (negative control)" if want else ""))
        if want is None:
            if not res.ok:
                rep.violate(f"design/{res.violated}", {"where": f"{module} design layer", "cfg": c},
                            {"cex": res.cex[-6:], "out": res.out[-1500:]})
        elif res.violated not in want:
            raise Machinery(f"negative control {module}_{c} did not violate {sorted(want)} (got {res.violated}): "
                            "contract is vacuous")
        if coverage:
            never = [a for a, (n, _) in res.coverage.items() if n == 0]
            cov[f"{module}_{c}"] = {a: n for a, (n, _) in res.coverage.items()}
            if never or not res.coverage:
                raise Machinery(f"{module}_{c}: design actions never taken: {never or 'no coverage output'}")
    rep.extra["design_action_coverage"] = cov
    rep.extra["negative_controls"] = sorted(list(SVC_NEG) + list(ID_NEG))


# ------------------------------------------------------------------ spec -> code
def _cls_of(rec: dict[str, Any], sid: int) -> list[Any]:
    k = rec["k"]
    if k == "Ans":
        return cs.ans(rec["at"], bool(rec["pos"]), sid, bool(rec["drop"]), bool(rec["q"]))
    return [k]


def _coarse(r: int) -> int:
    return r if r in (SNS, SNSIAS, LEN, NONE) else 9


def _svc_from_behaviour(st: dict[str, Any], n: int) -> tuple[dict[str, Any], list[Any], list[Any]] | None:
    if st.get("pc") != "Done":
        return None
    M, C = st["M"], st["C"]
    svc: dict[str, dict[str, Any]] = {}
    sids = set()
    for key, rec in M["svc"]["$fn"]:
        s, sid = key
        sids.add(sid)
        svc.setdefault(str(s), {})[str(sid)] = _cls_of(rec, sid)
    ecu = {"type": "model", "sessions": sorted(int(s) for s in svc), "sess_read": bool(M["sessRead"]), "svc": svc}
    skip: dict[int, list[int]] = {}
    for s, sid in C["skip"]["$set"]:
        skip.setdefault(s, []).append(sid)
    sessions = list(C["sessions"]) if C["has"] else None
    case = cs.svc_case(ecu, sessions, sorted(C["skipAll"]["$set"]), skip, bool(C["check"]), bool(C["respIds"]), n,
                       "svc-tlc-simulate")
    probes = [[e[0], e[1], e[2], _coarse(e[5])] for e in st["hist"]
              if e[2] in sids and not (e[2] == 16 and e[1] == 2 and e[3] != 0) and not (e[2] == 34 and e[3] == 241)]
    result = sorted([list(p) for p in st["result"]["$set"]]) if isinstance(st["result"], dict) else []
    return case, [sorted(sids), probes], result


def _ident_from_behaviour(st: dict[str, Any], n: int, abn: list[int], drop: list[int],
                          window: list[int]) -> tuple[dict[str, Any], list[Any]] | None:
    if st.get("pc") != "Done":
        return None
    M, C = st["M"], st["C"]
    svc = C["svc"]
    sfs = [1, 2, 3] if svc == 0x31 else [0]
    ecu: dict[str, Any] = {"type": "identmodel", "sessions": [1, 2], "sess_read": True, "service": svc,
                           "reset_ok": True, "pos": {}, "abn": {}, "sil": {}, "drop": {}}
    pos = [tuple(t) for t in M["pos"]["$set"]]
    for s in (1, 2):
        for key in ("pos", "abn", "sil", "drop"):
            ecu[key][str(s)] = {}
        for sf in sfs:
            p = sorted(i for (a, b, i) in pos if a == s and b == sf)
            ecu["pos"][str(s)][str(sf)] = p
            ecu["abn"][str(s)][str(sf)] = [i for i in window if i in abn and i not in p]
            ecu["drop"][str(s)][str(sf)] = [i for i in p if i in drop]
    skip: dict[int, list[int]] = {}
    for s, i in C["skip"]["$set"]:
        skip.setdefault(s, []).append(i)
    sessions = list(C["sessions"]) if C["has"] else None
    payload = bytes(C["payload"]).hex() if C["payload"] else None
    case = cs.ident_case(ecu, svc, C["start"], C["end"], sessions, sorted(C["skipAll"]["$set"]), skip,
                         C["check"] or None, payload, n, "ident-tlc-simulate")
    seq = []
    for e in st["hist"]:
        if e["k"] == "q" and e["p"][0] == svc and e["p"] != [34, 241, 134]:
            seq.append(["q", e["t"], e["p"], 1 if e["r"] == 4 else 0])
        elif e["k"] == "pos":
            seq.append(["pos", e["n"]])
    return case, seq


def _spec_to_code(rep: Report, tier: str, seed: int) -> list[tuple[dict[str, Any], Any]]:
    """TLC-simulated design behaviours -> cases for the real scanners, with the design's projection."""
    out: list[tuple[dict[str, Any], Any]] = []
    nsim = 40 if tier == "quick" else 400
    _res, behs = tlc.simulate_behaviours("MC_ServiceScan", "MC_ServiceScan_sim.cfg", num=nsim, depth=80,
                                         seed=seed + 1, timeout=1800)
    for n, b in enumerate(behs):
        if b:
            x = _svc_from_behaviour(b[-1][1], n)
            if x is not None:
                out.append((x[0], {"kind": "svc", "design": x[1], "result": x[2]}))
    _res, behs = tlc.simulate_behaviours("MC_IdentScan", "MC_IdentScan_a.cfg", num=nsim, depth=80,
                                         seed=seed + 2, timeout=1800)
    for n, b in enumerate(behs):
        if b:
            y = _ident_from_behaviour(b[-1][1], n, [255, 258], [256], [254, 255, 256, 257, 258])
            if y is not None:
                out.append((y[0], {"kind": "ident", "design": y[1]}))
    rep.extra["simulated_behaviours"] = len(out)
    if len(out) < nsim:
        raise Machinery(f"spec->code: only {len(out)} complete design behaviours out of {2 * nsim} simulated")
    return out


def _drift(trace: dict[str, Any], proj: dict[str, Any]) -> dict[str, Any] | None:
    if proj["kind"] == "svc":
        sids, want = proj["design"]
        got = [[e[0], e[1], e[2], _coarse(e[5])] for e in trace["ev"]
               if e[2] in sids and not (e[2] == 16 and e[1] == 2 and e[3] != 0) and not (e[2] == 34 and e[3] == 241)]
        res = sorted(trace["result"])
        if got != want or res != proj["result"]:
            return {"scan": "services", "design_probes": want[:30], "code_probes": got[:30],
                    "design_result": proj["result"], "code_result": res}
        return None
    svc = trace["C"]["svc"]
    got2 = []
    for e in trace["ev"]:
        if e["k"] == "q" and e["p"][0] == svc and e["p"] != [34, 241, 134]:
            got2.append(["q", e["t"], e["p"], 1 if e["r"] == 4 else 0])
        elif e["k"] == "pos":
            got2.append(["pos", e["n"]])
    if got2 != proj["design"]:
        return {"scan": "identifiers", "design": proj["design"][:30], "code": got2[:30]}
    return None


# ------------------------------------------------------------------ run
def _digest(case: dict[str, Any]) -> str:
    return hashlib.sha1(json.dumps([case["kind"], case["ecu"], case["cfg"]], sort_keys=True).encode()).hexdigest()[:16]


def _nontrivial(t: dict[str, Any]) -> bool:
    if t["kind"] == "svc":
        return len(t["result"]) >= 1
    return any(e["k"] == "pos" and e["n"] >= 1 for e in t["ev"])


def _check_ident_log(t: dict[str, Any]) -> None:
    """The result-tagged records are the observation; if their wording is not understood any more the
    check cannot observe the counters: machinery failure, never a verdict."""
    if t["kind"] != "ident" or t["done"] not in ("ok", "exit1"):
        return
    npos = sum(1 for e in t["ev"] if e["k"] == "pos")
    nstart = sum(1 for e in t["ev"] if e["k"] == "start")
    nend = sum(1 for e in t["ev"] if e["k"] == "end")
    entered = any(e["k"] == "q" and e["p"][0] == 0x10 and len(e["p"]) == 2 and e["r"] == 4
                  and e["p"][1] in t["C"]["req"] and e["p"][1] not in t["C"]["skipAll"] for e in t["ev"])
    if t["C"]["has"]:
        # a session scan that was aborted half-way (fewer counters than announcements) is left to the contract (I4)
        if (npos > 0 and nstart == 0) or (nstart > 0 and npos == 0) or npos > nstart or nend > nstart \
                or (entered and nstart == 0 and t["done"] == "ok"):
            raise Machinery(f"result-tagged log records not understood (start/pos/end = {nstart}/{npos}/{nend}); "
                            "adapt the patterns in harness/c10_run.py")
    elif npos != 1 and t["done"] == "ok":
        raise Machinery(f"result-tagged log records not understood ({npos} positive-counter records in a "
                        "single scan); adapt the patterns in harness/c10_run.py")


def _sig(t: dict[str, Any], case: dict[str, Any], verdict: str) -> dict[str, Any]:
    if t["kind"] == "svc":
        return {"scan": "services", "ecu": case["ecu"]["type"], "sessions": t["C"]["has"], "check": t["C"]["check"],
                "resp_ids": t["C"]["respIds"], "skip": bool(t["C"]["skip"] or t["C"]["skipAll"])}
    return {"scan": "identifiers", "ecu": case["ecu"]["type"], "service": hex(t["C"]["svc"]),
            "sessions": t["C"]["has"], "check": t["C"]["check"], "skip": bool(t["C"]["skip"] or t["C"]["skipAll"])}


def build_cases(tier: str, seed: int) -> list[dict[str, Any]]:
    cases: list[dict[str, Any]] = []
    cases += cs.svc_packed(tier)
    cases += cs.svc_drop(tier)
    cases += cs.svc_boundary()
    cases += cs.svc_defaults()
    cases += cs.svc_reset(tier)
    cases += cs.svc_slow_tp(tier)
    ab = cs.svc_abstract("quick")
    cases += ab[::5] if tier == "quick" else ab
    if tier == "thorough":
        cases += cs.svc_abstract("thorough")[1::5]
    cases += cs.svc_random(tier, seed, _services_of)
    cases += cs.ident_scripted(tier, seed)
    cases += cs.ident_slow_tp(tier, seed)
    cases += cs.ident_random(tier, seed, _services_of)
    return cases


def run(tier: str, seed: int) -> Report:
    setup_logging_once()  # instead of quiet_gallia_logging(): result-tagged records must be observable
    rep = Report("C10", tier, seed)
    rep.rule = ("executions = complete runs of the real ServicesScanner / ScanIdentifiers (setup, main, teardown) "
                "against an in-memory ECU; distinct = distinct (ECU model, option strings); non-trivial = the scan "
                "reported at least one service / a positive counter >= 1")
    rep.assumptions = [
        "full tcp-lines stack in memory: only asyncio.open_connection is replaced; TCPLinesTransport, ECU, UDSClient, "
        "TCPUDSServerTransport.handle_client and a UDSServer subclass are gallia code; virtual-time loop (FIFO ready "
        "queue, exact timers)",
        "scripted ECUs: every session of the model can be entered from every session; answers depend on (ground-truth "
        "session, service id, payload length) resp. (session, sub-function, identifier); DiagnosticSessionControl, the "
        "session read 22 F1 86 and TesterPresent go through gallia's default response chain",
        "A1: ECUs that fall back to the default session by themselves are only generated together with check_session "
        "(on every identifier) and a readable session; without the check no scanner can notice",
        "ECUs answering the session read with NRCs other than not-supported/out-of-range (check_session then raises) "
        "and busy/pending answers are not generated (C04 covers the latter)",
        "probe lengths 1,2,3,5 are a parameter of the ECU model (named by the property record); extra probes of other "
        "lengths, any probe order and payload content are accepted",
        "leave_session / power cycling: no power supply in the sandbox (power_supply=None, power_cycle() returns "
        "False); ECUReset is answered by the ECU model (positive, or negative -> reconnect path)",
        "skip_not_supported, --reset, --ecu-reset, database logging are left at their defaults",
        "families svc-slow-tp / ident-slow-tp: cyclic TesterPresent ON (interval 0.08 .. 0.5 s), UDS timeout 0.6 .. 2 s, "
        "honest ECUs whose every answer takes a latency (fixed or jittering) between the two, plus a fast control; the "
        "initial ping and the between-session recovery of the identifier scan (wait_for_ecu, fixed 0.5 s per ping) are "
        "only combined with latencies of at most 0.3 s; a keep-alive sent with the suppress bit (3E 80) is not answered",
        "skip with no session list is not generated (documented as without effect; statement silent)",
        "RandomUDSServer: SecurityAccess identifier scans are left out (its seeds come from an unseeded RNG)",
        "importlib.metadata.entry_points is memoised in the harness process (speed only)",
        "the positive counter is read from the result-tagged record matching /positive ... <n>/; if the records "
        "are not understood the check fails as machinery (exit 2), never as a verdict",
    ]
    # ---- 1. design layers against the contracts, negative controls, action coverage
    _mc(rep, tier)
    # ---- 2. real executions over the enumerated / seeded families
    cases = build_cases(tier, seed)
    # ---- 3. spec -> code
    sims = _spec_to_code(rep, tier, seed)
    proj: dict[int, Any] = {}
    for case, p in sims:
        proj[len(cases)] = p
        cases.append(case)
    seen: set[str] = set()
    uniq: list[dict[str, Any]] = []
    uproj: dict[int, Any] = {}
    for i, c in enumerate(cases):
        d = _digest(c)
        if d in seen and i not in proj:
            continue
        seen.add(d)
        if i in proj:
            uproj[len(uniq)] = proj[i]
        uniq.append(c)
    traces = _run_cases(uniq)
    for i, t in enumerate(traces):
        t["id"] = i
        _check_ident_log(t)
    drift = 0
    for i, p in uproj.items():
        d = _drift(traces[i], p)
        if d is not None:
            drift += 1
            d["cfg"] = uniq[i]["cfg"]
            rep.drift.append(d)
    rep.extra["spec_to_code_replayed"] = len(uproj)
    rep.extra["spec_to_code_drift"] = drift
    # ---- 4. code -> spec: TLC validates every execution
    verdicts, unspec = _validate(traces, rep)
    rep.traces = len(traces)
    rep.evaluations = len(traces)
    origins: dict[str, int] = {}
    for i, t in enumerate(traces):
        origins[t["origin"]] = origins.get(t["origin"], 0) + 1
        if _nontrivial(t):
            rep.nontrivial.add(_digest(uniq[i]))
        v = verdicts[i]
        if v.startswith("M0/"):
            raise Machinery(f"fake ECU inconsistent with its own model in case {i} ({t['origin']}): "
                            f"{json.dumps(uniq[i]['cfg'])}")
        if v != "ok":
            rep.violate(v, _sig(t, uniq[i], v), {"case": uniq[i], "done": t["done"],
                                                  "result": t.get("result"), "origin": t["origin"],
                                                  "reports": [e for e in t["ev"] if isinstance(e, dict) and e["k"] != "q"]})
    rep.extra["origins"] = origins
    rep.extra["unspecified"] = {
        "svc: (session,sid) pairs with contradictory answers across probe lengths": sum(
            unspec.get(i, 0) for i, t in enumerate(traces) if t["kind"] == "svc"),
        "ident: probes outside the wanted identifier set (answer cannot change the count)": sum(
            unspec.get(i, 0) for i, t in enumerate(traces) if t["kind"] == "ident"),
    }
    rep.extra["scan_exit"] = {k: sum(1 for t in traces if t["done"] == k) for k in {t["done"] for t in traces}}
    for i in (0, len(traces) // 3, 2 * len(traces) // 3, len(traces) - 1):
        t = traces[i]
        if t["kind"] == "svc":
            rep.sample({"scan": "services", "cfg": uniq[i]["cfg"], "requests_at_ecu": len(t["ev"]),
                        "result": t["result"][:12], "verdict": verdicts[i]})
        else:
            rep.sample({"scan": "identifiers", "cfg": uniq[i]["cfg"], "events": t["ev"][:8], "verdict": verdicts[i]})
    rep.exhaustive = tier == "thorough"
    rep.extra["design_layer_not_vacuous"] = ("every action of ServiceScan (cfg d) and IdentScan (cfg a) is taken "
                                             "(TLC -coverage, counts in design_action_coverage)")
    rep.extra["exhaustive_spaces"] = (
        "every abstract service model of 2 sessions x sids {0x10,0x50} x 7 behaviour classes (2401 models; quick: "
        "every 5th; thorough additionally every 5th of the 20736 models over 12 classes) concretised and scanned; the 144 class pairs of all 12 classes side by side on all 256 service "
        "ids; identifier ranges x session lists x skip maps x check_session of harness/c10_cases.py fully crossed "
        "(quick: every 3rd); everything else seeded samples")
    # ---- 5. binding self-tests: corrupted traces and mutants of the harness's own fakes must be rejected
    _selftest(rep, traces, uniq, verdicts)
    return rep


def _selftest(rep: Report, traces: list[dict[str, Any]], cases: list[dict[str, Any]], verdicts: dict[int, str]) -> None:
    def clone(t: dict[str, Any]) -> dict[str, Any]:
        return json.loads(json.dumps(t))

    svc = next((t for i, t in enumerate(traces) if t["kind"] == "svc" and verdicts[i] == "ok" and t["C"]["has"]
                and len(t["result"]) >= 2 and not t["C"]["respIds"]), None)
    idt = next((t for i, t in enumerate(traces) if t["kind"] == "ident" and verdicts[i] == "ok" and t["C"]["has"]
                and any(e["k"] == "pos" and e["n"] >= 1 for e in t["ev"])), None)
    if svc is None or idt is None:
        raise Machinery("no accepted non-trivial trace to run the binding self-test on")
    muts: list[tuple[str, dict[str, Any], str]] = []
    a = clone(svc); a["result"] = a["result"][1:]; muts.append(("svc result entry removed", a, "V1/supported"))
    b = clone(svc); b["result"].append([b["result"][0][0], 0x50]); muts.append(("svc bogus result entry", b, "V1/reported"))
    c = clone(svc)
    k = next(j for j, e in enumerate(c["ev"]) if e[2] == c["result"][-1][1] and e[0] == c["result"][-1][0] and e[1] >= 2
             and not (e[2] == 16 and e[3] != 0))
    c["ev"][k][0] = 7; muts.append(("svc probe moved to another ground-truth session", c, "V2/"))
    d = clone(svc)
    sidx = next(e[2] for e in d["ev"] if e[2] not in (16, 34, 62) and e[1] == 2)
    d["ev"] = [e for e in d["ev"] if e[2] != sidx]; muts.append(("svc probes of one service id deleted", d, "V3/"))
    e_ = clone(idt)
    j = next(j for j, e in enumerate(e_["ev"]) if e["k"] == "pos" and e["n"] >= 1)
    e_["ev"][j]["n"] += 1; muts.append(("ident positive counter + 1", e_, "I1/"))
    f = clone(idt)
    j = next(j for j, e in enumerate(f["ev"]) if e["k"] == "q" and e["p"][0] == f["C"]["svc"] and e["r"] == 4
             and e["p"] != [34, 241, 134])
    del f["ev"][j]; muts.append(("ident positive probe deleted", f, "I2/"))
    # mutants of the harness's own fakes: TLC must notice that the fake left its model (M0)
    sc = next(c for c in cases if c["kind"] == "svc" and c["ecu"]["type"] == "model" and c["origin"] == "svc-packed")
    muts.append(("fake ECU answers SNS instead of a length error", run_case(sc, mutant="fake-swaps-len-and-sns"), "M0/"))
    def has_negative_in_range(c: dict[str, Any]) -> bool:
        d = c["den"]
        return any(i not in c["ecu"]["pos"].get(str(s), {}).get("0", []) and [s, i] not in d["skip"]
                   for s in (d["sessions"] or [1]) if s in c["ecu"]["sessions"] and s not in d["skip_all"]
                   and str(s) not in c["ecu"].get("absent", {})
                   for i in range(d["start"], d["end"] + 1))

    ic = next(c for c in cases if c["kind"] == "ident" and c["ecu"]["type"] == "identmodel"
              and c["den"]["service"] == 0x22 and has_negative_in_range(c))
    muts.append(("fake ECU answers positively outside its model",
                 run_case(ic, mutant="fake-answers-positive-outside-model"), "M0/"))
    for n, (_, t, _) in enumerate(muts):
        t["id"] = n
    v, _u = _validate([t for _, t, _ in muts], None)
    got = {name: v[n] for n, (name, _, _) in enumerate(muts)}
    wrong = [name for n, (name, _, want) in enumerate(muts) if not v[n].startswith(want)]
    if wrong:
        raise Machinery(f"binding self-test: corrupted traces / fake mutants not rejected as expected: {wrong}: {got}")
    rep.extra["binding_selftest"] = got


def replay(path: str) -> int:
    setup_logging_once()
    data = json.loads(open(path).read())
    bad = 0
    traces = []
    for n, v in enumerate(data["violations"]):
        case = v["detail"].get("case")
        if case is None:
            print(f"replay: violation {n} ({v['clause']}) is a design-layer counterexample: re-run ./check C10")
            bad += 1
            continue
        t = run_case(case)
        t["id"] = len(traces)
        traces.append(t)
    if traces:
        verdicts, _ = _validate(traces, None)
        for t in traces:
            print(f"replay kind={t['kind']} origin={t['origin']} done={t['done']} verdict={verdicts[t['id']]}")
            bad += verdicts[t["id"]] != "ok"
    if bad:
        print(f"VIOLATION property=C10 replay={path}")
        return 1
    return 0
