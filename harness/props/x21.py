"""X21 (growth) — life cycle of the virtual ECU's line server (TCP / unix `run()`, handle_client).

spec   : spec/VecuServeContract.tla (S1..S4), spec/VecuServe.tla (design after the repair; Dev_AsFound = the tree as
         found: connections never closed by the server, run() cannot be stopped, ZeroDivisionError for a connection
         without requests -- negative control)
binding: spec -> code: every scenario TLC enumerates (Connect / Request / Close of up to three clients, then Stop) is
         executed against the REAL server on real unix and tcp sockets (real event loop, real asyncio.Server);
         code -> spec: the recorded events (reply arrived? run() returned after cancel()? clients saw end-of-stream?
         unhandled exceptions?) are judged by TLC (Trace_VecuServe).
"""

from __future__ import annotations

import asyncio
import json
import os
import shutil
import socket
import tempfile
from typing import Any

from gallia.services.uds.server import RandomUDSServer, TCPUDSServerTransport, UnixUDSServerTransport
from gallia.transports import TargetURI

from harness import tlc
from harness.common import Machinery, Report, quiet_gallia_logging

REPLY_S, STOP_S, EOF_S = 3.0, 2.0, 1.5


def scenarios_of(res: Any) -> list[list[tuple[str, int]]]:
    out, seen = [], set()
    for p in res.prints:
        if isinstance(p, list) and len(p) == 2 and p[0] == "S":
            acts = [(a[0], int(a[1])) for a in p[1] if a[0] in ("Connect", "Request", "Close")]
            k = json.dumps(acts)
            if k not in seen:
                seen.add(k)
                out.append(acts)
    return out


async def run_scenario(kind: str, acts: list[tuple[str, int]], tmp: str, n: int) -> dict[str, Any]:
    srv = RandomUDSServer(1)
    await srv.setup()
    if kind == "unix":
        path = os.path.join(tmp, f"s{n}.sock")
        tr: Any = UnixUDSServerTransport(srv, TargetURI(f"unix-lines://{path}"))

        async def connect() -> Any:
            return await asyncio.open_unix_connection(path)
    else:
        s = socket.socket()
        s.bind(("127.0.0.1", 0))
        port = s.getsockname()[1]
        s.close()
        tr = TCPUDSServerTransport(srv, TargetURI(f"tcp-lines://127.0.0.1:{port}"))

        async def connect() -> Any:
            return await asyncio.open_connection("127.0.0.1", port)

    excs: list[str] = []
    orig = tr.handle_client

    async def watched(r: Any, w: Any) -> None:
        try:
            await orig(r, w)
        except asyncio.CancelledError:
            raise
        except BaseException as e:  # noqa: BLE001  (what asyncio would report as unhandled in client_connected_cb)
            excs.append(repr(e)[:120])

    tr.handle_client = watched
    task = asyncio.ensure_future(tr.run())
    ev: list[dict[str, Any]] = []
    conns: dict[int, tuple[asyncio.StreamReader, asyncio.StreamWriter]] = {}
    try:
        for _ in range(200):  # wait for the listener
            try:
                r, w = await connect()
                w.close()
                break
            except (ConnectionError, FileNotFoundError):
                await asyncio.sleep(0.01)
        else:
            raise Machinery("server did not start listening")
        await asyncio.sleep(0.02)
        excs.clear()  # the probe connection above (no request) is not part of the scenario
        for a, c in acts:
            if a == "Connect":
                conns[c] = await connect()
                await asyncio.sleep(0.01)
                ev.append({"e": "Connect", "c": c})
            elif a == "Request":
                r, w = conns[c]
                ok = False
                try:
                    w.write(b"3e00\n")
                    await w.drain()
                    ok = (await asyncio.wait_for(r.readline(), REPLY_S)).strip() == b"7e00"
                except (ConnectionError, asyncio.TimeoutError):
                    ok = False
                ev.append({"e": "Request", "c": c, "ok": ok})
            elif a == "Close":
                r, w = conns.pop(c)
                w.close()
                try:
                    await asyncio.wait_for(w.wait_closed(), 1.0)
                except Exception:  # noqa: BLE001
                    pass
                await asyncio.sleep(0.03)
                ev.append({"e": "Close", "c": c})
        task.cancel()
        done, _pend = await asyncio.wait([task], timeout=STOP_S)
        ev.append({"e": "Stop", "ended": bool(done)})
        still = []
        for c, (r, w) in sorted(conns.items()):
            try:
                eof = (await asyncio.wait_for(r.read(1), EOF_S)) == b""
            except asyncio.TimeoutError:
                eof = False
            except ConnectionError:
                eof = True
            if not eof:
                still.append(c)
        ev.append({"e": "Final", "open": still, "excs": len(excs)})
    finally:
        for r, w in conns.values():
            w.close()
        if not task.done():
            task.cancel()
    return {"kind": kind, "acts": [list(a) for a in acts], "ev": ev, "excs": excs}


def execute(jobs: list[tuple[str, list[tuple[str, int]]]]) -> list[dict[str, Any]]:
    tmp = tempfile.mkdtemp(prefix="x21-")

    async def main() -> list[dict[str, Any]]:
        loop = asyncio.get_running_loop()
        loop.set_exception_handler(lambda lp, ctx: None)  # counted per scenario by `watched`
        sem = asyncio.Semaphore(24)

        async def one(i: int, kind: str, acts: list[tuple[str, int]]) -> dict[str, Any]:
            async with sem:
                return await run_scenario(kind, acts, tmp, i)

        return list(await asyncio.gather(*(one(i, k, a) for i, (k, a) in enumerate(jobs))))

    try:
        return asyncio.run(main())
    finally:
        shutil.rmtree(tmp, ignore_errors=True)


def validate(traces: list[dict[str, Any]]) -> dict[int, str]:
    res = tlc.validate_batch("Trace_VecuServe", "Trace_VecuServe.cfg",
                             {"traces": [{"id": i, "ev": t["ev"]} for i, t in enumerate(traces)]})
    v = {p[1]: p[2] for p in res.prints if isinstance(p, list) and len(p) == 3 and p[0] == "V"}
    if len(v) != len(traces):
        raise Machinery(f"Trace_VecuServe: {len(v)} verdicts for {len(traces)} traces\n{res.out[-1500:]}")
    validate.last = res  # type: ignore[attr-defined]
    return v


def run(tier: str, seed: int) -> Report:
    quiet_gallia_logging()
    rep = Report("X21", tier, seed)
    rep.rule = ("executions = one real UnixUDSServerTransport / TCPUDSServerTransport .run() per scenario on real "
                "sockets; scenario = every sequence of Connect / Request / Close over the clients that TLC enumerates "
                "(bounded length), followed by cancelling run(); non-trivial = at least one client connected")
    rep.assumptions = ["growth item, not a listed property (growth/X21.json)",
                       "deadlines in real time: reply 3 s, run() returns 2 s after cancel(), end-of-stream 1.5 s",
                       "the ECU behind the server is RandomUDSServer(1); only TesterPresent (3E 00 -> 7E 00) is sent"]
    cfg = "ok" if tier == "quick" else "big"
    res = tlc.run_tlc("MC_VecuServe", f"MC_VecuServe_{cfg}.cfg", workers=1, timeout=900)
    rep.add_tlc(res, f"MC_VecuServe_{cfg}")
    if not res.ok:
        rep.violate(f"design/{res.violated}", {"cfg": cfg}, {"cex": res.cex[-4:]})
    neg = tlc.run_tlc("MC_VecuServe", "MC_VecuServe_dev.cfg", workers=1, timeout=300, parse_prints=False)
    rep.add_tlc(neg, "MC_VecuServe_dev (negative control: the tree as found)")
    if neg.violated not in ("ContractHolds", "StopEnds"):
        raise Machinery(f"negative control did not violate (got {neg.violated})")
    scns = scenarios_of(res)
    if len(scns) < 50:
        raise Machinery(f"only {len(scns)} scenarios exported")
    jobs = [("unix", s) for s in scns] + [("tcp", s) for i, s in enumerate(scns) if tier != "quick" or i % 3 == 0]
    traces = execute(jobs)
    verd = validate(traces)
    rep.add_tlc(validate.last, "Trace_VecuServe batch")  # type: ignore[attr-defined]
    rep.traces = rep.evaluations = len(traces)
    rep.extra["tlc_scenarios"] = len(scns)
    rep.extra["spec_to_code_replayed"] = len(jobs)
    for i, t in enumerate(traces):
        if any(a[0] == "Connect" for a in t["acts"]):
            rep.nontrivial.add(json.dumps([t["kind"], t["acts"]]))
        if verd[i] != "ok":
            acts = [a[0] for a in t["acts"]]
            rep.violate(verd[i], {"kind": t["kind"], "client_connected_at_stop": acts.count("Connect") > acts.count("Close"),
                                  "client_left_without_request": any(
                                      a == "Close" and not any(b == ["Request", c] for b in t["acts"])
                                      for a, c in t["acts"])},
                        {"scenario": t["acts"], "events": t["ev"], "exceptions": t["excs"], "transport": t["kind"]})
    for t in traces[1:3] + traces[-2:]:
        rep.sample({"kind": t["kind"], "scenario": t["acts"], "events": t["ev"]})
    rep.exhaustive = True
    rep.extra["exhaustive_space"] = f"every behaviour of spec/VecuServe.tla under MC_VecuServe_{cfg}.cfg"
    # binding self-test
    good = next((t for i, t in enumerate(traces) if verd[i] == "ok" and any(e["e"] == "Request" for e in t["ev"])), None)
    if good is not None:
        muts = []
        for f in ("ok", "ended", "open", "excs"):
            m = json.loads(json.dumps(good))
            for e in m["ev"]:
                if f == "ok" and e["e"] == "Request":
                    e["ok"] = False
                if f == "ended" and e["e"] == "Stop":
                    e["ended"] = False
                if f == "open" and e["e"] == "Final":
                    e["open"] = [1]
                if f == "excs" and e["e"] == "Final":
                    e["excs"] = 1
            muts.append(m)
        mv = validate(muts)
        if any(x == "ok" for x in mv.values()):
            raise Machinery(f"binding self-test: corrupted traces accepted: {mv}")
        rep.extra["binding_selftest"] = {"corrupted_rejected": sorted(set(mv.values()))}
    elif not rep.violations:
        raise Machinery("no accepted trace with a request for the binding self-test")
    return rep


def replay(path: str) -> int:
    quiet_gallia_logging()
    data = json.loads(open(path).read())
    jobs = [(v["detail"]["transport"], [tuple(a) for a in v["detail"]["scenario"]]) for v in data["violations"]
            if "scenario" in v["detail"]]
    traces = execute(jobs[:40])
    verd = validate(traces) if traces else {}
    bad = 0
    for i, t in enumerate(traces):
        print(f"replay {t['kind']} {t['acts']} verdict={verd[i]}")
        bad += verd[i] != "ok"
    if bad:
        print(f"VIOLATION property=X21 replay={path}")
        return 1
    return 0
