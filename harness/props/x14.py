"""X14 (growth) -- `gallia discover uds isotp`: idle traffic is sniffed and never reported; every id of the range gets
the ISO-TP single frame of --pdu (padding, extended addressing); exactly the ids answered from one other CAN id within
--timeout are reported once, with the pair that was on the wire, as isotp:// URIs that read back; broadcast ids and
answers left over from earlier probes are not; the scan terminates; --query sends RDBI(info DID) to every endpoint.
Pure helpers bound as well: CANMessage.pack / unpack (struct can_frame / canfd_frame), can_id_repr, the validator.

spec   : spec/IsotpDiscoverContract.tla (P1..P3 probing, I1 idle, F1..F3 found, B1 broadcast, E1/D1 sinks, U1 URIs,
         Q1 query, T0, C1 validator, K1..K3 helpers), spec/IsotpDiscover.tla (design: one action per await point of
         main(), timed bus; deviations Dev_F1..F3 = the tree as found + five more), spec/MC_IsotpDiscover_*.cfg,
         spec/Trace_IsotpDiscover.tla
binding: the REAL IsotpDiscoverer.main() over the REAL RawCANTransport / ISOTPTransport / UDSClient; only the kernel is
         replaced (harness/x14_run.py: the name `s` of gallia.transports.can / .isotp hands out AF_UNIX datagram socket
         pairs whose other end is an in-memory CAN bus with the Linux filter semantics, scripted ECUs, cyclic nodes);
         virtual time.   code -> spec: every execution validated by TLC (total verdict);
         spec -> code: the environments TLC enumerates for the design layer (behaviour per id x addressing x cyclic
         node) are replayed into the real scanner, a different set of reported pairs = drift.
"""

from __future__ import annotations

import hashlib
import json
import multiprocessing as mp
import os
from concurrent.futures import ThreadPoolExecutor
from typing import Any

from harness import tlc
from harness import x14_cases as cs
from harness.common import Machinery, Report, quiet_gallia_logging
from harness.x14_run import run_case

NPROC = max(2, min(8, (os.cpu_count() or 4) - 2))
MODULE = "MC_IsotpDiscover"
NEG = {
    "asfound": {"Inv_F2_Complete", "Inv_F3_NoStale"},
    "devF1": {"Inv_F2_Complete"},
    "devF2": {"Inv_F2_Complete"},
    "devF3": {"Inv_F3_NoStale"},
    "devNoFilter": {"Inv_I1_Idle"},
    "devReportBroadcast": {"Inv_B1_Broadcast"},
    "devSkipLast": {"Inv_P1_EveryIdProbed"},
    "devNoPadding": {"Inv_P2_Configured"},
    "devReportPerFrame": {"Inv_E1_Once"},
}
DESIGN_ACTIONS = ("Sniff", "Pick", "Drain", "Send", "Recv1", "Flush", "Report")
SMALL_JVM = {"JAVA_TOOL_OPTIONS": "-XX:TieredStopAtLevel=1 -XX:ParallelGCThreads=2 -XX:CICompilerCount=1"}
SELF = 1_000_000


# ------------------------------------------------------------------ model checking
def start_tlc_jobs(tier: str, pool: ThreadPoolExecutor) -> dict[str, Any]:
    thorough = tier == "thorough"
    mc = [("a2", True), ("a2pad", False)] + ([("c3", False), ("a3", False), ("t4", False)] if thorough else [])
    exp = ["export2", "export3"] if thorough else ["export2"]
    jobs: dict[str, Any] = {}
    for c, cov in mc:
        jobs[c] = pool.submit(tlc.run_tlc, MODULE, f"{MODULE}_{c}.cfg", timeout=3000, coverage=cov,
                              workers=4 if c in ("a3", "c3") else 2)
    for c in NEG:
        jobs[c] = pool.submit(tlc.run_tlc, MODULE, f"{MODULE}_{c}.cfg", timeout=900, workers=1, env=SMALL_JVM)
    for c in exp:
        jobs[c] = pool.submit(tlc.run_tlc, MODULE, f"{MODULE}_{c}.cfg", timeout=3000, workers=1)
    return {"jobs": jobs, "mc": mc, "exp": exp}


def model_check(rep: Report, tj: dict[str, Any]) -> None:
    cover: dict[str, int] = {}
    for c, cov in tj["mc"]:
        res = tj["jobs"][c].result()
        rep.add_tlc(res, f"{MODULE}_{c}")
        if not res.ok:
            rep.violate(f"design/{res.violated}", {"where": "IsotpDiscover design layer", "cfg": c}, {"cex": res.cex[-10:]})
        if cov:
            for a, (n, _d) in res.coverage.items():
                if a in DESIGN_ACTIONS:
                    cover[a] = cover.get(a, 0) + n
    never = [a for a in DESIGN_ACTIONS if cover.get(a, 0) == 0]
    if never:
        raise Machinery(f"design actions never taken in the coverage run: {never}")
    rep.extra["design_action_coverage"] = cover
    for c, want in NEG.items():
        res = tj["jobs"][c].result()
        rep.add_tlc(res, f"{MODULE}_{c} (negative control)")
        if res.violated not in want:
            raise Machinery(f"negative control {MODULE}_{c} did not violate {sorted(want)} (got {res.violated}): "
                            "the contract is vacuous there")
    rep.extra["negative_controls"] = sorted(NEG)


# ------------------------------------------------------------------ real executions
def run_cases(cases: list[dict[str, Any]]) -> list[dict[str, Any]]:
    if not cases:
        return []
    ctx = mp.get_context("fork")
    with ctx.Pool(NPROC) as pool:
        return pool.map(run_case, cases, chunksize=16)


def slim(t: dict[str, Any]) -> dict[str, Any]:
    return {k: v for k, v in t.items() if k != "origin"}


def validate(traces: list[dict[str, Any]], rep: Report | None) -> tuple[dict[int, str], dict[int, int]]:
    chunks: list[list[dict[str, Any]]] = []
    cur: list[dict[str, Any]] = []
    w = 0
    for t in traces:
        cur.append(slim(t))
        w += 1 + (len(t.get("probes", [])) if t["kind"] == "scan" else 0)
        if w >= 1200:
            chunks.append(cur)
            cur, w = [], 0
    if cur:
        chunks.append(cur)

    def one(sub: list[dict[str, Any]]) -> Any:
        return tlc.validate_batch("Trace_IsotpDiscover", "Trace_IsotpDiscover.cfg", {"traces": sub}, timeout=1800,
                                  heap="2g", env={"JAVA_TOOL_OPTIONS": "-Xss64m -XX:ParallelGCThreads=2"})

    with ThreadPoolExecutor(max_workers=6) as ex:
        results = list(ex.map(one, chunks))
    verdicts: dict[int, str] = {}
    unspec: dict[int, int] = {}
    for res in results:
        if rep is not None:
            rep.add_tlc(res, "Trace_IsotpDiscover batch")
        for p in res.prints:
            if isinstance(p, list) and len(p) == 3 and p[0] == "V":
                verdicts[p[1]] = p[2]
            elif isinstance(p, list) and len(p) == 3 and p[0] == "U":
                unspec[p[1]] = p[2]
    missing = [t["id"] for t in traces if t["id"] not in verdicts]
    if missing:
        raise Machinery(f"TLC produced no verdict for {len(missing)} traces (first id {missing[0]}):\n{results[-1].out[-3000:]}")
    return verdicts, unspec


# ------------------------------------------------------------------ spec -> code
def _pairs_of_design(found: Any) -> list[tuple[int, int]]:
    return sorted((int(p["id"]), int(p["dst"])) for p in found)


def _pairs_of_code(t: dict[str, Any]) -> list[tuple[int, int]]:
    ext = t["cfg"]["ext"]
    return sorted(((u["ea"] if ext else u["src"]), u["dst"]) for u in t["file"])


def design_cases(rep: Report, tj: dict[str, Any]) -> list[tuple[dict[str, Any], list[tuple[int, int]]]]:
    out: dict[str, tuple[dict[str, Any], list[tuple[int, int]]]] = {}
    for cfg in tj["exp"]:
        res = tj["jobs"][cfg].result()
        rep.add_tlc(res, f"{MODULE}_{cfg} (case export, all clause invariants)")
        if not res.ok:
            rep.violate(f"design/{res.violated}", {"where": "IsotpDiscover design layer", "cfg": cfg}, {"cex": res.cex[-10:]})
        for p in res.prints:
            if isinstance(p, list) and len(p) == 5 and p[0] == "C":
                beh = tuple(v for _k, v in sorted(p[1]["$fn"])) if isinstance(p[1], dict) else tuple(p[1])
                case = cs.design_case(beh, bool(p[2]), bool(p[3]))
                out[case["origin"]] = (case, _pairs_of_design(p[4]))
    if not out:
        raise Machinery("MC_IsotpDiscover export produced no cases")
    return list(out.values())


# ------------------------------------------------------------------ evidence helpers
def digest(case: dict[str, Any]) -> str:
    c = {k: v for k, v in case.items() if k != "origin"}
    return hashlib.sha1(json.dumps(c, sort_keys=True).encode()).hexdigest()[:16]


def nontrivial(t: dict[str, Any]) -> bool:
    if t["kind"] != "scan":
        return t["kind"] == "pack"
    return bool(t["seen"]) or any(p["an"] or p["dl"] for p in t["probes"])


def family(case: dict[str, Any]) -> str:
    return str(case.get("origin", "?")).split("[", 1)[0]


def sig_of(case: dict[str, Any], t: dict[str, Any]) -> dict[str, Any]:
    """Input class of the failing case (never a judgement)."""
    if t["kind"] != "scan":
        return {"unit": {"pack": "CANMessage", "repr": "can_id_repr", "cfgcheck": "IsotpDiscovererConfig"}[t["kind"]]}
    ext = bool(t["cfg"]["ext"])
    tmo = t["cfg"]["timeout"]
    first = [p["an"][0]["dt"] for p in t["probes"] if p["an"]]
    return {"unit": "IsotpDiscoverer", "family": family(case), "extended_addr": ext,
            "an_answer_between_100ms_and_timeout": any(100 <= d < tmo for d in first),
            "frames_queued_when_a_probe_is_sent": any(p["pend"] > 0 for p in t["probes"]),
            "answer_on_can_id_equal_to_swept_value": ext and any(a["a"] == p["d"][0] for p in t["probes"] if p["d"]
                                                                 for a in p["an"])}


def build_cases(tier: str, seed: int) -> list[dict[str, Any]]:
    cases: list[dict[str, Any]] = []
    cases.append(baseline_case())                      # cases[0]: base of the binding self-test
    cases.append(baseline_broadcast())                 # cases[1]
    cases += cs.fam_answers(tier)
    cases += cs.fam_timing(tier)
    cases += cs.fam_idle(tier)
    cases += cs.fam_broadcast(tier)
    cases += cs.fam_echo(tier)
    cases += cs.fam_config(tier)
    cases += cs.fam_query(tier)
    cases += cs.fam_random(tier, seed)
    cases += cs.pure_cases(tier, seed)
    return cases


def baseline_case() -> dict[str, Any]:
    c = cs.base_case(0x7E0, 0x7E4, pad=0xAA, query=True, sniff=1, origin="baseline")
    cs.bg(c)
    cs.ecu(c, 0x7E1, 0x7E9, [(10, "pos")], did={"resp": "62f1974142", "dt": 5})
    cs.ecu(c, 0x7E3, 0x7EB, [(20, "neg11"), (30, "cf")], did={"resp": "7f2231", "dt": 5})
    return c


def baseline_broadcast() -> dict[str, Any]:
    c = cs.base_case(0x7DF, 0x7E1, sniff=0, origin="baseline-broadcast")
    cs.ecu(c, 0x7DF, 0x7E8, [(10, "pos")])
    cs.ecu(c, 0x7DF, 0x7E9, [(12, "pos")])
    cs.ecu(c, 0x7E0, 0x7E8, [(10, "pos")])
    return c


def run(tier: str, seed: int) -> Report:
    quiet_gallia_logging()
    rep = Report("X14", tier, seed)
    rep.rule = ("executions = complete runs of the real IsotpDiscoverer.main() on one scripted bus, plus single calls of "
                "CANMessage.pack/unpack, can_id_repr and the configuration validator; evaluations = probes judged by TLC "
                "(one window per probe) + helper calls; distinct = distinct case descriptions; non-trivial = the bus "
                "carried idle traffic or at least one probe was answered (scans), every pack/unpack case")
    rep.assumptions = [
        "growth item, not a listed property: statement in growth/X14.json, sources listed in spec/IsotpDiscoverContract.tla",
        "the sandbox has no CAN support (socket(PF_CAN) fails with 'Address family not supported by protocol'): inside "
        "gallia.transports.can and gallia.transports.isotp the name `s` (the socket module) is bound to a stand-in whose "
        "socket() returns one end of an AF_UNIX datagram socket pair (bind / setsockopt intercepted); the other end is "
        "an in-memory CAN bus (harness/x14_run.py) that implements struct can_frame / canfd_frame, CAN_RAW_FILTER with "
        "CAN_INV_FILTER and CAN_RAW_JOIN_FILTERS as linux/net/can does, no loop-back of own frames, and serves ISO-TP "
        "sockets on PDU level (bind((interface, rx, tx)), CAN_ISOTP_OPTS decoded); all of RawCANTransport, CANMessage, "
        "ISOTPTransport.connect/_setsockopts/write/read, UDSClient and IsotpDiscoverer run unmodified",
        "time.time() inside gallia.transports.can (get_idle_traffic) reads the virtual clock of harness.vloop",
        "main() is called directly on an IsotpDiscoverer with artifacts_dir / db_handler set by the harness (Scanner.setup "
        "would open a second, unused can-raw socket; the database is a recording stand-in for DBHandler)",
        "frames are delivered to the scanner's socket at scripted virtual times; a frame is 'read while waiting' when "
        "the loop.sock_recv() call that returned it had been started before the frame was queued (loop.sock_recv is "
        "wrapped for this observation only)",
        "buses are homogeneous (all identifiers 11 bit or all 29 bit as the target URI says); sendto() never fails "
        "(no ENOBUFS / bus-off)",
        "a run still going after 300 virtual seconds is recorded as 'hang'",
    ]
    with ThreadPoolExecutor(max_workers=8) as pool:
        tj = start_tlc_jobs(tier, pool)
        cases = build_cases(tier, seed)
        model_check(rep, tj)
        sims = design_cases(rep, tj)
    want: dict[int, list[tuple[int, int]]] = {}
    for case, pairs in sims:
        want[len(cases)] = pairs
        cases.append(case)
    traces = run_cases(cases)
    for i, t in enumerate(traces):
        t["id"] = i
    probes = self_probes(traces, cases)
    verdicts, unspec = validate(traces + [p[1] for p in probes], rep)
    # spec -> code
    ndrift = 0
    for i, pairs in want.items():
        t = traces[i]
        got = _pairs_of_code(t)
        if t["done"] != "ok" or got != pairs:
            ndrift += 1
            rep.drift.append({"origin": cases[i]["origin"], "design": pairs, "code": [t["done"], got]})
    rep.extra["spec_to_code_replayed"] = len(want)
    rep.extra["spec_to_code_drift"] = ndrift
    # code -> spec
    rep.traces = sum(1 for t in traces if t["kind"] == "scan")
    rep.evaluations = sum(len(t["probes"]) if t["kind"] == "scan" else 1 for t in traces)
    kinds: dict[str, int] = {}
    fams: dict[str, int] = {}
    dones: dict[str, int] = {}
    for i, t in enumerate(traces):
        kinds[t["kind"]] = kinds.get(t["kind"], 0) + 1
        if t["kind"] == "scan":
            fams[family(cases[i])] = fams.get(family(cases[i]), 0) + 1
            dones[t["done"]] = dones.get(t["done"], 0) + 1
        if nontrivial(t):
            rep.nontrivial.add(digest(cases[i]))
        v = verdicts[i]
        if v.startswith("M0/"):
            raise Machinery(f"trace of unknown kind: {cases[i].get('origin')}")
        if v != "ok":
            detail: dict[str, Any] = {"case": cases[i]}
            if t["kind"] == "scan":
                detail["reported"] = _pairs_of_code(t)
                detail["done"] = t["done"]
                detail["answers"] = [[p["can"], p["d"][:3], p["an"]] for p in t["probes"] if p["an"]][:6]
            else:
                detail["trace"] = {k: x for k, x in t.items() if k not in ("origin",)}
            rep.violate(v, sig_of(cases[i], t), detail)
    rep.extra["executions_by_kind"] = kinds
    rep.extra["scans_by_family"] = fams
    rep.extra["scans_by_outcome"] = dones
    rep.extra["unspecified"] = {
        "answered probe windows the sources do not decide (late answers, answers on the probe's own CAN id, traffic the "
        "sniffing could not know, frames left over from an earlier probe, ids of the idle traffic, --pdu too long)":
            sum(unspec.get(i, 0) for i in range(len(traces))),
        "scans that never end because a node keeps sending frames the deny filter does not know (flush loop `while "
        "True`, see findings/X14-N1)": sum(1 for i, t in enumerate(traces) if t["kind"] == "scan" and t["done"] == "hang"
                                           and verdicts[i] == "ok"),
        "ISO-TP sockets opened by --query and never closed (not judged)":
            sum(1 for t in traces if t["kind"] == "scan" for _q in t["q"]),
    }
    for i in (0, 1, len(traces) // 7, 2 * len(traces) // 7, 3 * len(traces) // 7):
        t = traces[i]
        if t["kind"] == "scan":
            rep.sample({"origin": cases[i]["origin"], "verdict": verdicts[i], "done": t["done"], "idle": t["idle"],
                        "probes": [[p["can"], bytes(p["d"]).hex(), [(a["a"], a["dt"]) for a in p["an"]]] for p in t["probes"]][:5],
                        "reported": _pairs_of_code(t)})
        else:
            rep.sample({"origin": cases[i]["origin"], "verdict": verdicts[i]})
    rep.exhaustive = True
    rep.extra["exhaustive_spaces"] = (
        "model: every assignment of the 14 behaviours to 2 ids"
        + (" / of the 10 core behaviours to 3 ids / of all 14 to 3 ids / of 7 to 4 ids" if tier == "thorough" else "")
        + " x normal / extended addressing x cyclic node present or not; real code: the same assignments replayed ("
        + ("2 and 3 ids" if tier == "thorough" else "2 ids")
        + "), every kind of answer frame (14) x addressing x padding x payload, the listed delay x --timeout x --sleep "
        "grid, every pair of info-DID answers (6 x 6) x addressing; bus timing in general, idle traffic and the seeded "
        "family: samples")
    rep.extra["design_layer_not_vacuous"] = "every action of IsotpDiscover is taken (TLC -coverage on MC_IsotpDiscover_a2)"
    check_self_probes(rep, probes, verdicts)
    return rep


# ------------------------------------------------------------------ binding self-test
def self_probes(traces: list[dict[str, Any]], cases: list[dict[str, Any]]) -> list[tuple[str, dict[str, Any], str]]:
    """Corruptions of two accepted executions (cases[0], cases[1]) and of helper calls + one mutant of the bus fake.
    A corruption whose anchor is missing in the recorded execution (a tree that behaves differently) is left out; the
    caller insists on a minimum number."""
    def clone(t: dict[str, Any]) -> dict[str, Any]:
        return json.loads(json.dumps(t))

    base, bcast = traces[0], traces[1]
    out: list[tuple[str, dict[str, Any], str]] = []

    def win(t: dict[str, Any], can: int) -> int:
        return next(i for i, p in enumerate(t["probes"]) if p["can"] == can)

    def add(what: str, want: str, fn: Any, src: dict[str, Any] = base) -> None:
        try:
            t = clone(src)
            fn(t)
            out.append((what, t, want))
        except (IndexError, KeyError, StopIteration, TypeError):
            pass

    def no_query(t: dict[str, Any]) -> None:
        t["cfg"]["query"] = False
        t["q"] = []

    def m_drop(t: dict[str, Any]) -> None:
        del t["file"][0]

    def m_ghost(t: dict[str, Any]) -> None:
        g = dict(t["file"][0])
        g["src"], g["dst"] = 0x7E2, 0x7EA
        t["file"].append(g)
        t["db"].append(dict(g))
        no_query(t)

    def m_pci(t: dict[str, Any]) -> None:
        t["probes"][win(t, 0x7E2)]["d"][0] ^= 1

    def m_pad(t: dict[str, Any]) -> None:
        t["probes"][win(t, 0x7E2)]["d"][7] = 0x55

    def m_notprobed(t: dict[str, Any]) -> None:
        t["probes"] = [p for p in t["probes"] if p["can"] != 0x7E4]

    def m_order(t: dict[str, Any]) -> None:
        i, j = win(t, 0x7E2), win(t, 0x7E4)
        t["probes"][i], t["probes"][j] = t["probes"][j], t["probes"][i]

    def m_host(t: dict[str, Any]) -> None:
        t["file"][0]["host"] = "can9"

    def m_txpad(t: dict[str, Any]) -> None:
        t["file"][0]["txpad"] = -1

    def m_idle(t: dict[str, Any]) -> None:
        g = dict(t["file"][0])
        g["dst"] = t["idle"][0]
        t["probes"][win(t, g["src"])]["rd"].append({"a": g["dst"], "c": 0, "b0": 0, "tdl": 3, "w": True})
        t["file"].append(g)
        t["db"].append(dict(g))
        no_query(t)

    def m_stale(t: dict[str, Any]) -> None:
        rd = t["probes"][win(t, 0x7E3)]["rd"]
        if not rd:
            raise IndexError
        for r in rd:
            r["c"], r["tdl"] = 1, -4

    def m_twice(t: dict[str, Any]) -> None:
        t["file"].append(dict(t["file"][0]))
        t["db"].append(dict(t["db"][0]))
        no_query(t)

    def m_dborder(t: dict[str, Any]) -> None:
        if len(t["db"]) < 2:
            raise IndexError
        t["db"] = list(reversed(t["db"]))

    def m_did(t: dict[str, Any]) -> None:
        t["q"][1]["pdus"][0][2] ^= 1

    def m_bind(t: dict[str, Any]) -> None:
        t["q"][0]["src"], t["q"][0]["dst"] = t["q"][0]["dst"], t["q"][0]["src"]

    def m_hang(t: dict[str, Any]) -> None:
        t["done"] = "hang"

    def m_exc(t: dict[str, Any]) -> None:
        t["done"] = "exc"

    def m_bcast(t: dict[str, Any]) -> None:
        if len({r["a"] for r in t["probes"][win(t, 0x7DF)]["rd"] if r["w"]}) < 2:
            raise IndexError
        g = dict(t["file"][0])
        g["src"], g["dst"] = 0x7DF, 0x7E8
        t["file"].insert(0, g)
        t["db"].insert(0, dict(g))

    if base["kind"] == "scan":
        add("found endpoint dropped from ECUs.txt", "F2/", m_drop)
        add("endpoint invented (nothing on the wire)", "F1/", m_ghost)
        add("PCI byte of one probe changed", "P2/", m_pci)
        add("last padding byte of one probe changed", "P2/", m_pad)
        add("last id not probed", "P1/", m_notprobed)
        add("probe order changed", "P3/", m_order)
        add("interface in one URI changed", "U1/", m_host)
        add("tx_padding missing in one URI", "U1/", m_txpad)
        add("id of the idle traffic reported", "I1/", m_idle)
        add("reported answer had been queued before its probe was sent (answer to an earlier probe)", "F3/", m_stale)
        add("endpoint reported twice", "E1/", m_twice)
        add("database holds the lines in another order", "D1/", m_dborder)
        add("info DID of one query changed", "Q1/", m_did)
        add("query socket bound with rx / tx swapped", "Q1/", m_bind)
        add("scan recorded as hanging", "T0/", m_hang)
        add("scan recorded as aborted", "T0/", m_exc)
    if bcast["kind"] == "scan":
        add("broadcast id reported as endpoint", "B1/", m_bcast, bcast)
    # pure helpers
    def m_len(t: dict[str, Any]) -> None:
        t["packed"][4] ^= 1

    def m_eff(t: dict[str, Any]) -> None:
        t["packed"][3 if t["le"] else 0] ^= 0x80

    def m_undata(t: dict[str, Any]) -> None:
        t["un"]["d"][0] ^= 1

    def m_digit(t: dict[str, Any]) -> None:
        t["digits"][-1] ^= 1

    def m_acc(t: dict[str, Any]) -> None:
        t["accepted"] = True

    pk = next((x for x in traces if x["kind"] == "pack" and x["d"] and not x["fd"] and x["packok"] and x["un"]["d"]), None)
    if pk is not None:
        add("length byte of a packed frame changed", "K1/", m_len, pk)
        add("EFF flag of a packed frame flipped", "K1/", m_eff, pk)
        add("unpacked data changed", "K2/", m_undata, pk)
    rp = next((x for x in traces if x["kind"] == "repr" and x["digits"] and all(0 <= d <= 15 for d in x["digits"])), None)
    if rp is not None:
        add("one digit of can_id_repr changed", "K3/", m_digit, rp)
    cf = next((x for x in traces if x["kind"] == "cfgcheck" and not x["accepted"]), None)
    if cf is not None:
        add("rejected configuration recorded as accepted", "C1/", m_acc, cf)
    # a mutant of the harness's own bus: it delivers another CAN id than it records
    m = run_case(cases[0], mutant="bus-delivers-other-id")
    out.append(("bus fake that delivers another CAN id than it logs", m, "F1/"))
    for n, (_w, tr, _v) in enumerate(out):
        tr["id"] = SELF + n
    return out


def check_self_probes(rep: Report, probes: list[tuple[str, dict[str, Any], str]], verdicts: dict[int, str]) -> None:
    if verdicts.get(0) != "ok" or verdicts.get(1) != "ok":
        if rep.violations:
            rep.extra["binding_selftest"] = (f"skipped: baseline executions rejected ({verdicts.get(0)}, {verdicts.get(1)}), "
                                             "violations reported")
            return
        raise Machinery(f"binding self-test: baseline executions rejected ({verdicts.get(0)}, {verdicts.get(1)}) "
                        "without a violation")
    got = {what: verdicts.get(SELF + n) for n, (what, _t, _v) in enumerate(probes)}
    wrong = [what for n, (what, _t, want) in enumerate(probes) if not str(verdicts.get(SELF + n)).startswith(want)]
    if wrong and rep.violations:
        rep.extra["binding_selftest_not_as_expected_on_a_violating_tree"] = wrong
    elif wrong:
        raise Machinery(f"binding self-test: corrupted traces / fake mutant not judged as expected: {wrong}: {got}")
    if len(probes) < 20 and not rep.violations:
        raise Machinery(f"binding self-test: only {len(probes)} corruptions could be built")
    rep.extra["binding_selftest"] = got


def replay(path: str) -> int:
    quiet_gallia_logging()
    data = json.loads(open(path).read())
    bad = 0
    traces = []
    for n, v in enumerate(data["violations"]):
        case = v["detail"].get("case")
        if case is None:
            print(f"replay: violation {n} ({v['clause']}) is a design-layer counterexample: re-run ./check X14")
            bad += 1
            continue
        t = run_case(case)
        t["id"] = len(traces)
        traces.append(t)
    if traces:
        verdicts, _ = validate(traces, None)
        for t in traces:
            print(f"replay origin={t['origin']} verdict={verdicts[t['id']]}")
            bad += verdicts[t["id"]] != "ok"
    if bad:
        print(f"VIOLATION property=X14 replay={path}")
        return 1
    return 0
