"""C02 -- decoded UDS responses expose the received fields and re-encode to the same bytes.

spec   : spec/UdsLayoutContract.tla (ISO response layout table, Dec / registry, clauses R1..R3),
         spec/UdsLayout.tla (response cases x mutations, response pipeline, deviations S4..S7)
MC     : MC_UdsLayout, Side = "resp"; negative controls S4, S5, S6, S7
binding: code -> spec: UDSResponse.parse_dynamic(b) and <Response>.from_pdu(b) on
           (i)   every byte string of length 1..2 (quick) / 1..3 (thorough) for every response SID and 0x7F
                 (sweep tables checked for completeness by TLC),
           (ii)  every valid response TLC generates from the layout (boundary classes),
           (iii) their mutated neighbours (truncations, extensions, bit flips), random structured bytes;
           (iv)  the client-side decoder entry points, for the same clauses R1..R3: helpers.parse_pdu(b, request)
                 and UDSClient.request(request) on a scripted transport answering b (also behind a responsePending),
                 request = the request that b's valid base answers; b = valid responses and their extended
                 neighbours (1..8 trailing bytes: 00/55/AA/CC/FF/other constant fill, mixed tails); the object
                 handed out -- returned, or carried by the ResponseException (that is what ECU._request stores) --
                 is recorded like a parse_dynamic result;
         verdict class, exposed public attributes and .pdu validated by TLC (Trace_UdsLayoutResp).
         spec -> code: each exported response case is parsed once; a valid response that is not accepted
         as typed is DRIFT (the statement of C02 only speaks about accepted byte strings).
"""

from __future__ import annotations

import json
import random
from concurrent.futures import ThreadPoolExecutor
from typing import Any

from gallia.services.uds import helpers as H
from gallia.services.uds.core import service as S
from gallia.services.uds.core.client import UDSClient
from gallia.services.uds.core.exception import ResponseException

from harness import c01_run as R
from harness import vloop
from harness.c01_bind import ctor_kwargs, expose_response
from harness.common import Machinery, Report, quiet_gallia_logging
from harness.fakes import ScriptedTransport, ScriptEnv

RESP_ACTIONS = {"DispatchResp", "GateDecode"}


def sids_of(layout: dict[str, Any]) -> list[int]:
    return sorted({row[0]["v"] for row in layout.values()})


def sweep(sid: int, length: int, indices: Any) -> dict[str, Any]:
    """parse_dynamic on <<sid>> + every (length-1)-byte tail in `indices`; compact table + records."""
    codes: list[int] = []
    records: list[dict[str, Any]] = []
    nrej = 0
    for n in indices:
        b = bytes([sid]) + n.to_bytes(length - 1, "big")
        rec, _ = R.exec_response(b, None)
        if rec["v"] == "reject":
            codes.append(0)
            nrej += 1
        else:
            records.append(rec)
            codes.append(len(records))
    return {"sid": sid, "len": length, "codes": codes, "records": records, "rejected": nrej}


def sweep3(sid: int) -> dict[str, Any]:
    """All 65 536 three-byte strings of one SID: parse, let TLC validate table + records, keep a summary."""
    sw = sweep(sid, 3, range(65536))
    verdicts, lines, results = R.validate("Trace_UdsLayoutResp", [], [sw], jobs=1, workers=4)
    if len(lines) != 1 or lines[0][3] != "ok" or lines[0][4] != 65536 or lines[0][5] != len(sw["records"]):
        raise Machinery(f"sweep sid={sid:#x} len=3 not confirmed complete by TLC: {lines}")
    cnt = {"typed": 0, "raw": 0, "reject": sw["rejected"]}
    bad = []
    for j, r in enumerate(sw["records"]):
        cnt[r["v"]] += 1
        v = verdicts[sw["first_id"] + j]
        if v[2]:
            bad.append((r, v))
    return {"sid": sid, "classes": cnt, "bad": bad, "accepted": [bytes(r["b"]) for r in sw["records"]],
            "results": results}


def _repeated_dtc(b: bytes) -> bool:
    """Input classification for the known finding S6: a ReadDTCInformation list response (59 <sub> <mask>
    followed by 4-byte DTC+status records) that names the same 3-byte DTC in two records."""
    if len(b) < 11 or b[0] != 0x59:
        return False
    recs = [b[i:i + 3] for i in range(3, len(b) - 3, 4)]
    return len(set(recs)) < len(recs)


# ----------------------------------------------------------------------------- (iv) client-side entry points
VIA_NAMES = {"dyn": "parse_dynamic", "pdu": "helpers.parse_pdu", "client": "UDSClient.request",
             "client-pending": "UDSClient.request behind responsePending"}
FILL_BYTES = (0x00, 0x55, 0xAA, 0xCC, 0xFF)     # usual CAN / gateway fill bytes; any other constant is drawn per base
NRCS = (0x10, 0x11, 0x12, 0x13, 0x22, 0x31, 0x33, 0x7E, 0x7F, 0x21, 0x78)


def extended(b: bytes, rnd: random.Random, more: int = 1) -> list[bytes]:
    """Extended neighbours of a response: 1..8 trailing identical bytes (what a raw CAN bridge / line gateway that
    forwards the whole frame payload would append) and mixed tails."""
    out: list[bytes] = []
    fills = list(FILL_BYTES) + rnd.sample([x for x in range(1, 255) if x not in FILL_BYTES], more)
    for fill in fills:
        for n in range(1, 9):
            out.append(b + bytes([fill]) * n)
    for n in (1, 2, 3, 5, 8):
        out.append(b + bytes(rnd.randint(0, 255) for _ in range(n)))
        out.append(b + bytes(rnd.randint(0, 255) for _ in range(n - 1)) + bytes([rnd.choice(FILL_BYTES)]))
    return out


def matching_request(kind: str, f: dict[str, Any], req_classes: dict[str, type],
                     templates: dict[str, list[dict[str, Any]]]) -> Any | None:
    """A request object that the response (kind, fields f as TLC laid them out) answers: a constructible request
    of the same kind whose parameters take the values of the response's fields of the same name (identifier,
    sub-function, block counter, address / size / format ...).  Structural only: field NAMES of the two layout
    tables; whether it really matches is gallia's decision (a mismatch is a rejection, always allowed)."""
    if not isinstance(f, dict):         # a response without fields: TLC's empty record arrives as an empty list
        f = {}
    if kind == "NegativeResponse":
        for k, cls in sorted(req_classes.items()):
            if getattr(cls, "SERVICE_ID", None) == f["rsid"] and templates.get(k):
                try:
                    return cls(**ctor_kwargs(cls, k, templates[k][0]))
                except Exception:  # noqa: BLE001
                    continue
        return S.RawRequest(bytes([f["rsid"]]))
    if kind == "SecurityAccess":
        rk = "RequestSeed" if f.get("sf", 1) % 2 else "SendKey"
    else:
        rk = kind
    if rk not in req_classes:
        return None
    for t in templates.get(rk, [])[:8]:
        g = dict(t)
        for n, v in f.items():
            if n in g and type(g[n]) is type(v):
                g[n] = v
            elif n + "s" in g and isinstance(g[n + "s"], list) and isinstance(v, int):
                g[n + "s"] = [v]              # one identifier of the response = the request's identifier list
        if "alfid" in f and "alfid_auto" in g:
            g["alfid_auto"] = False
        if "size_auto" in g:
            g["size_auto"] = False
        try:
            return req_classes[rk](**ctor_kwargs(req_classes[rk], rk, g))
        except Machinery:
            raise
        except Exception:  # noqa: BLE001
            continue
    return None


def _record(o: Any, b: bytes) -> tuple[dict[str, Any], str]:
    """Trace record of the response object `o` some entry point handed out for the received bytes b."""
    rec: dict[str, Any] = {"b": list(b), "v": "reject", "dyn": True, "kind": "none", "f": {},
                           "re": {"ok": False, "b": []}, "valid": False}
    note = ""
    if not isinstance(o, S.UDSResponse):
        return rec, "no response object"
    if isinstance(o, S.RawResponse):
        rec["v"] = "raw"
    else:
        rec["v"] = "typed"
        rec["kind"], rec["f"] = expose_response(o)
    try:
        re_ = o.pdu
        if not isinstance(re_, (bytes, bytearray)):
            raise TypeError("pdu is not bytes")
        rec["re"] = {"ok": True, "b": list(re_)}
    except Exception as e:  # noqa: BLE001
        note = f"pdu raises {type(e).__name__}: {e}"[:100]
    return rec, note


def _handed_out(call: Any) -> tuple[Any, str]:
    """The response object a call hands to its caller: the return value, or the response travelling with a
    ResponseException (MalformedResponse / RequestResponseMismatch: ECU._request logs and stores exactly that one)."""
    try:
        return call(), ""
    except Machinery:
        raise
    except ResponseException as e:
        return getattr(e, "response", None), type(e).__name__
    except Exception as e:  # noqa: BLE001
        return None, f"{type(e).__name__}: {e}"[:100]


def exec_parse_pdu(b: bytes, request: Any) -> tuple[dict[str, Any], str]:
    """helpers.parse_pdu(b, request): the function through which UDSClient / ECU turn received bytes into an object."""
    o, how = _handed_out(lambda: H.parse_pdu(b, request))
    rec, note = _record(o, b)
    return rec, "; ".join(x for x in (how, note) if x)


class _ReplyEnv(ScriptEnv):
    """Peer that answers the next request with the queued messages, then stays silent."""

    def __init__(self) -> None:
        super().__init__()
        self.queue: list[bytes] = []

    def rec(self, **kw: Any) -> None:  # keep no log: thousands of calls
        return

    def on_read(self, timeout: float | None) -> tuple[str, bytes | None]:
        if self.queue:
            return "Reply", self.queue.pop(0)
        return "Timeout", None


def exec_client(cases: list[tuple[bytes, Any, bool]]) -> list[tuple[dict[str, Any], str]]:
    """For each (b, request, pending): UDSClient.request(request) against a peer answering b (behind one
    `7F sid 78` when `pending`); what the call hands out is recorded against the received bytes b."""
    out: list[tuple[dict[str, Any], str]] = []
    env = _ReplyEnv()

    async def go() -> None:
        cl = UDSClient(ScriptedTransport(env), timeout=1.0, max_retry=0)
        for b, request, pending in cases:
            env.queue = ([bytes([0x7F, request.service_id, 0x78])] if pending else []) + [b]
            try:
                o, how = await cl.request(request), ""
            except Machinery:
                raise
            except ResponseException as e:
                o, how = getattr(e, "response", None), type(e).__name__
            except Exception as e:  # noqa: BLE001
                o, how = None, f"{type(e).__name__}: {e}"[:100]
            if env.queue:               # b was never read (the pending message was not taken as one): nothing to judge
                o, how = None, "reply not consumed"
            rec, note = _record(o, b)
            out.append((rec, "; ".join(x for x in (how, note) if x)))

    try:
        vloop.run(go(), horizon=200.0 * (len(cases) + 10))
    finally:
        env.dispose()
    return out


def run(tier: str, seed: int) -> Report:
    quiet_gallia_logging()
    rep = Report("C02", tier, seed)
    rep.rule = ("one evaluation = one byte string given to UDSResponse.parse_dynamic, <Response>.from_pdu, "
                "helpers.parse_pdu (with the request it answers) or received by UDSClient.request, with the "
                "verdict class (typed / raw / rejected), the exposed public attributes and the re-serialised bytes; "
                "distinct = distinct (entry point, byte string); non-trivial = accepted (typed or raw), i.e. the "
                "clauses R1..R3 have something to say")
    rep.assumptions = [
        "ISO 14229-1 response layouts are transcribed in spec/UdsLayoutContract.tla; only unambiguous structure is "
        "demanded (fixed part, fixed-length responses, format-byte consistency, group multiples); conditional "
        "trailing parameters are optional records",
        "a rejected byte string (any exception) or a raw response is always allowed; whether genuine replies are "
        "accepted is C03's subject and only reported as drift here",
        "multi-DID ReadDataByIdentifier responses: first identifier + rest (ISO leaves the record boundaries to the ECU)",
    ]
    max_groups = 3 if tier == "quick" else 8
    pool = ThreadPoolExecutor(max_workers=6)
    futs = R.model_check("resp", max_groups, ["Dev_S4_ExtDataWidths", "Dev_S5_WmbaTrailing", "Dev_S6_DtcDictCollapse",
                                              "Dev_S7_ClearDddiLen3"], pool)
    data, eres = R.export_cases(max_groups)
    rep.add_tlc(eres, "MC_UdsLayoutExport (case enumeration)")
    layout = data["resp_layout"]
    classes = R.response_classes(layout)
    rep.extra["response_kinds"] = len(classes)
    rep.extra["layout_rows_without_class"] = sorted(set(layout) - set(classes))
    sids = sids_of(layout)
    by_sid: dict[int, list[str]] = {}
    for k, cls in classes.items():
        by_sid.setdefault(layout[k][0]["v"], []).append(k)

    traces: list[dict[str, Any]] = []
    meta: list[dict[str, Any]] = []
    seen: set[tuple[str, bytes]] = set()

    def add(b: bytes, via: str, valid: bool, origin: str) -> None:
        """via = "dyn" or a kind (class of that kind, from_pdu)."""
        if not b or (via, b) in seen:
            return
        seen.add((via, b))
        rec, note = R.exec_response(b, None if via == "dyn" else classes[via], valid)
        traces.append(rec)
        meta.append({"via": via, "origin": origin, "note": note})

    # ---- (ii) valid responses generated by TLC from the layout, (iii) mutated neighbours
    resp_cases = [c for c in data["resp_cases"] if c["kind"] in classes]
    variant_kinds = set(data["variants"])
    for c in resp_cases:
        b = bytes(c["b"])
        # a DTC list naming one DTC twice is structurally well-formed, but nothing says it must be accepted
        valid = not c["abs"]["dup"]
        if c["kind"] not in variant_kinds:
            add(b, "dyn", valid, "tlc-valid")
        add(b, c["kind"], valid, "tlc-valid")
    rnd = random.Random(seed)
    for c in resp_cases:
        b = bytes(c["b"])
        ms = R.mutants(b)
        if tier == "quick":
            head = len(b) + 2          # all truncations and the three extensions
            flips = ms[head:]
            ms = ms[:head][-6:] + rnd.sample(flips, min(6, len(flips)))
        for m in ms:
            add(m, "dyn", False, "mutant")
            add(m, c["kind"], False, "mutant")
    # ---- (iv) the client-side entry points: whatever object helpers.parse_pdu / UDSClient.request hand out for the
    # received bytes b falls under R1..R3 exactly like a parse_dynamic result.  b = a valid response or an extended
    # neighbour (fill bytes, mixed tails), request = the request the valid base answers
    rnd4 = random.Random(f"{seed}/client-entry-points")   # own stream: the other families keep their draws
    req_classes = R.request_classes(data["req_layout"])
    templates: dict[str, list[dict[str, Any]]] = {}
    for c in data["req_cases"]:
        if c["expect"] == "typed":
            templates.setdefault(c["kind"], []).append(c["f"])
    per_kind = 6 if tier == "quick" else 16
    by_kind: dict[str, dict[bytes, dict[str, Any]]] = {}
    for c in resp_cases:
        by_kind.setdefault(c["kind"], {}).setdefault(bytes(c["b"]), c)
    pairs: list[tuple[bytes, Any]] = []          # (valid base, matching request)
    for k, cs in sorted(by_kind.items()):
        bl = sorted(cs, key=lambda x: (len(x), x))
        step = max(1, -(-len(bl) // per_kind))
        for b in bl[::step] + ([bl[-1]] if (len(bl) - 1) % step else []):
            rq = matching_request(k, cs[b]["f"], req_classes, templates)
            if rq is not None:
                pairs.append((b, rq))
    # negative responses to real services (the layout cases name arbitrary service ids)
    for rsid in sorted({c_.SERVICE_ID for c_ in req_classes.values() if isinstance(c_.SERVICE_ID, int)}):
        rq = matching_request("NegativeResponse", {"rsid": rsid}, req_classes, templates)
        codes = NRCS if tier == "thorough" else rnd4.sample(NRCS, 4)
        for nrc in codes:
            pairs.append((bytes([0x7F, rq.service_id, nrc]), rq))
    matched = 0
    client_cases: list[tuple[bytes, Any, bool]] = []
    seen_cl: set[tuple[bytes, bool]] = set()
    for b, rq in pairs:
        base_rec, _ = exec_parse_pdu(b, rq)
        matched += base_rec["v"] == "typed"
        exts = extended(b, rnd4, 1 if tier == "quick" else 3)
        for m in [b] + exts:
            add(m, "dyn", False, "extended")
            if ("pdu", m) not in seen:
                seen.add(("pdu", m))
                rec, note = exec_parse_pdu(m, rq)
                traces.append(rec)
                meta.append({"via": "pdu", "origin": "extended" if m != b else "tlc-valid", "note": note,
                             "request": bytes(rq.pdu).hex()})
        # end to end through UDSClient.request: the base and a spread of its neighbours, some behind a responsePending
        sel = [b] + (exts if tier == "thorough" else rnd4.sample(exts[:40], 6) + rnd4.sample(exts[40:], 2))
        for m in sel:
            pend = rnd4.random() < 0.3
            if (m, pend) not in seen_cl:
                seen_cl.add((m, pend))
                client_cases.append((m, rq, pend))
    for (m, rq, pend), (rec, note) in zip(client_cases, exec_client(client_cases)):
        traces.append(rec)
        meta.append({"via": "client-pending" if pend else "client", "origin": "extended", "note": note,
                     "request": bytes(rq.pdu).hex()})
    if pairs and not matched:
        raise Machinery(f"binding: helpers.parse_pdu accepted none of {len(pairs)} valid responses with the request "
                        f"built for them (request synthesis out of step with gallia's request classes)")
    rep.extra["client_entry_points"] = {"bases": len(pairs), "bases_accepted_with_their_request": matched,
                                        "parse_pdu_calls": sum(1 for m_ in meta if m_["via"] == "pdu"),
                                        "client_requests": len(client_cases)}
    # ---- same-shape variants: a valid response with everything behind the first two bytes randomised (numeric
    # fields and records take arbitrary values; whatever is accepted must expose and re-encode exactly those bytes)
    per_base = 100 if tier == "quick" else 2000
    bases: dict[str, list[bytes]] = {}
    for c in resp_cases:
        bases.setdefault(c["kind"], []).append(bytes(c["b"]))
    for k, bl in sorted(bases.items()):
        bl = sorted(set(bl), key=lambda x: (len(x), x))
        picks = {bl[0], bl[len(bl) // 2], bl[-1]}
        for b in sorted(picks):
            if len(b) <= 2:
                continue
            for _ in range(per_base):
                v = b[:2] + bytes(rnd.randint(0, 255) for _ in range(len(b) - 2))
                add(v, "dyn", False, "same-shape-random")
                add(v, k, False, "same-shape-random")
        # ... and every tail length 1..8 behind the shortest valid header (e.g. the 4-byte session parameter record)
        for n in range(1, 9):
            # 16-bit numeric fields (timing parameters, counts, block lengths) sit in 2- and 4-byte tails: sampled more
            # densely (conversion / rounding defects hit about one value in a hundred)
            for _ in range(max(per_base // 4, 10) * (24 if n in (2, 4) else 1)):
                v = bl[0][:2] + bytes(rnd.randint(0, 255) for _ in range(n))
                add(v, "dyn", False, "same-shape-random")
                add(v, k, False, "same-shape-random")
    # ---- random structured byte strings: response SID, plausible second byte, random tail
    nrand = 100 if tier == "quick" else 2500
    second = sorted({row[1]["v"] for row in layout.values() if len(row) > 1 and row[1]["t"] == "sub"} | {0, 1, 0x7F, 0x80})
    for sid in sids:
        for _ in range(nrand):
            n = rnd.choice([1, 2, 3, 4, 5, 6, 7, 8, 12, 33, 40]) if rnd.random() < 0.97 else rnd.choice([255, 4095])
            tail = bytes(rnd.randint(0, 255) for _ in range(n))
            if rnd.random() < 0.6:
                tail = bytes([rnd.choice(second)]) + tail[1:]
            b = bytes([sid]) + tail
            add(b, "dyn", False, "random")
            for k in by_sid.get(sid, []):
                if rnd.random() < 0.3:
                    add(b, k, False, "random")
    # ---- <Class>.from_pdu on every byte string of length 1..2 with the class's SID
    for sid in sids:
        for k in by_sid.get(sid, []):
            add(bytes([sid]), k, False, "from_pdu-1..2")
            for x in range(256):
                add(bytes([sid, x]), k, False, "from_pdu-1..2")
    # ---- (i) exhaustive sweeps of parse_dynamic
    sweeps: list[dict[str, Any]] = []
    for sid in sids:
        sweeps.append(sweep(sid, 1, range(1)))
        sweeps.append(sweep(sid, 2, range(256)))
    big: list[Any] = []
    if tier == "thorough":
        # 65 536 strings per SID: swept and validated SID by SID so that the records need not be kept
        spool = ThreadPoolExecutor(max_workers=5)
        big = [spool.submit(sweep3, sid) for sid in sids]
    if tier == "quick":
        for sid in sids:
            for n in rnd.sample(range(65536), 600):
                add(bytes([sid]) + n.to_bytes(2, "big"), "dyn", False, "sampled-3")
    # ---- TLC validates everything
    verdicts, sweep_lines, results = R.validate("Trace_UdsLayoutResp", traces, sweeps,
                                                chunk=5000 if tier == "quick" else 12000, jobs=8)
    for res in results:
        rep.add_tlc(res, "Trace_UdsLayoutResp batch")
    ok_sweeps = {(p[1], p[2]): p for p in sweep_lines}
    swept = 0
    for sw in sweeps:
        line = ok_sweeps.get((sw["sid"], sw["len"]))
        if line is None or line[3] != "ok" or line[4] != 256 ** (sw["len"] - 1) or line[5] != len(sw["records"]):
            raise Machinery(f"sweep sid={sw['sid']:#x} len={sw['len']} not confirmed complete by TLC: {line}")
        swept += line[4]
    all_recs_extra: list[tuple[dict[str, Any], list[Any]]] = []
    all_recs: list[tuple[dict[str, Any], dict[str, Any], int]] = [(t, m, i) for i, (t, m) in enumerate(zip(traces, meta))]
    for sw in sweeps:
        for j, r in enumerate(sw["records"]):
            all_recs.append((r, {"via": "dyn", "origin": f"sweep-{sw['len']}", "note": ""}, sw["first_id"] + j))
    rep.traces = len(all_recs) + sum(sw["rejected"] for sw in sweeps)
    classes_cnt = {"typed": 0, "raw": 0, "reject": sum(sw["rejected"] for sw in sweeps)}
    drift = 0
    for fu in big:
        b3 = fu.result()
        swept += 65536
        rep.traces += 65536
        for k in classes_cnt:
            classes_cnt[k] += b3["classes"][k]
        for res in b3["results"]:
            rep.add_tlc(res, f"Trace_UdsLayoutResp sweep len 3 sid {b3['sid']:#04x}")
        for b in b3["accepted"]:
            rep.nontrivial.add(("dyn", b))
        rep.extra.setdefault("sweep3_accepted", {})[f"{b3['sid']:#04x}"] = b3["classes"]["typed"] + b3["classes"]["raw"]
        for r, v in b3["bad"]:
            all_recs_extra.append((r, v))
    rep.evaluations = rep.traces
    for t, m, i in all_recs:
        v = verdicts[i]
        classes_cnt[t["v"]] += 1
        if t["v"] != "reject":
            rep.nontrivial.add((m["via"], bytes(t["b"])))
        if v[1]:
            drift += 1
            if len(rep.drift) < 20:
                rep.drift.append({"what": v[1], "via": m["via"], "bytes": bytes(t["b"]).hex(), "note": m["note"]})
        for label in v[2]:
            cls = "Raw" if t["v"] == "raw" else classes[t["kind"]].__name__
            rep.violate(label, {"kind": cls, "repeated_dtc": _repeated_dtc(bytes(t["b"]))},
                        {"via": VIA_NAMES[m["via"]] if m["via"] in VIA_NAMES else f"{classes[m['via']].__name__}.from_pdu",
                         "bytes": bytes(t["b"]).hex(), "exposed": t["f"],
                         "reencoded": bytes(t["re"]["b"]).hex() if t["re"]["ok"] else None,
                         "origin": m["origin"], "note": m["note"], "all": v[2],
                         **({"request": m["request"]} if "request" in m else {})})
    for t, v in all_recs_extra:
        for label in v[2]:
            cls = "Raw" if t["v"] == "raw" else classes[t["kind"]].__name__
            rep.violate(label, {"kind": cls, "repeated_dtc": _repeated_dtc(bytes(t["b"]))},
                        {"via": "parse_dynamic", "bytes": bytes(t["b"]).hex(), "exposed": t["f"],
                         "reencoded": bytes(t["re"]["b"]).hex() if t["re"]["ok"] else None,
                         "origin": "sweep-3", "note": "", "all": v[2]})
    rep.exhaustive = True
    rep.extra["exhaustive_space"] = (f"all byte strings of length 1..{3 if tier == 'thorough' else 2} for the "
                                     f"{len(sids)} response SIDs incl. 0x7F through parse_dynamic ({swept} strings, "
                                     f"completeness of the tables checked by TLC); <Class>.from_pdu on all strings of "
                                     f"length 1..2 of its SID; every TLC-generated valid response")
    rep.extra["response_sids"] = [f"{s:#04x}" for s in sids]
    rep.extra["verdict_classes"] = classes_cnt
    from harness import c01_bind as _B
    rep.extra["public_attributes_outside_the_iso_layout"] = {k: sorted(v) for k, v in _B.UNCOVERED_ATTRS.items()}
    rep.extra["tlc_generated_valid_responses"] = len(resp_cases)
    rep.extra["origins"] = {o: sum(1 for m in meta if m["origin"] == o) for o in sorted({m["origin"] for m in meta})}
    rep.extra["spec_to_code_drift"] = drift
    rep.extra["unspecified"] = ("conditional ISO fields (ECUReset powerDownTime, session parameter record, optional "
                                "trailing records, reserved low nibble of lengthFormatIdentifier, reserved "
                                "sub-function / NRC / DTC format values) are not constrained by R3")
    for i in (0, len(traces) // 2, len(traces) - 1):
        t = traces[i]
        rep.sample({"via": meta[i]["via"], "bytes": bytes(t["b"]).hex()[:40], "class": t["v"], "kind": t["kind"],
                    "verdict": verdicts[i][0]})
    selftest(rep, traces, verdicts)
    R.collect_mc(rep, futs, RESP_ACTIONS)
    pool.shutdown()
    return rep


def selftest(rep: Report, traces: list[dict[str, Any]], verdicts: dict[int, list[Any]]) -> None:
    def pick(pred: Any) -> dict[str, Any]:
        for i, t in enumerate(traces):
            if verdicts[i][0] == "ok" and t["v"] == "typed" and pred(t):
                return json.loads(json.dumps(t))
        raise Machinery("binding self-test: no accepted typed response of the needed shape")

    t1 = pick(lambda t: "did" in t["f"])
    t1["f"]["did"] = (t1["f"]["did"] + 256) % 65536            # exposed field differs from the bytes
    t2 = pick(lambda t: len(t["b"]) >= 3)
    t2["re"]["b"] = t2["re"]["b"][:-1]                         # re-serialisation drops a byte
    t3 = pick(lambda t: t["kind"] == "WriteDataByIdentifier")
    t3["b"] = t3["b"] + [0]                                    # too long for a fixed-length response, yet typed
    t3["re"]["b"] = list(t3["b"])
    t4 = pick(lambda t: t["kind"] == "NegativeResponse" and t["dyn"])
    t4["kind"], t4["f"] = "ReadMemoryByAddress", {"record": t4["b"][1:]}   # wrong class for these bytes
    bad_sweep = {"sid": 0x7F, "len": 2, "codes": [0] * 255, "records": []}
    v, lines, _ = R.validate("Trace_UdsLayoutResp", [t1, t2, t3, t4], [bad_sweep])
    got = [v[i][0] for i in range(4)] + [ln[3] for ln in lines]
    want = ["R1/fields", "R2/reencode", "R3/length-rule", "R1/kind-not-iso-registry", "SWEEP/incomplete"]
    if got != want:
        raise Machinery(f"binding self-test: corrupted records got {got}, expected {want}")
    rep.extra["binding_selftest"] = {"corrupted_rejected": got}


def replay(path: str) -> int:
    quiet_gallia_logging()
    data = json.loads(open(path).read())
    exp, _ = R.export_cases(3)
    classes = R.response_classes(exp["resp_layout"])
    by_name = {c.__name__: c for c in classes.values()}
    traces = []
    done: set[tuple[str, str]] = set()
    for v in data["violations"]:
        d = v["detail"]
        via = d["via"]
        if (via, d["bytes"]) in done:
            continue
        done.add((via, d["bytes"]))
        if "request" in d:
            rq = S.UDSRequest.parse_dynamic(bytes.fromhex(d["request"]))
            if via == VIA_NAMES["pdu"]:
                rec, _ = exec_parse_pdu(bytes.fromhex(d["bytes"]), rq)
            else:
                rec, _ = exec_client([(bytes.fromhex(d["bytes"]), rq, via == VIA_NAMES["client-pending"])])[0]
            traces.append(rec)
            continue
        cls = None if via == "parse_dynamic" else by_name[via.split(".")[0]]
        rec, _ = R.exec_response(bytes.fromhex(d["bytes"]), cls)
        traces.append(rec)
    verdicts, _, _ = R.validate("Trace_UdsLayoutResp", traces)
    bad = 0
    for i, t in enumerate(traces):
        print(f"replay bytes={bytes(t['b']).hex()[:60]} class={t['v']} kind={t['kind']} broken={verdicts[i][2] or 'none'}")
        bad += verdicts[i][0] != "ok"
    if bad:
        print(f"VIOLATION property=C02 replay={path}")
        return 1
    return 0
