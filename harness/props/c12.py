"""C12 — a database-backed virtual ECU replays the recorded ECU's answers.

spec   : spec/DbReplayContract.tla (Y0 presupposition, Y1 fidelity, Y2 independence),
         spec/DbReplayRules.tla + spec/DbReplay.tla (design: two trackers, rows, cursor with
         next-id-first / wrap-around lookup, selection by ECU name / properties)
MC     : MC_DbReplay_len3/sel1 (quick) + len4/sel2 (thorough) exhaustive; devS18/devS19/devS31 are
         negative controls
binding: record phase = real ECU + DBHandler (temp sqlite) against an in-process ECU
         (RandomUDSServer(seed) behind a real UDSServerTransport, or a scripted ECU that answers
         what a TLC behaviour prescribes); replay phase = real DBUDSServer through
         UDSServerTransport.handle_request.  code->spec: every replay is validated by
         Trace_DbReplay (TLC: contract verdict + design-layer explanation); spec->code: every
         TLC behaviour up to length 2/3 plus TLC-simulated longer ones (with other runs and
         selectors) are concretised and executed.
storage: the same histories recorded while somebody else has the database open (viewer with / without an
         open read transaction, a second DBHandler, the recorder itself still connected or killed): the
         recording then sits (partly) in the write-ahead log when the virtual ECU is started.  Same traces,
         same verdict (Y1/Y2 of the contract); a replay that serves the main file alone is the negative
         control of the family.
"""

from __future__ import annotations

import json
from concurrent.futures import ThreadPoolExecutor
from typing import Any

from harness import tlc
from harness.common import Machinery, Report, quiet_gallia_logging
from harness import c12_lib as L

# --------------------------------------------------------------------------- abstract -> concrete
SESS = {1: 0x01, 2: 0x03, 3: 0x02}
SEEDS = {1: "a1b2", 2: "c3d4e5", 9: "0909"}
PAYLOAD = {1: "11", 2: "2222", 9: "99"}
RESET_TYPES = [1, 3, 4, 2, 5]
NRCS = [0x22, 0x31, 0x33, 0x7E]
OTHER = [("221234", "621234"), ("3101ff00", "7101ff00"), ("22f190", "62f190")]  # (request, positive prefix)

TARGET_PROPS = {"variant": 1, "sw": "a", "hw": None, "coded": False, "voltage": 12.0}
OTHER_PROPS = {"variant": 2, "sw": "b", "hw": "x", "coded": True, "voltage": 13.5}


def conc_req(req: list[Any], fl: int) -> str:
    name, arg = req
    if name == "DSC":
        return f"10{SESS[arg]:02x}"
    if name == "Seed":
        return f"27{arg:02x}"
    if name == "Key":
        return f"27{arg + 1:02x}a1b2"
    if name == "Reset":
        return f"11{RESET_TYPES[fl % len(RESET_TYPES)]:02x}"
    if name == "RdSess":
        return "22f186"
    return OTHER[(arg + fl) % len(OTHER)][0]


def conc_rsp(req: list[Any], rsp: list[Any], fl: int) -> str | None:
    if not rsp:
        return None
    name, arg = req
    rq = conc_req(req, fl)
    if rsp[0] == "neg":
        return f"7f{rq[:2]}{NRCS[fl % len(NRCS)]:02x}"
    v = rsp[1]
    if name == "DSC":
        return f"50{SESS[arg]:02x}003201f4"
    if name == "Seed":
        return f"67{arg:02x}{SEEDS[v]}"
    if name == "Key":
        return f"67{arg + 1:02x}"
    if name == "Reset":
        t = RESET_TYPES[fl % len(RESET_TYPES)]
        return f"51{t:02x}" + ("0a" if t == 4 else "")  # enableRapidPowerShutDown carries a powerDownTime
    if name == "RdSess":
        return f"62f186{SESS[v]:02x}"
    return OTHER[(arg + fl) % len(OTHER)][1] + PAYLOAD[v]


def script_run(hist: list[list[Any]], fl: int, url: str, ecu_name: str | None, props: dict[str, Any] | None
               ) -> dict[str, Any]:
    return {"url": url, "ecu_name": ecu_name, "props": props,
            "steps": [{"pdu": conc_req(h[0], fl)} for h in hist],
            "peer": {"kind": "script", "script": [conc_rsp(h[0], h[1], fl) for h in hist]}}


def conc_sel(sel: dict[str, Any]) -> dict[str, Any]:
    props: dict[str, Any] | None = None
    for p in sel["props"]:
        props = props or {}
        props[p["k"]] = None if p["t"] == "null" else int(p["v"]) if p["t"] == "int" else p["v"]
    return {"ecu": sel["ecu"] or None, "props": props}


def case_from_behaviour(cid: str, hist: list[Any], fl: int, rows: list[Any] | None = None,
                        tgt: list[int] | None = None, sel: dict[str, Any] | None = None) -> dict[str, Any]:
    """A TLC behaviour (history [+ rows of other runs + selector]) as an executable case."""
    case: dict[str, Any] = {"id": cid, "second_pass": True,
                            "target": script_run(hist, fl, "c12inproc://target", "tgt", TARGET_PROPS)}
    if rows is not None and tgt and sel is not None and len(rows) > len(tgt):
        before, after = [], []
        for i, r in enumerate(rows, start=1):
            if r["g"] == "tgt":
                continue
            same = r["g"] == "same"
            run = script_run([[r["req"], r["rsp"]]], fl,
                             "c12inproc://target" if same else f"c12inproc://other{i}",
                             "tgt" if same else "other", TARGET_PROPS if same else OTHER_PROPS)
            (before if i < tgt[0] else after).append(run)
        case["layout"] = {"before": before, "after": after, "selectors": [conc_sel(sel)]}
    return case


# --------------------------------------------------------------------------- ECU-model histories
def model_inventory(seed: int, params: int) -> dict[str, Any]:
    srv = L.DetRandomUDSServer(seed, L.RandomUDSServer.RandomnessParameters(**L.MODEL_PARAMS[params]))
    srv.randomize()
    from gallia.services.uds.core.constants import UDSIsoServices

    levels = sorted({sf for s in srv.services.values() for sf in (s.get(UDSIsoServices.SecurityAccess) or [])
                     if sf % 2 == 1})
    return {"sessions": sorted(srv.services), "levels": levels}


def model_history(r: Any, inv: dict[str, Any], n: int) -> dict[str, Any]:
    """A request sequence over session changes, seed/key pairs, resets, reads / writes / routines,
    suppressed and lost replies, repeated identical requests."""
    steps: list[dict[str, Any]] = []
    ids = ["1234", "f190", "0102", r.choice(["f18c", "aaaa"])]
    lv = inv["levels"] or [1]
    while len(steps) < n:
        k = r.random()
        if k < 0.20:
            s = r.choice(inv["sessions"] + [0x55])
            steps.append({"pdu": f"10{(s | 0x80) if r.random() < 0.2 else s:02x}"})
        elif k < 0.32:
            steps.append({"pdu": "22f186"})
        elif k < 0.47:
            lvl = r.choice(lv + [r.choice([5, 0x11, 0x41])])
            steps.append({"pdu": f"27{lvl:02x}"})
            if r.random() < 0.8:
                if r.random() < 0.3:
                    steps.append({"pdu": f"22{r.choice(ids)}"})
                steps.append({"key": lvl + 1, "good": r.random() < 0.8})
        elif k < 0.55:
            t = r.choice([1, 1, 3, 2, 4, 5])  # every ISO reset type, incl. enable/disableRapidPowerShutDown
            steps.append({"pdu": f"11{(t | 0x80) if r.random() < 0.15 else t:02x}"})
        elif k < 0.80:
            steps.append({"pdu": f"22{r.choice(ids)}"})
        elif k < 0.86:
            steps.append({"pdu": f"2e{r.choice(ids)}{r.choice(['00', 'ff01'])}"})
        elif k < 0.92:
            steps.append({"pdu": f"31{r.choice(['01', '03'])}{r.choice(['ff00', '0203'])}"})
        elif k < 0.97:
            steps.append({"pdu": r.choice(["3e00", "3e80"])})
        else:
            steps.append({"pdu": r.choice(["14ffffff", "1902ff", "85 02".replace(" ", "")])})
    steps = steps[:n]
    return {"steps": steps,
            "drops": [i for i in range(n) if r.random() < 0.06],
            "idles": [i for i in range(1, n) if r.random() < 0.05]}


SELECTORS_ISOLATING = [
    {"ecu": "tgt", "props": None},
    {"ecu": None, "props": {"variant": 1}},
    {"ecu": None, "props": {"sw": "a"}},
    {"ecu": None, "props": {"hw": None}},
    {"ecu": None, "props": {"coded": False}},
    {"ecu": None, "props": {"voltage": 12.0}},
    {"ecu": "tgt", "props": {"variant": 1, "sw": "a"}},
]


def model_case(cid: str, seed: int, k: int, tier: str) -> dict[str, Any]:
    r = L.rnd(seed, "model", k)
    mseed = r.randrange(1, 10_000)
    params = k % len(L.MODEL_PARAMS)
    inv = model_inventory(mseed, params)
    n = r.randint(2, 12 if tier == "quick" else 24)
    h = model_history(r, inv, n)
    target = {"url": "c12inproc://target", "ecu_name": "tgt", "props": TARGET_PROPS, "steps": h["steps"],
              "peer": {"kind": "model", "seed": mseed, "params": params, "drops": h["drops"], "idles": h["idles"]},
              "oob": [r.randrange(1, n)] if (k % 25 == 7 and n > 1) else []}
    if k % 7 in (3, 4) and n > 2:
        # the client reconnected its transport in the middle of the history (the ECU is not affected)
        target["reconn"] = sorted({L.rnd(seed, "reconn", k).randrange(1, n) for _ in range(2)})
    if k % 5 == 2:
        target["tp"] = True  # recorded while a second task of the client keeps sending TesterPresent
    case: dict[str, Any] = {"id": cid, "target": target, "second_pass": k % 4 == 0 and not target.get("tp")}
    if k % 3 == 0:
        others = []
        for j in range(r.randint(1, 3)):
            same = (k % 9 == 6 and j == 0)  # a run the selection cannot tell apart: statement silent
            others.append({
                "url": "c12inproc://target" if same else f"c12inproc://other{j}",
                "ecu_name": "tgt" if same else f"other{j}",
                "props": TARGET_PROPS if same else dict(OTHER_PROPS, variant=2 + j),
                # the same requests against another ECU model: same (request, state), other answers
                "steps": h["steps"][: r.randint(1, n)],
                "peer": {"kind": "model", "seed": mseed + 1 + j, "params": params, "drops": [], "idles": []}})
        if k % 6 == 3:
            # another invocation against the SAME target (same URL, same ECU name) with other properties:
            # still separable by the properties
            others.append({
                "url": "c12inproc://target", "ecu_name": "tgt", "props": dict(OTHER_PROPS, variant=7),
                "steps": h["steps"][: r.randint(1, n)],
                "peer": {"kind": "model", "seed": mseed + 9, "params": params, "drops": [], "idles": []}})
        cut = r.randint(0, len(others))
        if k % 12 == 3:
            cut = 0  # ... recorded after the target run
        sels = r.sample(SELECTORS_ISOLATING, 3) + [{"ecu": None, "props": None}]
        if k % 6 == 3:
            sels.append({"ecu": "tgt", "props": {"variant": 1, "sw": "a"}})
        case["layout"] = {"before": others[:cut], "after": others[cut:], "selectors": sels}
    return case


# --------------------------------------------------------------------------- storage family
# "recorded into the database" does not say WHERE in the database files the rows sit.  gallia's databases are in
# WAL mode; SQLite folds the write-ahead log into the main file when the last connection closes.  Every recording
# above is made and closed with nobody else connected, i.e. is fully checkpointed.  Here: who else has the
# database open (L.STORAGE_KINDS) x when it was opened relative to the runs x when it is closed.
def storage_combos() -> list[dict[str, str]]:
    out = []
    for kind in L.HOLDERS:
        for at in (["start"] if kind == "handler" else []) + ["before-target", "mid", "after-target", "end"]:
            for release in ("end", "mid-replay"):
                out.append({"kind": kind, "at": at, "release": release})
    for _ in range(2):
        out += [{"kind": "recorder-open", "at": "before-target", "release": r} for r in ("end", "mid-replay")]
        out += [{"kind": "recorder-killed", "at": "before-target", "release": "end"}] * 2
    return out


def storage_cases(seed: int, tier: str) -> list[dict[str, Any]]:
    combos = storage_combos()
    n = 2 * len(combos) if tier == "quick" else 12 * len(combos)
    cases = []
    for j in range(n):
        sto = combos[j % len(combos)]
        # alternate databases with other runs (selection by name / properties) and single-run databases
        k = 5001 + 3 * j + (0 if (j // len(combos) + j) % 2 == 0 else 1)
        case = model_case(f"st{j}", seed, k, tier)
        case["storage"] = dict(sto)
        if sto["kind"].startswith("recorder"):
            case["target"].pop("tp", None)  # "every exchange is committed" is awaited by counting the rows
        lay = case.get("layout")
        if lay and sto["kind"] == "recorder-killed":
            # whoever records into the database after the killed recorder folds its log into the main file
            lay["before"], lay["after"] = lay["before"] + lay["after"], []
        cases.append(case)
    # scripted witnesses: repeated identical request with different answers, a silent row, a state change
    ex = [("22f190", "62f19001"), ("1003", "5003003201f4"), ("22f190", "62f19002"), ("3e80", None),
          ("22f190", "62f19003"), ("1101", "5101"), ("22f190", "62f19004")]
    other = {"url": "c12inproc://other0", "ecu_name": "other0", "props": OTHER_PROPS,
             "steps": [{"pdu": a} for a, _ in ex[:3]],
             "peer": {"kind": "script", "script": ["62f190aa", "5003003201f4", "62f190bb"]}}
    for j, sto in enumerate(combos):
        if sto["release"] != "end":
            continue
        cases.append({"id": f"w-storage-{sto['kind']}-{sto['at']}-{j}", "second_pass": False, "storage": dict(sto),
                      "target": {"url": "c12inproc://target", "ecu_name": "tgt", "props": TARGET_PROPS,
                                 "steps": [{"pdu": a} for a, _ in ex],
                                 "peer": {"kind": "script", "script": [b for _, b in ex]}},
                      "layout": {"before": [other], "after": [] if sto["kind"] == "recorder-killed" else [other],
                                 "selectors": [{"ecu": "tgt", "props": None}, {"ecu": None, "props": {"variant": 1}},
                                               {"ecu": None, "props": None}]}})
    return cases


def storage_report(rep: Report, traces: list[dict[str, Any]]) -> None:
    """Evidence: per kind, how many replays were started while the recorded run was NOT (completely) in the main
    database file.  Not a verdict and not a demand on gallia: a recorder that checkpoints eagerly makes these
    counts 0 and the family degenerate to the ordinary one (the negative control in the binding self-test is
    then not applicable and says so)."""
    by: dict[str, dict[str, int]] = {}
    for t in traces:
        st = t.get("info", {}).get("storage")
        if not st:
            continue
        d = by.setdefault(st["kind"], {"replays": 0, "other_party_in_effect": 0, "recorded_run_outside_main_file": 0})
        d["replays"] += 1
        d["other_party_in_effect"] += bool(st["in_effect"])
        d["recorded_run_outside_main_file"] += st["target_rows_outside_main_file"] > 0
    rep.extra["storage_family"] = by
    missing = [k for k in L.STORAGE_KINDS if by.get(k, {}).get("replays", 0) == 0]
    if missing:
        raise Machinery(f"storage family: no replay was executed for {missing} ({by})")


# --------------------------------------------------------------------------- TLC validation
def validate(traces: list[dict[str, Any]]) -> tuple[dict[str, list[Any]], list[Any]]:
    """Trace_DbReplay over the batch: id -> [label, class, index, explained_by, drift]."""
    verdicts: dict[str, list[Any]] = {}
    CH = 1200
    keys = ("id", "oob", "sel", "rows", "tgt", "obs", "obs2", "base")

    def go(off: int) -> Any:
        sub = {"traces": [{k: t[k] for k in keys} for t in traces[off:off + CH]]}
        return tlc.validate_batch("Trace_DbReplay", "Trace_DbReplay.cfg", sub, timeout=1800,
                                  env={"JAVA_TOOL_OPTIONS": "-Xss256m"})

    with ThreadPoolExecutor(max_workers=3) as ex:
        results = list(ex.map(go, range(0, len(traces), CH)))
    for res in results:
        for p in res.prints:
            if isinstance(p, list) and len(p) == 7 and p[0] == "V":
                verdicts[str(p[1])] = p[2:]
    missing = [t["id"] for t in traces if str(t["id"]) not in verdicts]
    if missing:
        raise Machinery(f"TLC produced no verdict for {len(missing)} replays (first id {missing[0]}):\n"
                        + results[-1].out[-2500:])
    return verdicts, results


def sel_kind(sel: dict[str, Any]) -> str:
    parts = (["name"] if sel["ecu"] else []) + sorted({"prop:" + p["t"] for p in sel["props"]})
    return "+".join(parts) or "none"


def hexs(b: list[int]) -> str | None:
    return None if not b else ("<raised>" if b == L.RAISED else bytes(b).hex())


def replay_summary(t: dict[str, Any]) -> dict[str, Any]:
    rows = t["rows"]
    return {"id": t["id"], "selector": t["sel"], "n_rows_in_db": len(rows),
            "exchanges": [{"req": hexs(rows[i - 1]["req"]), "recorded": hexs(rows[i - 1]["rsp"]),
                           "replayed": hexs(o["rep"]), "cState": rows[i - 1]["st"], "sState": o["ss"]}
                          for i, o in zip(t["tgt"], t["obs"])][:30]}


# --------------------------------------------------------------------------- the check
MC_NEG = {"devS18": ("Y0_TrackersAgree",), "devS19": ("Y0_TrackersAgree",),
          "devS31": ("Y1_RepliesAsRecorded", "Y2_IndependentOfOthers")}


def model_check_start(tier: str) -> tuple[Any, dict[str, Any], list[str]]:
    """Model checking runs concurrently with the executions of the real code (independent work)."""
    cfgs = ["len3", "sel1"] + (["len4", "sel2"] if tier == "thorough" else [])

    def go(c: str) -> Any:
        return tlc.run_tlc("MC_DbReplay", f"MC_DbReplay_{c}.cfg", timeout=3000, workers=8 if c == "len4" else 3,
                           coverage=(c == "sel1"), parse_prints=False)

    ex = ThreadPoolExecutor(max_workers=7)
    return ex, {c: ex.submit(go, c) for c in cfgs + list(MC_NEG)}, cfgs


def model_check_finish(rep: Report, ex: Any, futs: dict[str, Any], cfgs: list[str]) -> None:
    res = {c: f.result() for c, f in futs.items()}
    ex.shutdown()
    for c in cfgs:
        rep.add_tlc(res[c], f"MC_DbReplay_{c}")
        if not res[c].ok:
            rep.violate(f"design/{res[c].violated}", {"where": "DbReplay design layer", "cfg": c},
                        {"cex": res[c].cex[-6:], "out": res[c].out[-1500:]})
    for c, want in MC_NEG.items():
        rep.add_tlc(res[c], f"MC_DbReplay_{c} (negative control)")
        if res[c].violated not in want:
            raise Machinery(f"negative control {c} violated {res[c].violated!r}, expected one of {want}: "
                            "the contract / design layer is vacuous")
    cov = res["sel1"].coverage
    acts = ("AddForeign", "Record", "Begin", "Step")
    rep.extra["design_action_coverage"] = {a: cov.get(a, (0, 0))[0] for a in acts}
    never = [a for a in acts if cov.get(a, (0, 0))[0] == 0]
    if never:
        raise Machinery(f"design-layer actions never taken in MC_DbReplay_sel1: {never}")


def behaviours_exhaustive(tier: str) -> tuple[Any, list[dict[str, Any]]]:
    cfg = "export2" if tier == "quick" else "export3"
    res = tlc.run_tlc("MC_DbReplay", f"MC_DbReplay_{cfg}.cfg", timeout=1800, workers=1, heap="4g")
    if not res.ok:
        raise Machinery(f"export config {cfg} violated {res.violated}")
    out = []
    for p in res.prints:
        if isinstance(p, list) and len(p) == 5 and p[0] == "B":
            out.append({"hist": p[1], "obs": p[2]})
    return res, out


def run(tier: str, seed: int) -> Report:
    quiet_gallia_logging()
    rep = Report("C12", tier, seed)
    rep.rule = ("one execution = one replay: a scan database written by the real ECU + DBHandler (recorded run, "
                "optionally 1-3 other runs with other ECU names / property sets before or after it), read back, "
                "and a fresh real DBUDSServer asked the recorded requests through UDSServerTransport.handle_request "
                "(isolated database without selection; populated database with each selector). distinct = distinct "
                "(rows of the database, selector); non-trivial = at least 2 exchanges and the recorded run contains "
                "a state change, a row without reply, or a repeated identical request. storage family: the same, "
                "recorded while another connection has the database open (viewer, viewer with a read transaction, "
                "second DBHandler; opened before / during / after the recorded run, closed after or during the "
                "replay) or with the recorder itself still connected / killed without disconnecting")
    rep.assumptions = [
        "recorded ECU = RandomUDSServer(seed) behind a real UDSServerTransport (security seeds drawn from a seeded "
        "generator instead of OS entropy), or a scripted ECU answering what a TLC behaviour prescribes; lost replies "
        "and >10 s bus idle are environment events",
        "the `ecu` table / address.ecu link is filled by direct SQL (gallia never writes it; a user does the same)",
        "recorded reply = response_pdu of the database row; a row that differs from what was on the wire during the "
        "recording (C11's subject in general) is reported here as Y0, because the replay then cannot be the recorded "
        "ECU's answer",
        "replay requests arrive without bus idle (UDSServerTransport's 10 s inactivity reset is not triggered)",
        "another run with the SAME ECU name and properties cannot be separated by the selection: unspecified",
        "a second pass over the sequence on the same server instance is unspecified (design-layer comparison only)",
        "'recorded into the database' = committed, i.e. what an ordinary SQLite reader of the database sees, "
        "wherever the bytes sit (main file or write-ahead log); the harness reads a copy of the files so that its "
        "own observation does not checkpoint the log; other connections only hold the database open (no writes, "
        "no exclusive locks)",
    ]
    pool = L.make_pool()  # fork the workers before any thread exists
    try:
        return _run(rep, tier, seed, pool)
    finally:
        pool.terminate()


def _run(rep: Report, tier: str, seed: int, pool: Any) -> Report:
    # ---- 1. model checking + negative controls (joined in step 7)
    mc = model_check_start(tier)
    # ---- 2. spec -> code: every TLC behaviour up to length 2 (quick) / 3 (thorough) ...
    cases: list[dict[str, Any]] = []
    expect: dict[str, dict[str, Any]] = {}
    eres, behs = behaviours_exhaustive(tier)
    rep.add_tlc(eres, "MC_DbReplay export (all behaviours)")
    for i, b in enumerate(behs):
        fl = i % 3
        cid = f"x{i}"
        cases.append(case_from_behaviour(cid, b["hist"], fl))
        expect[cid] = {"fl": fl, "hist": b["hist"], "obs": b["obs"]}
    rep.extra["spec_to_code_exhaustive_behaviours"] = len(behs)
    # ... plus simulated longer behaviours with other runs and selectors
    nsim = 120 if tier == "quick" else 1200
    sres, sims = tlc.simulate_behaviours("MC_DbReplay", "MC_DbReplay_sim.cfg", num=nsim, depth=40,
                                         seed=seed + 12, timeout=1200)
    rep.add_tlc(sres, "MC_DbReplay_sim (simulation, invariants checked on the way)")
    nused = 0
    for i, b in enumerate(sims):
        if not b:
            continue
        st = b[-1][1]
        if st.get("phase") != "done" or not isinstance(st.get("rows"), list):
            continue
        rows, tgt = st["rows"], st["tgt"]
        hist = [[rows[j - 1]["req"], rows[j - 1]["rsp"]] for j in tgt]
        cid = f"s{i}"
        cases.append(case_from_behaviour(cid, hist, i % 3, rows, tgt, st["sel"]))
        if len(rows) == len(tgt):
            expect[cid] = {"fl": i % 3, "hist": hist, "obs": st["obs"]}
        nused += 1
    rep.extra["spec_to_code_simulated_behaviours"] = nused
    if nused < nsim // 2:
        raise Machinery(f"only {nused} of {nsim} simulated behaviours were complete")
    # ---- 3. ECU-model histories (RandomUDSServer seeds), databases with other runs
    nmodel = 260 if tier == "quick" else 3000
    for k in range(nmodel):
        cases.append(model_case(f"m{k}", seed, k, tier))
    # hand-written witnesses of the section-6 suspects (also found by TLC above)
    cases.append({"id": "w-silent-row", "second_pass": False, "target": {
        "url": "c12inproc://target", "ecu_name": "tgt", "props": TARGET_PROPS,
        "steps": [{"pdu": "1003"}, {"pdu": "3e80"}, {"pdu": "221234"}],
        "peer": {"kind": "model", "seed": 1, "params": 0}}})
    cases.append({"id": "w-session-read", "second_pass": False, "target": {
        "url": "c12inproc://target", "ecu_name": "tgt", "props": TARGET_PROPS,
        "steps": [{"pdu": "1083"}, {"pdu": "22f186"}, {"pdu": "221234"}],
        "peer": {"kind": "model", "seed": 1, "params": 0}}})
    # outside the presupposition: the client resets its logged state without an exchange (power cycle)
    cases.append({"id": "w-oob-client-reset", "second_pass": False, "target": {
        "url": "c12inproc://target", "ecu_name": "tgt", "props": TARGET_PROPS,
        "steps": [{"pdu": "1003"}, {"pdu": "221234"}, {"pdu": "22f190"}], "oob": [1],
        "peer": {"kind": "model", "seed": 1, "params": 0}}})
    # every ISO reset type (with and without the suppress bit, also answered negatively) in a non-default
    # session / with an unlocked level, identical reads before and after with different answers
    for t in (1, 2, 3, 4, 5):
        for unlocked in (False, True):
            for variant in ("pos", "neg", "suppressed"):
                sec = [("2701", "6701aabb"), ("2702ccdd", "6702")] if unlocked else []
                rst = {"pos": (f"11{t:02x}", f"51{t:02x}" + ("0a" if t == 4 else "")),
                       "neg": (f"11{t:02x}", "7f1122"), "suppressed": (f"11{t | 0x80:02x}", None)}[variant]
                ex = ([("22f190", "62f19000"), ("1003", "5003003201f4")] + sec +
                      [("22f190", "62f19001"), rst, ("22f190", "62f19002"), ("3101ff00", "7f3133"),
                       ("1003", "5003003201f4"), ("22f190", "62f19003")])
                cases.append({"id": f"w-reset-{t}-{'u' if unlocked else 'l'}-{variant}", "second_pass": False,
                              "target": {"url": "c12inproc://target", "ecu_name": "tgt", "props": TARGET_PROPS,
                                         "steps": [{"pdu": a} for a, _ in ex],
                                         "peer": {"kind": "script", "script": [b for _, b in ex]}}})
    # a slow ECU: the answer to a request arrives after the client's timeout and is read as the answer to the NEXT
    # request (the client refuses it there as a mismatch, but it is the reply that was recorded for that request
    # and it moves the client's session / security level like any reply)
    for name, late in (("dsc", ("1003", "5003003201f4")), ("seed", ("2701", "6701aabb")), ("reset", ("1101", "5101"))):
        pre = [("1003", "5003003201f4"), ("22f190", "62f19009")] if name == "reset" else []
        ex = pre + [(late[0], None), ("22f190", late[1]), ("22f190", "62f19001"), ("22f186", "62f18603"),
                    ("3101ff00", "7f3133"), ("22f190", "62f19002"), ("1001", "5001003201f4"), ("22f190", "62f19003")]
        cases.append({"id": f"w-late-reply-{name}", "second_pass": False,
                      "target": {"url": "c12inproc://target", "ecu_name": "tgt", "props": TARGET_PROPS,
                                 "steps": [{"pdu": a} for a, _ in ex],
                                 "peer": {"kind": "script", "script": [b for _, b in ex]}}})
    # probes OUTSIDE the quantifier of C12 (an ECU that answers undecodable bytes is not a RandomUDSServer
    # model): executed and reported in the evidence, never a violation of this check
    for name, bad in (("p-malformed-positive", "6212"), ("p-malformed-negative", "7f22")):
        cases.append({"id": name, "second_pass": False, "target": {
            "url": "c12inproc://target", "ecu_name": "tgt", "props": TARGET_PROPS,
            "steps": [{"pdu": "221234"}, {"pdu": "22f190"}],
            "peer": {"kind": "script", "script": [bad, "62f19041"]}}})
    # the recorded histories again, with the recording (partly) in the write-ahead log at replay time
    cases += storage_cases(seed, tier)
    # ---- 4. execute on the real objects
    traces = L.run_cases(cases, pool)
    skipped = [t for t in traces if "skip" in t]
    traces = [t for t in traces if "skip" not in t]
    rep.extra["skipped_rows_lost"] = len(skipped)
    rep.extra["wire_mismatch"] = sum(1 for t in traces if t.get("info", {}).get("wire_mismatch"))
    # "the recorded ECU's answers" are what the ECU answered: a recording whose rows do not hold the bytes that were
    # on the wire (or that lost rows) cannot be replayed faithfully whatever the replaying server does
    for t in [t for t in traces if t.get("info", {}).get("wire_mismatch")][:5] + skipped[:5]:
        if str(t["id"]).startswith("p-"):
            continue  # probes outside the quantifier
        rep.violate("Y0/the-database-does-not-hold-what-the-ecu-answered",
                    {"what": "rows-lost" if "skip" in t else "row-differs-from-the-wire"},
                    {"case": next((c for c in cases if str(t["id"]).split("/")[0] == str(c["id"])), None),
                     "trace_id": t["id"], "info": {k: t["info"][k] for k in ("n_steps", "n_rows", "outcomes", "wire_mismatch")
                                               if k in t["info"]}})
    traces = [t for t in traces if not t.get("info", {}).get("wire_mismatch")]
    if len(skipped) > len(cases) // 10:
        raise Machinery(f"{len(skipped)} of {len(cases)} recordings lost rows: {skipped[0]}")
    # ---- 5. code -> spec: TLC decides every replay
    verdicts, results = validate(traces)
    for r_ in results:
        rep.add_tlc(r_, "Trace_DbReplay batch")
    rep.traces = len(traces)
    rep.evaluations = len(traces)
    classes: dict[str, int] = {}
    explained: dict[str, int] = {}
    seen_sig: dict[str, int] = {}
    probes: dict[str, Any] = {}
    for t in traces:
        label, cls, idx, expl, drift = verdicts[str(t["id"])]
        if str(t["id"]).startswith("p-"):
            probes[str(t["id"])] = {"verdict": label, "at": idx, "replayed": [hexs(o["rep"]) for o in t["obs"]]}
            continue
        classes[cls] = classes.get(cls, 0) + 1
        explained[expl] = explained.get(expl, 0) + 1
        rows = [t["rows"][i - 1] for i in t["tgt"]]
        reqs = [tuple(r["req"]) for r in rows]
        if len(rows) >= 2 and (any(r["st"] != rows[0]["st"] for r in rows) or any(not r["rsp"] for r in rows)
                               or len(set(reqs)) < len(reqs)):
            rep.nontrivial.add(json.dumps([t["rows"], t["sel"]], sort_keys=True))
        if label != "ok":
            sig = {"explained_by": expl}
            if expl == "unexplained":  # not one of the modelled deviations: say where it shows
                sig["selector"] = sel_kind(t["sel"])
                sig["raised"] = any(o["rep"] == L.RAISED for o in t["obs"])
                if t.get("info", {}).get("storage"):  # ... and with what else connected to the database
                    sig["storage"] = t["info"]["storage"]["kind"]
            key = json.dumps([label, sig], sort_keys=True)
            seen_sig[key] = seen_sig.get(key, 0) + 1
            if seen_sig[key] <= 3:
                rep.violate(label, sig, {"first_bad_exchange": idx, "selector_kind": sel_kind(t["sel"]), "replay": replay_summary(t),
                                         "storage": t.get("info", {}).get("storage"),
                                         "case": next((c for c in cases if c["id"] == str(t["id"]).split("/")[0]), None),
                                         "trace": {k: t[k] for k in ("id", "oob", "sel", "rows", "tgt", "obs", "obs2", "base")}})
        elif cls != "void":
            if expl != "intended":
                rep.drift.append({"id": t["id"], "design": f"replay reproduced only under deviation {expl}"})
            elif drift:
                rep.drift.append({"id": t["id"], "design": f"differs from the intended design in: {drift}"})
    rep.extra["violating_replays_by_signature"] = seen_sig
    rep.extra["outside_quantifier_probes"] = probes
    rep.extra["verdict_classes"] = classes
    rep.extra["unspecified"] = classes.get("unspecified", 0) + classes.get("void", 0)
    rep.extra["explained_by"] = explained
    # spec -> code comparison against the TLC behaviour itself (design layer: DRIFT only)
    byid = {str(t["id"]): t for t in traces}
    ndrift = 0
    for cid, e in expect.items():
        t = byid.get(cid)
        if t is None:
            continue
        want = [{"ss": {"session": SESS[o["ss"]["session"]], "level": o["ss"]["level"]},
                 "rep": list(bytes.fromhex(conc_rsp(h[0], o["rep"], e["fl"]) or "")), "cur": o["cur"]}
                for h, o in zip(e["hist"], e["obs"])]
        if want != t["obs"]:
            ndrift += 1
            if ndrift <= 5:
                rep.drift.append({"id": cid, "design": "TLC behaviour vs code", "want": want, "got": t["obs"]})
    rep.extra["spec_to_code_compared"] = len(expect)
    rep.extra["spec_to_code_drift"] = ndrift
    rep.extra["kinds"] = {k: sum(1 for t in traces if t["kind"] == k) for k in ("iso", "pop")}
    storage_report(rep, traces)
    for t in traces[:1] + [t for t in traces if t["kind"] == "pop"][:2] + traces[-2:]:
        rep.sample(replay_summary(t) | {"verdict": verdicts[str(t["id"])]})
    rep.exhaustive = True
    rep.extra["exhaustive_space"] = (f"all histories of the abstract alphabet (24 request/reply symbols) up to length "
                                     f"{2 if tier == 'quick' else 3} executed on the real objects; model checking "
                                     f"exhaustive up to length {3 if tier == 'quick' else 4}")
    # ---- 6. binding self-tests
    selftest(rep, traces, verdicts)
    # ---- 7. join the model checking
    model_check_finish(rep, *mc)
    return rep


def selftest(rep: Report, traces: list[dict[str, Any]], verdicts: dict[str, list[Any]]) -> None:
    good = [t for t in traces if verdicts[str(t["id"])][0] == "ok" and verdicts[str(t["id"])][1] == "checked"
            and len(t["obs"]) >= 2 and any(o["rep"] for o in t["obs"])]
    if not good:
        raise Machinery("no accepted replay with a reply to run the binding self-test on")
    t = good[0]
    k = next(i for i, o in enumerate(t["obs"]) if o["rep"])
    c1 = json.loads(json.dumps(t)); c1["id"] = "c1"; c1["obs"][k]["rep"][-1] ^= 0x01            # one reply byte
    c2 = json.loads(json.dumps(t)); c2["id"] = "c2"; c2["obs"][1]["ss"]["session"] += 1         # server state
    c3 = json.loads(json.dumps(t)); c3["id"] = "c3"; c3["obs"][k]["rep"] = []                   # silence
    c4 = json.loads(json.dumps(t)); c4["id"] = "c4"; c4["base"] = [o["rep"] for o in t["obs"]]
    c4["obs"][k]["rep"] = [0x7F, 0x22, 0x10]                                                     # depends on other runs
    # a mutant of the harness's own replay loop: a server that forgets its cursor between requests
    mut = L.run_case({"id": "mut", "second_pass": False, "mutant": "forget-cursor", "target": script_run(
        [[["Other", 1], ["pos", 1]], [["Other", 1], ["pos", 2]]], 0, "c12inproc://target", "tgt", TARGET_PROPS)})
    # a mutant of the harness's own replay: a virtual ECU that serves the main database file alone while the
    # recorded run is still in the write-ahead log (another DBHandler has the database open)
    wal = L.run_case({"id": "mutwal", "second_pass": False, "mutant": "main-file-only",
                      "storage": {"kind": "handler", "at": "before-target", "release": "end"},
                      "target": script_run([[["Other", 1], ["pos", 1]], [["Other", 1], ["pos", 2]]], 0,
                                           "c12inproc://target", "tgt", TARGET_PROPS),
                      "layout": {"before": [script_run([[["Other", 1], ["pos", 9]]], 0, "c12inproc://other1", "other",
                                                       OTHER_PROPS)],
                                 "after": [], "selectors": [{"ecu": "tgt", "props": None}]}})
    # (applicable where the recorded run really is outside the main file -- the harness measures that, see
    # L.storage_state; a gallia that checkpoints eagerly leaves nothing for this control to show)
    wal = [t for t in wal if "skip" not in t and t["info"]["storage"]["target_rows_outside_main_file"] > 0]
    v, _ = validate([c1, c2, c3, c4] + mut + wal)
    got = {i: v[i][0] for i in ["c1", "c2", "c3", "c4", "mut"] + [t["id"] for t in wal]}
    if any(x == "ok" for x in got.values()) or not got["c2"].startswith("Y0") or not got["c4"].startswith("Y2") \
            or not all(got[t["id"]].startswith("Y1") for t in wal):
        raise Machinery(f"binding self-test: corrupted replays accepted or mislabelled: {got}")
    if not wal:
        got["mutwal"] = "n/a: the recorded run was in the main database file"
    rep.extra["binding_selftest"] = got


def replay(path: str) -> int:
    quiet_gallia_logging()
    data = json.loads(open(path).read())
    bad = 0
    for v in data["violations"]:
        d = v["detail"]
        if d.get("case") is None:
            print(f"design-layer violation {v['clause']}: re-run the check")
            bad += 1
            continue
        alltr = L.run_case(d["case"])
        for t in alltr:
            if "skip" in t or t.get("info", {}).get("wire_mismatch"):
                print(f"replay id={t['id']}: the database does not hold what the ECU answered "
                      f"({t.get('skip') or t['info']['wire_mismatch']})")
                bad += 1
        traces = [t for t in alltr if "skip" not in t and not t.get("info", {}).get("wire_mismatch")]
        verdicts, _ = validate(traces) if traces else ({}, None)
        for t in traces:
            vv = verdicts[str(t["id"])]
            print(f"replay id={t['id']} selector={sel_kind(t['sel'])} verdict={vv[0]} at={vv[2]} explained_by={vv[3]}")
            bad += vv[0] != "ok"
    if bad:
        print(f"VIOLATION property=C12 replay={path}")
        return 1
    return 0
