"""C17 — log records written by a run are read back exactly, in any navigation mode.

spec   : spec/PenlogContract.tla (contract: Filter/Forward/Reverse/Head/Tail, clauses P1-P5)
         spec/Penlog.tla (design: PenlogReader with the lazily built offset table; Dev_S24/S25/S26)
MC     : MC_Penlog_{quick,full,ops3,live}.cfg exhaustive; devS24/devS25/devS26/devS26e negative controls
binding: writer = real add_zst_log_handler/_JSONFormatter/remove_zst_log_handler,
         reader = real PenlogReader (fresh and used) and the hr entry point, containers
         .zst/.gz/plain/stdin, with/without "<prio>" prefix; .zst of several frames (logs of several
         runs joined with cat, re-framed logs) and .gz of several members;
         code->spec: every session validated by Trace_Penlog (TLC);
         spec->code: TLC-simulated design behaviours replayed on real logs.
"""

from __future__ import annotations

import itertools
import json
import random
import time
from concurrent.futures import ThreadPoolExecutor
from pathlib import Path
from typing import Any

from harness import tlc
from harness.common import Machinery, Report, quiet_gallia_logging

ENUM_LEVELS = ("CRITICAL", "NOTICE", "TRACE")   # severities 2, 5, 8 = the model's three classes
THRESHOLDS = (1, 2, 5, 8)
DESIGN_ACTIONS = ["Open", "Call", "Start", "Fwd", "RevStart", "RevRead", "RevPrev", "RevLoop", "LenOp", "Return"]


def _first_ops(P: Any) -> list[dict[str, Any]]:
    """Operations that leave a reader in each kind of 'used' state (file position at the
    end / in the middle / at 0, table built or not, after a failed call)."""
    o = P.op
    return [o("fwd", 8, 0, 0), o("fwd", 5, 0, 1), o("head", 8, 1), o("head", 8, 2), o("head", 5, 1),
            o("rev", 8), o("len"), o("tail", 8, 1), o("tail", 8, 5), o("fwd", 8, 0, 5)]


def _probe_ops(P: Any) -> list[dict[str, Any]]:
    o = P.op
    return [o("len"), o("fwd", 8, 0, 1), o("tail", 8, 1), o("rev", 8), o("fwd", 5, 0, 0)]


def _sig(meta: dict[str, Any], trace: dict[str, Any], verdict: tuple[str, int, str, int]) -> dict[str, Any]:
    label, k, how, _ = verdict
    sig: dict[str, Any] = {"api": meta["api"], "how": how, "container": f"{meta['container']}/{meta['prefix']}",
                           "empty": meta["n"] == 0}
    if k >= 1 and k <= len(trace["ops"]) and not label.startswith("P1/text"):
        o = trace["ops"][k - 1]["op"]
        sig["mode"] = o["mode"]
        sig["fresh"] = k == 1
        if o["mode"] in ("head", "tail"):
            sig["short"] = o["n"] > meta["n"] if o["n"] >= 0 else "default-count"
        elif o["mode"] == "fwd":
            sig["short"] = o["off"] >= meta["n"] and o["off"] > 0
        res = trace["ops"][k - 1]["res"]
        if res["t"] == "Exc":
            sig["exc"] = res["cls"]
    else:
        sig["mode"] = "open" if label.startswith("P5") else "content"
        if trace["open"]["t"] == "Exc":
            sig["exc"] = trace["open"]["cls"]
    return sig


def _start_mc(tier: str, seed: int, pool: ThreadPoolExecutor) -> dict[str, Any]:
    """Start the model-checking runs, the negative controls and the two simulations (separate JVMs)."""
    futs: dict[str, Any] = {}
    # asiscov: the as-found machine (all deviations on) without the contract invariants: type
    # correctness, termination and coverage of the actions that exist only under Dev_S25
    mains = ["quick", "ops3", "live", "asiscov"] + (["full", "ops3full"] if tier == "thorough" else [])
    for c in mains + list(NEG_CONTROLS):
        futs[c] = pool.submit(tlc.run_tlc, "MC_Penlog", f"MC_Penlog_{c}.cfg", timeout=1800,
                              workers=1 if c in NEG_CONTROLS else 4,
                              coverage=(c in ("ops3", "asiscov")))
    nsim = 400 if tier == "quick" else 4000
    futs["sim"] = pool.submit(tlc.simulate_behaviours, "MC_Penlog", "MC_Penlog_sim.cfg", num=nsim, depth=80,
                              seed=seed + 17, timeout=900)
    futs["asis_sim"] = pool.submit(tlc.simulate_behaviours, "MC_Penlog", "MC_Penlog_asis_sim.cfg", num=nsim // 2,
                                   depth=80, seed=seed + 18, timeout=900)
    futs["_mains"] = mains
    return futs


NEG_CONTROLS: dict[str, tuple[str, ...] | None] = {
    "devS24": None, "devS25": ("P3_Reverse", "P3_EachRecordOnce"), "devS26": ("P3_Tail",), "devS26e": ("P5_Opens",)}


def _collect_mc(rep: Report, futs: dict[str, Any]) -> None:
    cover: dict[str, int] = {}
    for c in futs["_mains"]:
        res = futs[c].result()
        rep.add_tlc(res, f"MC_Penlog_{c}")
        for a, (n, _) in res.coverage.items():
            cover[a] = cover.get(a, 0) + n
        if not res.ok:
            rep.violate(f"design/{res.violated}", {"where": "Penlog design layer", "cfg": c},
                        {"cex": res.cex[-6:], "out": res.out[-1500:]})
    for c, want in NEG_CONTROLS.items():
        res = futs[c].result()
        rep.add_tlc(res, f"MC_Penlog_{c} (negative control)")
        for a, (n, _) in res.coverage.items():
            cover[a] = cover.get(a, 0) + n
        v = res.violated or ""
        if not (len(v) > 1 and v[0] == "P" and v[1] in "12345") or (want is not None and v not in want):
            raise Machinery(f"negative control {c} did not violate a contract clause (got {res.violated}): "
                            "the contract is vacuous for that deviation")
    never = [a for a in DESIGN_ACTIONS if cover.get(a, 0) == 0]
    if never:
        raise Machinery(f"design-layer actions never taken in the model-checking runs: {never}")
    rep.extra["design_action_coverage"] = {a: cover.get(a, 0) for a in DESIGN_ACTIONS}
    rep.extra["design_actions_all_taken"] = True


def _enum_logs(lmax: int) -> list[tuple[str, ...]]:
    return [t for n in range(lmax + 1) for t in itertools.product(ENUM_LEVELS, repeat=n)]


# run lengths of the enumerated JOINED logs (2..4 runs, each written by the real writer into its own file, the files
# concatenated byte-wise): a run that logged nothing at every position, total length <= the model's N
JOINED_RUNS = [(1, 1), (0, 1), (1, 0), (0, 0), (2, 1), (1, 2), (2, 2), (0, 2), (2, 0), (3, 1), (1, 3), (3, 2), (2, 3),
               (1, 1, 1), (1, 0, 1), (0, 1, 0), (0, 0, 1), (1, 0, 0), (2, 1, 2), (1, 2, 1), (1, 1, 2),
               (1, 1, 1, 1), (1, 0, 0, 1), (0, 1, 1, 0), (2, 1, 1, 1), (0, 0, 0, 0)]
JOINED_RUNS_THOROUGH = [(3, 3), (2, 2, 2), (4, 2), (1, 1, 2, 2), (0, 3, 0, 3)]


def _joined_family(P: Any, d: Path, batch: Any, meta: Any, rnd: random.Random, seed: int, quick: bool,
                   ops_all: list[dict[str, Any]], firsts: list[dict[str, Any]],
                   probes: list[dict[str, Any]]) -> dict[str, Any]:
    """Logs that consist of SEVERAL zstd frames / gzip members (P5: ".zst" and ".gz" input is whatever a valid file
    of that format holds): the logs of 2..4 runs joined with `cat`, and logs re-framed by other compressors.
    What has to be read back is what run 1 logged followed by what run 2 logged ... (P1-P4, reader and hr)."""
    o = P.op
    multi = P.MULTI_ZST + P.MULTI_GZ
    prefixes = ("all", "none", "mixed")
    stats = {"joined_logs": 0, "containers_with_2_or_more_frames": 0, "max_frames": 0, "sessions": 0}
    n_before = batch.n

    def note(c: Any) -> Any:
        stats["containers_with_2_or_more_frames"] += c.frames >= 2
        stats["max_frames"] = max(stats["max_frames"], c.frames)
        return c

    def derived(w: Any, kind: str, prefix: str) -> Any:
        """A container made from the DECODED log; None if the reference decoder cannot read what the writer under
        test wrote (the sessions on the writer's own files show that, there is nothing to re-frame then)."""
        try:
            return note(P.Container(w, kind, prefix, d))
        except Machinery:
            raise
        except Exception:  # noqa: BLE001
            stats["containers_skipped_log_not_decodable"] = stats.get("containers_skipped_log_not_decodable", 0) + 1
            return None

    # ---- enumerated: every operation of the model on the joined file, reduced operations on the re-framed ones
    shapes = JOINED_RUNS + ([] if quick else JOINED_RUNS_THOROUGH)
    rot = 0
    for si, runs in enumerate(shapes):
        for pat in ((0,) if quick and si % 2 else (0, 1)):
            j = 0
            parts = []
            for n in runs:
                lv = [ENUM_LEVELS[(j + k) % 3] if pat == 0 else ENUM_LEVELS[(2 * (j + k) + 2) % 3] for k in range(n)]
                parts.append(P.spec_enum(lv))
                j += n
            w = P.write_log(P.spec_joined(parts), d, f"j{si}_{pat}")
            stats["joined_logs"] += 1
            ln = w.n
            c0 = note(P.Container(w, "zst", "all", d))
            for op_ in ops_all:
                batch.add(w, P.run_reader_session(c0, [op_]), meta("reader", c0, "joined-runs-enum"))
            for f in firsts:
                batch.add(w, P.run_reader_session(c0, [f, *probes]), meta("reader", c0, "joined-runs-enum-probe"))
            hr_ops = [o("fwd", 8), o("rev", 8), o("head", 8, 1), o("head", 5, 3), o("tail", 8, 1), o("tail", 8, 3),
                      o("tail", 5, -1), o("rev", 5), o("fwd", -1)]
            if not quick:
                hr_ops += [o(m, p, n) for p in (5, 8, -1) for m in ("head", "tail") for n in (0, 1, 3, -1)]
            for op_ in hr_ops:
                batch.add(w, P.run_hr_session(c0, op_, argv=P.hr_argv(op_, rnd), content=ln <= 2),
                          meta("hr", c0, "joined-runs-enum-hr"))
            ops_multi = [o("len"), o("fwd", 8), o("fwd", 5), o("fwd", 8, 0, 1), o("fwd", 8, 0, max(ln - 1, 0)),
                         o("rev", 8), o("rev", 5), o("head", 8, 1), o("head", 8, ln + 1), o("tail", 8, 1),
                         o("tail", 8, ln + 1), o("tail", 5, 2), o("head", 2, 2)]
            kinds = multi if not quick else [multi[(rot + k) % len(multi)] for k in range(4)]
            rot += 4
            for ki, kind in enumerate(kinds):
                c = derived(w, kind, prefixes[(si + ki) % 3])
                if c is None:
                    continue
                for op_ in ops_multi:
                    batch.add(w, P.run_reader_session(c, [op_]), meta("reader", c, "multi-frame-enum"))
                for f in firsts[ki % 3::3]:
                    batch.add(w, P.run_reader_session(c, [f, *probes]), meta("reader", c, "multi-frame-enum-probe"))
                hr_multi = (o("fwd", 8), o("tail", 8, 2), o("rev", 5), o("head", 8, ln))
                for op_ in (hr_multi[(si + ki) % 4:][:1] if quick else hr_multi):
                    batch.add(w, P.run_hr_session(c, op_), meta("hr", c, "multi-frame-enum-hr"))

    # ---- seeded random runs with hostile content
    sizes = [(3, 4), (1, 1, 1, 1), (17, 0, 9), (40, 25), (0, 6), (6, 0), (2, 3, 4, 5)]
    if not quick:
        sizes += [(80, 150), (1, 40, 1), (9, 9, 9, 9), (150, 1)]
    for si, runs in enumerate(sizes):
        shape = "plain" if si == 2 else "mixed"
        w = P.write_log(P.spec_joined([P.spec_random(seed, 2000 + 10 * si + k, n, shape) for k, n in enumerate(runs)]),
                        d, f"jr{si}")
        stats["joined_logs"] += 1
        n, n1 = w.n, runs[0]
        cs = [("zst", "all"), ("zst", "none"), ("gz", "all")] + ([] if quick else [("plain", "mixed"), ("stdin-pipe", "all")])
        cs += [(kind, prefixes[(si + ki) % 3]) for ki, kind in enumerate(multi)]
        for ci, (kind, prefix) in enumerate(cs):
            c = note(P.Container(w, kind, prefix, d)) if ci == 0 else derived(w, kind, prefix)
            if c is None:
                continue
            full = ci == 0 or not quick          # the joined file itself: everything; the others: a reduced set
            origin = "joined-runs-random" if "+" not in kind else "multi-frame-random"
            m = meta("reader", c, origin)
            batch.add(w, P.run_reader_session(c, [o("fwd", 8)], content=True), m)
            sess: list[list[dict[str, Any]]] = [[o("len")]]
            sess += [[o("fwd", p)] for p in ((5, 3, 7) if full else (5,))]
            sess += [[o("rev", p)] for p in ((8, 4) if full else (8,))]
            counts = sorted({1, max(n1, 1), n1 + 1, max(n - n1, 1), max(n - 1, 0), n, n + 1} if full else
                            {1, n1 + 1, n + 1})
            sess += [[o(md, 8, k)] for md in ("head", "tail") for k in counts]
            sess += [[o("tail", 4, 2)], [o("head", 6, n1 + 1)]]
            sess += [[o("fwd", rnd.choice([8, 6, 3]), 0, k)]
                     for k in sorted({1, max(n1 - 1, 1), max(n1, 1), n1 + 1, max(n - 1, 1)} if full else
                                     {max(n1, 1), max(n - 1, 1)})]
            pool = sess[:]
            for _ in range(4 if full else 2):
                sess.append([rnd.choice(pool)[0] for _ in range(rnd.randint(2, 4))])
            for s_ in sess:
                batch.add(w, P.run_reader_session(c, s_), m)
            mh = meta("hr", c, origin + "-hr")
            hr_ops = (o("fwd", 8), o("rev", 8), o("fwd", -1), o("head", 8, n1 + 1), o("tail", 8, max(n - n1, 0) + 1),
                      o("tail", 8, -1), o("head", 6, -1), o("rev", 4))
            for op_ in (hr_ops if full else [hr_ops[(si + ci + k) % 8] for k in (0, 3)]):
                batch.add(w, P.run_hr_session(c, op_, argv=P.hr_argv(op_, rnd), content=True), mh)

    # ---- long runs: the first frames are larger than the block a decoder reads at once (the next frame does not
    #      start in the block the file starts in)
    runs = (2400, 2000, 40) if quick else (9000, 7000, 40, 5000)
    w = P.write_log(P.spec_joined([P.spec_random(seed, 2900 + k, n, "mixed") for k, n in enumerate(runs)]), d, "jbig")
    stats["joined_logs"] += 1
    first = (d / "jbig.run1.zst").stat().st_size
    stats["long_runs"] = {"records": list(runs), "first_frame_bytes": first, "file_bytes": w.zst.stat().st_size}
    vacuous = []
    if first <= P.zstandard.DECOMPRESSION_RECOMMENDED_INPUT_SIZE:
        vacuous.append(f"joined long runs: the first frame has only {first} bytes (fits one input block)")
    for kind, prefix in (("zst", "all"), ("zst+nosize@runs", "all"), ("gz+members@runs", "none"),
                         ("zst+pzstd@mid", "mixed")):
        c = note(P.Container(w, kind, prefix, d)) if kind == "zst" else derived(w, kind, prefix)
        if c is None:
            continue
        ops_big = [o("len"), o("fwd", 8), o("tail", 8, 50), o("fwd", 5, 0, runs[0] + 1), o("rev", 3)]
        for op_ in (ops_big if kind == "zst" else ops_big[:3]):
            batch.add(w, P.run_reader_session(c, [op_]), meta("reader", c, "joined-long-runs"))
        batch.add(w, P.run_hr_session(c, o("tail", 8, 3)), meta("hr", c, "joined-long-runs-hr"))
    stats["sessions"] = batch.n - n_before
    if stats["containers_with_2_or_more_frames"] < stats["joined_logs"]:
        raise Machinery(f"multi-frame family is vacuous: {stats}")
    # judged at the end: a tree whose writer loses records is a VIOLATION (from TLC), not a machinery failure
    stats["vacuous"] = vacuous
    return stats


def run(tier: str, seed: int) -> Report:
    quiet_gallia_logging()
    from harness import c17_penlog as P

    rep = Report("C17", tier, seed)
    rep.rule = ("executions = reader sessions (one PenlogReader object or one hr invocation, 1..5 operations) on logs "
                "written by gallia's real zstd/JSON log handler; enumerated: every log of length 0..L over 3 levels x "
                "every operation of the model (forward offset 0..N, tail 1..N, head 0..N, reverse, len; 4 thresholds) "
                "fresh and after each of 10 state-changing first operations, x containers zst/gz/plain/stdin-pipe/"
                "stdin-file x prefix all/none/mixed; plus seeded random logs (arbitrary Unicode, control characters, "
                "newlines, long lines, 7 levels, tags, exc_info, %-args; mutable %-arguments / message objects that the "
                "caller changes right after the call, writer keeping up or held up), hr argv combinations and TLC-simulated "
                "design behaviours; logs of 2..4 runs (each written by the real handler into its own file, runs that "
                "logged nothing included) joined byte-wise into ONE .zst, and containers made of several zstd frames / "
                "gzip members (frames without content size / with checksum, flush(FLUSH_FRAME) boundaries in the middle "
                "of a record, a frame per record, pzstd-style skippable frames, frames larger than a decoder's input "
                "block): the record sequence is what the runs logged, one after the other; distinct = distinct (log, container, prefix, api, operation sequence); "
                "non-trivial = log non-empty and (operation other than plain forward-all, or a used reader, or a "
                "container other than the writer's own file)")
    rep.assumptions = [
        "record identity: a record read back is named by the written record with equal (text, level name, tags, "
        "timestamp to the microsecond); for records logged with exc_info the trace text may sit in the message or in "
        "the stacktrace field (statement silent; counted as lenient match)",
        "the file log level is TRACE (everything a run logs reaches the file); record.created is set by a logging "
        "filter to a seeded clock, so no wall-clock value enters a trace",
        "hr output is named by the marker every generated message carries; text fidelity through hr is checked on a "
        "sample as containment of the message in the rendered output",
        "unspecified (all outcomes accepted, counted): forward offset >= len, tail 0, head/tail count-vs-filter order",
        "stdin containers redirect fd 0 of the harness process; hr is called in-process through gallia.cli.hr.main",
    ]
    # ---- 1. model checking of the design layer against the contract, negative controls
    #         (JVMs run while the real code is being driven below)
    d = P.workdir()
    pool = ThreadPoolExecutor(max_workers=5)
    try:
        futs = _start_mc(tier, seed, pool)
        return _drive(rep, tier, seed, P, d, futs)
    finally:
        pool.shutdown(wait=True, cancel_futures=True)
        P.cleanup(d)


def _drive(rep: Report, tier: str, seed: int, P: Any, d: Path, futs: dict[str, Any]) -> Report:
    quick = tier == "quick"
    phase: dict[str, Any] = {}
    t_phase = time.time()
    c_phase = time.process_time()

    def mark(name: str) -> None:
        nonlocal t_phase, c_phase
        phase[name] = {"wall": round(time.time() - t_phase, 1), "cpu_py": round(time.process_time() - c_phase, 1)}
        t_phase = time.time()
        c_phase = time.process_time()

    batch = P.Batch(chunk=5000 if quick else 12000, jobs=4 if quick else 6)
    rnd = random.Random(seed)
    lmax = 3 if quick else 4
    max_n = 5 if quick else 6
    ops_all = P.all_ops(max_n, THRESHOLDS)
    firsts = _first_ops(P)
    probes = _probe_ops(P)
    other_containers = [("gz", "all"), ("stdin-file", "all"), ("stdin-pipe", "all"), ("plain", "none"),
                        ("zst", "mixed")]
    if not quick:
        other_containers += [("plain", "all"), ("gz", "none"), ("zst", "none"), ("plain", "mixed"),
                             ("stdin-pipe", "none")]
    written: dict[tuple[str, ...], Any] = {}

    def get_enum(levels: tuple[str, ...]) -> Any:
        if levels not in written:
            written[levels] = P.write_log(P.spec_enum(levels), d, "e" + "".join(x[0] for x in levels) + f"_{len(levels)}")
        return written[levels]

    metas: dict[tuple[str, str, str, str], dict[str, Any]] = {}

    def meta(api: str, c: Any, origin: str) -> dict[str, Any]:
        k = (api, c.kind, c.prefix, origin)
        if k not in metas:
            metas[k] = {"api": api, "container": c.kind, "prefix": c.prefix, "origin": origin}
        return metas[k]

    # ---- 2a. exhaustive family
    # every operation of the model on a fresh reader of the writer's own .zst; (first, second) pairs on
    # the plain copy (the lazy offset table does not depend on the container); a reduced operation set
    # and probe sessions on the other containers; hr for every mode x threshold x count.
    ops_small = P.all_ops(max_n, (8,)) + [P.op("fwd", 1), P.op("fwd", 2), P.op("fwd", 5), P.op("fwd", 5, 0, 1),
                                          P.op("rev", 5), P.op("head", 5, 1), P.op("head", 2, 2),
                                          P.op("tail", 5, 1), P.op("tail", 2, 2)]
    full_pairs_upto = -1 if quick else 2          # all (first, second) pairs for logs up to this length
    for levels in _enum_logs(lmax):
        w = get_enum(levels)
        ln = len(levels)
        c0 = P.Container(w, "zst", "all", d)
        cp = P.Container(w, "plain", "all", d)
        for o in ops_all:
            batch.add(w, P.run_reader_session(c0, [o]), meta("reader", c0, "enum"))
        # forward reads during which len(reader) is asked for (fresh reader: the offset table is built then)
        for lenat in range(0, ln + 1):
            for p_, off in ((8, 0), (5, 0), (8, 1)):
                o = dict(P.op("fwd", p_, 0, off), lenat=lenat)
                batch.add(w, P.run_reader_session(c0, [o]), meta("reader", c0, "enum-len-during-read"))
                batch.add(w, P.run_reader_session(cp, [o, P.op("fwd", 8)]), meta("reader", cp, "enum-len-during-read"))
        for f in (ops_all if ln <= full_pairs_upto else firsts):
            for o in (ops_small if quick else ops_all):
                batch.add(w, P.run_reader_session(cp, [f, o]), meta("reader", cp, "enum2"))
        for f in firsts:
            if quick or ln > 3:
                batch.add(w, P.run_reader_session(c0, [f, *probes]), meta("reader", c0, "enum-probe"))
            else:
                for o in ops_small:
                    batch.add(w, P.run_reader_session(c0, [f, o]), meta("reader", c0, "enum2"))
        others = other_containers if (quick or ln <= 3) else other_containers[:5]
        for kind, prefix in others:
            c = P.Container(w, kind, prefix, d)
            for o in ops_small:
                batch.add(w, P.run_reader_session(c, [o]), meta("reader", c, "enum"))
            for f in firsts:
                batch.add(w, P.run_reader_session(c, [f, *probes]), meta("reader", c, "enum-probe"))
        # hr: every mode x threshold (and omitted) x count (and omitted)
        if quick:
            hr_p, hr_n = (5, 8, -1), (0, 1, 3, -1)
        elif ln <= 3:
            hr_p, hr_n = (*THRESHOLDS, -1), (0, 1, 2, 4, 6, -1)
        else:
            hr_p, hr_n = (5, 8), (1, 5, -1)
        for p in hr_p:
            hr_ops = [P.op("fwd", p), P.op("rev", p)]
            hr_ops += [P.op(m, p, n) for m in ("head", "tail") for n in hr_n]
            for o in hr_ops:
                batch.add(w, P.run_hr_session(c0, o, argv=P.hr_argv(o, rnd), content=ln <= 2),
                          meta("hr", c0, "enum-hr"))
        for kind, prefix in (others if ln <= 3 else ()):
            c = P.Container(w, kind, prefix, d)
            for o in (P.op("fwd", 5), P.op("rev", 8), P.op("head", 5, 1), P.op("tail", 8, 1))\
                    + (() if quick else (P.op("fwd", 8), P.op("tail", 2, 4))):
                batch.add(w, P.run_hr_session(c, o), meta("hr", c, "enum-hr"))
    rep.extra["enumerated"] = {"log_length": f"0..{lmax}", "levels": list(ENUM_LEVELS), "ops": len(ops_all),
                               "ops_reduced": len(ops_small), "first_ops": len(firsts),
                               "all_pairs_for_log_length_upto": full_pairs_upto,
                               "containers": 1 + len(other_containers)}

    mark("drive_enumerated")
    # ---- 2b. seeded random logs with hostile content
    sizes = [0, 1, 2, 3, 4, 6, 9, 17, 40] if quick else [0, 1, 1, 2, 2, 3, 3, 4, 5, 6, 7, 9, 12, 17, 25, 40, 80, 150]
    specs = [P.spec_random(seed, i, n) for i, n in enumerate(sizes * (1 if quick else 2))]
    specs.append(dict(P.spec_random(seed, 1000, 4, "long"), longlen=300_000 if quick else 3_000_000))
    specs.append(P.spec_random(seed, 1001, 1000 if quick else 6000, "plain"))
    kinds = [(k, "all") for k in P.CONTAINERS] + [("plain", "none"), ("gz", "mixed"), ("zst", "none")]
    # the log of ONE run re-framed by another compressor (pzstd: a frame per chunk; a gzip member per record)
    kinds += [("zst+pzstd@mid", "all"), ("gz+members@rec", "mixed")]
    for si, spec in enumerate(specs):
        w = P.write_log(spec, d, f"r{si}")
        n = w.n
        big = n > 200 or spec.get("shape") == "long"
        cs = kinds if not big else kinds[:5]
        for kind, prefix in cs:
            c = P.Container(w, kind, prefix, d)
            m = meta("reader", c, "random")
            batch.add(w, P.run_reader_session(c, [P.op("fwd", 8)], content=not big), m)
            sess: list[list[dict[str, Any]]] = []
            sess += [[P.op("fwd", p)] for p in range(9)]
            sess += [[P.op("rev", p)] for p in (8, 5, 3)]
            counts = sorted({0, 1, 2, max(n - 1, 0), n, n + 1, 2 * n + 5})
            sess += [[P.op(md, p, k)] for md in ("head", "tail") for p in (8, 4) for k in counts]
            sess += [[P.op("fwd", rnd.choice([8, 6, 3]), 0, k)] for k in sorted({1, max(n - 1, 1), n, n + 1})]
            sess += [[P.op("len")]]
            pool = sess[:]
            for _ in range(10 if not big else 4):
                sess.append([rnd.choice(pool)[0] for _ in range(rnd.randint(2, 4))])
            if big:
                sess = sess[::3]
            for s in sess:
                batch.add(w, P.run_reader_session(c, s), m)
            mh = meta("hr", c, "random-hr")
            hr_ops = [P.op("fwd", 8), P.op("fwd", rnd.choice([2, 3, 4, 5, 6, 7])), P.op("rev", 8), P.op("rev", 4),
                      P.op("fwd", -1), P.op("head", 8, 1), P.op("head", 6, n), P.op("head", 8, n + 3),
                      P.op("tail", 8, 1), P.op("tail", 6, n), P.op("tail", 8, n + 1), P.op("tail", 8, -1),
                      P.op("head", 7, -1), P.op("tail", 3, 2)]
            for o in (hr_ops if not big else hr_ops[:3]):
                batch.add(w, P.run_hr_session(c, o, argv=P.hr_argv(o, rnd), content=not big), mh)

    # a caller that re-uses one tag list object for many calls, result() records in between
    wshare = P.write_log(dict(P.spec_random(seed, 1003, 60, "plain"), share_tags=True), d, "share")
    cshare = P.Container(wshare, "zst", "all", d)
    for o in (P.op("fwd", 8), P.op("rev", 8), P.op("fwd", 5)):
        batch.add(wshare, P.run_reader_session(cshare, [o], content=True), meta("reader", cshare, "shared-tag-lists"))
    # a second compressed log of the same process is open for part of the run (and gets records of its own)
    for k, nrec in enumerate((40, 400)):
        wtwo = P.write_log(dict(P.spec_random(seed, 1004 + k, nrec, "plain"), other_log=True), d, f"two{k}")
        ctwo = P.Container(wtwo, "zst", "all", d)
        for o in (P.op("fwd", 8), P.op("rev", 8), P.op("len"), P.op("tail", 8, 3)):
            batch.add(wtwo, P.run_reader_session(ctwo, [o], content=True), meta("reader", ctwo, "two-logs-open"))
    # a long run whose writer thread is held up while the run keeps logging (slow / remote artifacts directory)
    wslow = P.write_log(dict(P.spec_random(seed, 1002, 15000 if quick else 80000, "plain"), slow_writer=True), d, "slow")
    cslow = P.Container(wslow, "zst", "all", d)
    for o in (P.op("fwd", 8), P.op("len"), P.op("tail", 8, 3)):
        batch.add(wslow, P.run_reader_session(cslow, [o]), meta("reader", cslow, "writer-held-up"))
    # a caller that logs mutable objects (findings list, receive buffer, state dict, status object, ring buffer) as
    # %-style arguments or as the message itself and changes them right after the call -- with the writer thread
    # keeping up and with the writer thread held up: what is read back is the text at the time of the call
    mut_stats: dict[str, Any] = {}
    for k, (nrec, slow) in enumerate(((12, False), (60, False), (60, True), (400, False), (400, True))
                                     + (() if quick else ((3000, False), (3000, True)))):
        sp = P.spec_random(seed, 1010 + k, nrec, "mutable")
        if slow:
            sp["slow_writer"] = True
        wmut = P.write_log(sp, d, f"mut{k}")
        if wmut.mut_changed == 0:
            raise Machinery("mutable-arguments family: no log call whose arguments rendered differently afterwards")
        mut_stats[f"{nrec}{'/writer-held-up' if slow else ''}"] = wmut.mut_changed
        for kind, prefix in (("zst", "all"), ("gz", "none")):
            cmut = P.Container(wmut, kind, prefix, d)
            for o in ((P.op("fwd", 8), P.op("rev", 8), P.op("fwd", 5), P.op("tail", 8, 7), P.op("len"))
                      if kind == "zst" else (P.op("fwd", 8),)):
                batch.add(wmut, P.run_reader_session(cmut, [o], content=nrec <= 400),
                          meta("reader", cmut, "mutable-args-changed-after-the-call"))
    rep.extra["mutable_args_calls_rendering_differently_afterwards"] = mut_stats
    mark("drive_random")
    # ---- 2c. logs of several runs joined with `cat`, containers made of several zstd frames / gzip members
    rep.extra["joined_runs_multi_frame"] = _joined_family(P, d, batch, meta, rnd, seed, quick, ops_all, firsts, probes)
    mark("drive_joined")
    # ---- 3. spec -> code: behaviours of the design layer (all deviations off) replayed on real logs
    _collect_mc(rep, futs)
    mark("wait_for_model_checking")
    _sres, behs = futs["sim"].result()
    _ares, abehs = futs["asis_sim"].result()
    sim_tids: list[tuple[int, list[dict[str, Any]], Any, Any]] = []
    agree_asis = [0, 0]
    for which, bs in (("design", behs), ("asis", abehs)):
        for b in bs:
            done = [st for _a, st in b if st.get("pc") == "done" and isinstance(st.get("op"), dict)]
            if not done or not isinstance(done[0].get("log"), list):
                continue
            levels = tuple(P.PRIO_TO_LEVEL[r["prio"]] for r in done[0]["log"])
            steps = [(st["op"], st["res"]) for st in done if st["op"]["mode"] != "open"]
            opened = [st["res"] for st in done if st["op"]["mode"] == "open"]
            w = get_enum(levels)
            c0 = P.Container(w, "zst", "all", d)
            got = P.run_reader_session(c0, [{k: o[k] for k in ("mode", "p", "n", "off")} for o, _ in steps])
            want_ops = [r for _o, r in steps]
            if which == "design":
                tid = batch.add(w, got, meta("reader", c0, "tlc-simulate"))
                want_all = (opened[:1] if opened else []) + want_ops
                got_all = [got["open"]] + [x["res"] for x in got["ops"]]
                sim_tids.append((tid, [{"design": a, "code": g} for a, g in zip(want_all, got_all) if a != g],
                                 w.spec, [x["op"] for x in got["ops"]]))
            else:
                agree_asis[1] += 1
                got_all = [got["open"]] + [x["res"] for x in got["ops"]]
                want_all = (opened[:1] if opened else []) + (want_ops if got["open"]["t"] == "Ok" else [])
                agree_asis[0] += want_all == got_all[:len(want_all)] and len(got_all) == len(want_all)
    rep.extra["simulated_behaviours"] = len(behs)
    rep.extra["asis_design_vs_code"] = {"behaviours": agree_asis[1], "identical": agree_asis[0],
                                        "note": "design layer with Dev_S24/S25/S26 TRUE compared with the tree under "
                                                "test (informational: identical on the unrepaired tree)"}

    mark("spec_to_code_replay")
    # ---- 4. code -> spec: TLC validates every session (chunks were streamed to TLC while driving)
    batch.finish()
    mark("tlc_trace_validation_tail")
    for res in batch.results:
        rep.add_tlc(res, "Trace_Penlog batch")
    rep.traces = batch.n
    rep.evaluations = batch.ops
    rep.nontrivial = set(batch.nontrivial)
    rep.extra["distinct_sessions"] = len(batch.keys)
    rep.extra["unspecified_operations"] = batch.unspecified
    rep.extra["content_pairs_compared_by_tlc"] = batch.content_pairs
    rep.extra["origins"] = batch.origins
    # drift: design layer and code disagree although the contract is satisfied
    drift = 0
    for tid, diffs, spec, ops in sim_tids:
        if diffs and batch.label(tid) == "ok":
            drift += 1
            rep.drift.append({"spec": spec, "ops": ops, "differences": diffs[:3]})
    rep.extra["spec_to_code_replayed"] = len(sim_tids)
    rep.extra["spec_to_code_drift"] = drift
    # violations, one per distinct signature (smallest case first), counts kept
    order = {"zst/all": 0}
    bad = sorted(batch.bad, key=lambda x: (order.get(f"{x[1]['container']}/{x[1]['prefix']}", 1), x[1]["n"],
                                           len(x[0]["ops"]), x[0]["id"]))
    counts: dict[str, int] = {}
    uniq: list[tuple[int, int, str, dict[str, Any], dict[str, Any]]] = []
    groups: dict[Any, int] = {}
    for t, m, v in bad:
        sig = _sig(m, t, v)
        k = v[0] + " " + json.dumps(sig, sort_keys=True)
        counts[k] = counts.get(k, 0) + 1
        if counts[k] > 1:
            continue
        failing = t["ops"][v[1] - 1] if 1 <= v[1] <= len(t["ops"]) else {"op": "open", "res": t["open"]}
        g = (v[0], sig.get("mode"), sig.get("how"), sig.get("fresh"), sig.get("api"))
        groups[g] = groups.get(g, 0) + 1
        uniq.append((groups[g], len(uniq), v[0], sig,
                     {"spec": m["spec"], "container": m["container"], "prefix": m["prefix"],
                      "api": m["api"], "argv": m.get("argv"), "ops": [o["op"] for o in t["ops"]],
                      "failing_op_index": v[1], "observed": failing["res"], "origin": m["origin"]}))
    # one representative of every kind of failure first (the report prints / stores only the first few)
    for _rank, _i, label, sig, detail in sorted(uniq, key=lambda u: (u[0], u[1])):
        rep.violate(label, sig, detail)
    rep.extra["violating_sessions"] = len(bad)
    if not bad and rep.extra["joined_runs_multi_frame"]["vacuous"]:
        raise Machinery("; ".join(rep.extra["joined_runs_multi_frame"]["vacuous"]))
    rep.extra["violation_counts"] = dict(sorted(counts.items(), key=lambda kv: -kv[1])[:40])
    for t, m, label in batch.samples[:: max(1, len(batch.samples) // 6)]:
        rep.sample({"log": [r["prio"] for r in m["log"]], "container": m["container"],
                    "prefix": m["prefix"], "api": m["api"], "argv": m.get("argv"),
                    "ops": [{"op": o["op"], "res": o["res"] if o["res"]["t"] != "Seq" else
                             {"t": "Seq", "ids": o["res"]["ids"][:8]}} for o in t["ops"][:3]],
                    "verdict": label})
    rep.exhaustive = True
    rep.extra["exhaustive_space"] = (
        f"logs of length 0..{lmax} over 3 levels x the {len(ops_all)} operations of the model on a fresh reader "
        "(writer's .zst); every (first, second) pair with first in "
        + ("the 10 state-changing operations, second in the reduced set (threshold 8 fully, 1/2/5 on one operation "
           "per mode)" if quick else
           "all operations for length <= 2 (the 10 state-changing ones for length 3..4), second in all operations")
        + " on the plain copy; reduced operations + probe sessions on the other containers; the random family "
          "and hr argv spellings are sampled")

    # ---- 5. binding self-tests
    _selftest(rep, P, d, batch, get_enum)
    mark("selftest")
    rep.extra["phase_wall_s"] = phase
    return rep


def _selftest(rep: Report, P: Any, d: Path, batch: Any, get_enum: Any) -> None:
    """(i) corrupted accepted traces must be rejected; (ii) mutants of a reader must be rejected."""
    t, tl, tc = batch.accepted_seq, batch.accepted_len, batch.accepted_content
    # when the tree under test is so broken that no session of a kind was accepted, the
    # self-test falls back to a hand-made session (checked below to be accepted itself)
    synthetic = []
    slog = [{"id": 1, "prio": 2}, {"id": 2, "prio": 8}, {"id": 3, "prio": 5}]
    if t is None:
        t = {"open": {"t": "Ok"}, "ops": [{"op": P.op("fwd", 5), "res": {"t": "Seq", "ids": [1, 3]}}], "content": [],
             "_log": slog}
        synthetic.append("seq")
    if tl is None:
        tl = {"open": {"t": "Ok"}, "ops": [{"op": P.op("len"), "res": {"t": "Len", "n": 3}}], "content": [], "_log": slog}
        synthetic.append("len")
    if tc is None:
        tc = {"open": {"t": "Ok"}, "ops": [], "content": [{"api": "reader", "w": [104, 105], "r": [104, 105]}],
              "_log": slog}
        synthetic.append("content")
    sb = P.Batch(chunk=10**9, jobs=1)
    labels = []
    m_self = {"api": "selftest", "container": "-", "prefix": "-", "origin": "selftest"}

    def corrupt(t0: dict[str, Any], fn: Any, label: str) -> None:
        t2 = json.loads(json.dumps({k: v for k, v in t0.items() if k != "_log"}))
        fn(t2)
        sb.add(t0["_log"], t2, m_self)
        labels.append(label)

    for base, name in ((t, "seq"), (tl, "len"), (tc, "content")):
        corrupt(base, lambda x: None, f"uncorrupted {name} session")
    corrupt(t, lambda x: x["ops"][-1]["res"]["ids"].reverse(), "order swapped")
    corrupt(t, lambda x: x["ops"][-1]["res"]["ids"].pop(), "last record dropped")
    corrupt(t, lambda x: x["ops"][-1]["res"]["ids"].append(x["ops"][-1]["res"]["ids"][0]), "record repeated")
    corrupt(t, lambda x: x["ops"][-1]["res"]["ids"].__setitem__(0, 10**6), "record content differs")
    corrupt(tl, lambda x: x["ops"][-1]["res"].__setitem__("n", x["ops"][-1]["res"]["n"] + 1), "len off by one")
    corrupt(tc, lambda x: x["content"][0]["w"].__setitem__(0, x["content"][0]["w"][0] + 1), "one code point changed")
    corrupt(t, lambda x: x.__setitem__("open", {"t": "Exc", "cls": "ValueError"}), "open failed")

    # (ii) hand-written mutants of the reader (Appendix B): strict '<' in the priority filter,
    # offset table off by one -- subclasses living in the harness, gallia is not edited
    from gallia.log import PenlogReader

    class StrictFilterReader(PenlogReader):
        def records(self, priority: Any = 8, offset: int = 0, reverse: bool = False) -> Any:
            return super().records(type(priority)(max(int(priority) - 1, 0)) if int(priority) > 0 else priority,
                                   offset, reverse)

    class OffByOneReader(PenlogReader):
        def _lookup_offset(self, index: int) -> int:
            return super()._lookup_offset(index + 1 if index > 0 else index)

    w = get_enum(("CRITICAL", "NOTICE", "TRACE"))
    c0 = P.Container(w, "zst", "all", d)
    m_mut = {"api": "mutant", "container": "zst", "prefix": "all", "origin": "selftest"}
    sb.add(w, P.run_reader_session(c0, [P.op("fwd", 5)], reader_cls=StrictFilterReader), m_mut)
    labels.append("mutant: '<' instead of '<=' in the priority filter")
    sb.add(w, P.run_reader_session(c0, [P.op("fwd", 8, 0, 1)], reader_cls=OffByOneReader), m_mut)
    labels.append("mutant: offset table off by one")
    sb.finish()
    rejected_base = [labels[i] for i in range(3) if sb.label(i) != "ok"]
    if rejected_base:
        raise Machinery(f"binding self-test: base sessions rejected by TLC: {rejected_base}")
    accepted = [labels[i] for i in range(3, len(labels)) if sb.label(i) == "ok"]
    if accepted:
        raise Machinery(f"binding self-test: corrupted traces / mutants accepted by TLC: {accepted}")
    rep.extra["binding_selftest"] = {labels[i]: sb.label(i) for i in range(len(labels))}
    rep.extra["binding_selftest_synthetic_bases"] = synthetic


def replay(path: str) -> int:
    quiet_gallia_logging()
    from harness import c17_penlog as P

    data = json.loads(open(path).read())
    d = P.workdir()
    bad = 0
    try:
        batch = P.Batch(chunk=10**9, jobs=1)
        rows = []
        for i, v in enumerate(data["violations"]):
            det = v["detail"]
            if "spec" not in det or det["spec"] is None:
                continue
            w = P.write_log(det["spec"], d, f"replay{i}")
            c = P.Container(w, det["container"], det["prefix"], d)
            if det["api"] == "hr":
                sess = P.run_hr_session(c, det["ops"][0], argv=det.get("argv"), content=True)
            else:
                sess = P.run_reader_session(c, det["ops"], content=True)
            tid = batch.add(w, sess, {"api": det["api"], "container": det["container"], "prefix": det["prefix"],
                                      "origin": "replay"})
            rows.append((tid, det, sess, w.n))
        if rows:
            batch.finish()
            verdicts = {t["id"]: v for t, _m, v in batch.bad}
            for tid, det, sess, n in rows:
                vd = verdicts.get(tid, ("ok", 0, "", 0))
                got = [o["res"] if o["res"]["t"] != "Seq" else o["res"]["ids"][:12] for o in sess["ops"]]
                print(f"replay api={det['api']} container={det['container']}/{det['prefix']} n={n} "
                      f"ops={[(o['mode'], o['p'], o['n'], o['off']) for o in det['ops']]} argv={det.get('argv')} "
                      f"open={sess['open']} results={got} verdict={vd[0]} op#{vd[1]} {vd[2]}")
                bad += vd[0] != "ok"
    finally:
        P.cleanup(d)
    if bad:
        print(f"VIOLATION property=C17 replay={path}")
        return 1
    return 0
