"""C08 — connection loss surfaces as a bounded-time error and the next attempt recovers.

spec   : spec/LossContract.tla (L1..L4 monitor), spec/Reconnect.tla (design: cut at any phase, peer restart,
         UDS client retry + transport reconnect; liveness Cut ~> ended)
binding: real tcp-lines / unix-lines / DoIP / HSFZ transports on in-memory streams under virtual time:
         every cut point of the canonical exchange (each byte offset of the peer's answer stream, before the
         request, after the answer) x cut kind {EOF, Reset, Silence} x with/without caller timeout x cut delay;
         end-to-end through the real UDSClient.request() with max_retry 0..2 and peer restart delays;
         TLC validates every trace against the contract.
"""

from __future__ import annotations

import asyncio
import binascii
import json
from typing import Any

from gallia.services.uds.core import service
from gallia.services.uds.core.client import UDSClient, UDSRequestConfig
from gallia.services.uds.core.exception import MissingResponse, UDSException

from harness import c06_doip as D
from harness import c07_hsfz as H
from harness import tlc, vloop
from harness.c06_doip import Recorder
from harness.common import Machinery, Report, quiet_gallia_logging
from harness.streams import Listener, Wire, patched_connections, settle

REQ = bytes.fromhex("221234")
REPLY = bytes.fromhex("62123411223344")
KINDS = ["EOF", "Reset", "Silence"]
TRANSPORTS = ["tcp-lines", "unix-lines", "doip", "hsfz"]
ACK = {"tcp-lines": 0, "unix-lines": 0, "doip": 2000, "hsfz": 1000}
WINDOW = {"tcp-lines": 100, "unix-lines": 100, "doip": 5000, "hsfz": 100}


def answer_stream(tk: str, req: bytes, reply: bytes) -> tuple[bytes, int]:
    """Bytes the peer sends in answer to `req`, and the offset at which the reply message is complete."""
    if tk in ("tcp-lines", "unix-lines"):
        s = binascii.hexlify(reply) + b"\n"
        return s, len(s)
    if tk == "doip":
        a = D.enc({"k": "Ack", "src": D.TGT, "dst": D.SRC, "code": 0, "d": list(req)})
        r = D.enc({"k": "Diag", "src": D.TGT, "dst": D.SRC, "d": list(reply)})
        return a + r, len(a) + len(r)
    a = H.enc({"k": "Ack", "src": H.TESTER, "dst": H.ECU, "d": list(req[:5])})
    r = H.enc({"k": "Data", "src": H.ECU, "dst": H.TESTER, "d": list(reply)})
    return a + r, len(a) + len(r)


def target(tk: str) -> str:
    if tk == "tcp-lines":
        return "tcp-lines://127.0.0.1:20162"
    if tk == "unix-lines":
        return "unix-lines:///run/fake-vecu.sock"
    if tk == "doip":
        return D.uri(act=0)
    return H.uri()


def transport_class(tk: str) -> Any:
    if tk == "tcp-lines":
        from gallia.transports.tcp import TCPLinesTransport
        return TCPLinesTransport
    if tk == "unix-lines":
        from gallia.transports.unix import UnixLinesTransport
        return UnixLinesTransport
    if tk == "doip":
        from gallia.transports.doip import DoIPTransport
        return DoIPTransport
    from gallia.transports.hsfz import HSFZTransport
    return HSFZTransport


class Peer:
    """Serves `req -> answer stream`; cuts the connection after `cut_at` bytes of the answer of the
    first connection (cut_at = -1: right after accepting, before any request)."""

    def __init__(self, rec: Recorder, tk: str, *, cut_at: int | None, kind: str, cut_delay_ms: int,
                 restart_ms: int | None, reply: bytes = REPLY, warm: int = 0, mute_handshake: int = 0) -> None:
        # mute_handshake: the rebooting gateway already accepts TCP but leaves the routing activation of the first
        # n reconnect attempts unanswered (DoIP only)
        self.mute_handshake = mute_handshake
        self.rec, self.tk, self.cut_at, self.kind = rec, tk, cut_at, kind
        self.warm = warm  # exchanges answered normally on the first connection before the one that is cut
        self.cut_delay_ms, self.restart_ms, self.reply = cut_delay_ms, restart_ms, reply
        self.listener = Listener()
        self.listener.on_accept = self._accepted
        self.nconn = 0
        self.did_cut = False
        self.bufs: dict[int, bytes] = {}

    def _accepted(self, w: Wire) -> None:
        self.nconn += 1
        n = self.nconn
        self.rec.add("Accepted")
        self.bufs[n] = b""
        w.on_out = lambda data, w=w, n=n: self._on_out(w, n, data)
        if n == 1:
            self.first = w

    def cut_before_request(self) -> None:
        """cut_at = -1: the connection is lost after it was established, before the first request"""
        if self.cut_at == -1:
            self._cut(self.first)

    def _requests(self, n: int) -> list[bytes]:
        """complete requests found in what connection n wrote so far"""
        buf = self.bufs[n]
        out: list[bytes] = []
        if self.tk in ("tcp-lines", "unix-lines"):
            while b"\n" in buf:
                ln, buf = buf.split(b"\n", 1)
                out.append(binascii.unhexlify(ln.strip()))
        elif self.tk == "doip":
            frames, buf = D.dec_out(buf)
            for f in frames:
                if f["k"] == "RoutingReq":
                    out.append(b"ROUTING")
                elif f["k"] == "Diag":
                    out.append(bytes(f["d"]))
        else:
            frames, buf = H.dec_out(buf)
            out += [bytes(f["d"]) for f in frames if f["k"] == "Data"]
        self.bufs[n] = buf
        return out

    def _on_out(self, w: Wire, n: int, data: bytes) -> None:
        self.bufs[n] += data
        for req in self._requests(n):
            if req == b"ROUTING":
                if n >= 2 and self.mute_handshake > 0:
                    self.mute_handshake -= 1
                    self.rec.add("Muted")
                    continue
                w.feed(D.enc({"k": "RoutingResp", "src": D.TGT, "dst": D.SRC, "code": 0x10, "d": []}))
                continue
            stream, complete_at = answer_stream(self.tk, req, self.reply)
            if n == 1 and self.did_cut:
                continue  # the lost connection stays lost (a silent peer does not answer on it any more)
            if n == 1 and self.warm > 0:
                self.warm -= 1
                if w.feed(stream):
                    self.rec.add("Msg", d=list(self.reply))
                continue
            if n == 1 and self.cut_at is not None and not self.did_cut:
                if self.cut_at >= 0:
                    if w.feed(stream[: self.cut_at]) or self.cut_at == 0:
                        if self.cut_at >= complete_at:
                            self.rec.add("Msg", d=list(self.reply))
                    if self.cut_delay_ms > 0:
                        asyncio.get_running_loop().call_later(self.cut_delay_ms / 1000, self._cut, w)
                    else:
                        self._cut(w)
                continue
            if w.feed(stream):
                self.rec.add("Msg", d=list(self.reply))

    def _cut(self, w: Wire) -> None:
        if self.did_cut:
            return
        self.did_cut = True
        self.rec.add("Cut", kind=self.kind)
        if self.kind == "EOF":
            w.eof()
        elif self.kind == "Reset":
            w.reset()
        if self.kind in ("EOF", "Reset"):
            self.listener.accepting = False
            if self.restart_ms is not None:
                if self.restart_ms <= 0:
                    self._restart()
                else:
                    asyncio.get_running_loop().call_later(self.restart_ms / 1000, self._restart)

    def _restart(self) -> None:
        self.listener.accepting = True
        self.rec.add("Restart")


def classify(e: BaseException) -> str:
    if isinstance(e, MissingResponse):
        return "Missing"
    if isinstance(e, TimeoutError):
        return "Timeout"
    if isinstance(e, (ConnectionError, asyncio.IncompleteReadError, EOFError)):
        return "ConnErr"
    if isinstance(e, OSError):
        return "ConnErr"
    return "Other"


async def op(rec: Recorder, name: str, tmo: float | None, coro: Any) -> tuple[str, Any]:
    rec.add("Begin", op=name, tmo=-1 if tmo is None else int(round(tmo * 1000)))
    res, d, val = "ok", [], None
    try:
        val = await coro
        if name == "read":
            d = list(val)
            if val == b"":
                res = "Empty"
        elif name in ("request", "request2"):
            d = list(val.pdu)
    except asyncio.CancelledError:
        rec.add("End", op=name, res="Hang", d=[])
        raise
    except vloop.Stuck:
        # the operation kept the event loop busy without ever suspending: it never ends (and freezes every other task)
        # (the scenario ends here: an exception raised asynchronously inside asyncio's own timeout bookkeeping can
        # leave stray timers behind, nothing after it would be trustworthy)
        rec.add("End", op=name, res="Hang", d=[])
        raise
    except BaseException as e:  # noqa: BLE001
        res = classify(e)
        if res == "Other":
            rec.ev.append({"e": "Note", "t": 0, "exc": repr(e)[:200]})
    rec.add("End", op=name, res=res, d=d)
    return res, val


def transport_case(tk: str, cut_at: int, kind: str, tmo: float | None, cut_delay_ms: int, warm: int = 0,
                   parked_reader: bool = False) -> dict[str, Any]:
    """parked_reader: another task of the caller is blocked in read() (no timeout) on the same transport while the
    judged write() with a caller timeout runs against the lost peer; only the write and the closes are judged."""
    rec = Recorder()

    async def main() -> None:
        peer = Peer(rec, tk, cut_at=cut_at, kind=kind, cut_delay_ms=cut_delay_ms, restart_ms=None, warm=warm)
        with patched_connections(peer.listener):
            tr = await transport_class(tk).connect(target(tk))
            await settle()
            for _ in range(warm):
                await op(rec, "write", 1.0, tr.write(REQ, timeout=1.0))
                await op(rec, "read", 1.0, tr.read(timeout=1.0))
            peer.cut_before_request()
            await settle()
            if parked_reader:
                parked = asyncio.ensure_future(tr.read(timeout=None))
                await settle()
                await op(rec, "write", tmo, tr.write(REQ, timeout=tmo))
                parked.cancel()
                try:
                    await parked
                except BaseException:  # noqa: BLE001
                    pass
            else:
                await op(rec, "write", tmo, tr.write(REQ, timeout=tmo))
                await op(rec, "read", tmo, tr.read(timeout=tmo))
                await op(rec, "read", tmo if tmo is not None else 0.5, tr.read(timeout=tmo if tmo is not None else 0.5))
            await op(rec, "close", None, tr.close())
            await op(rec, "close", None, tr.close())
        rec.add("Final")
        await settle()

    try:
        vloop.run(main(), horizon=120)
    except (TimeoutError, vloop.BlockedForever):
        # the operation in progress never ended
        last = next((e for e in reversed(rec.ev) if e["e"] in ("Begin", "End")), None)
        if last is not None and last["e"] == "Begin":
            rec.ev.append({"e": "End", "t": last["t"], "op": last["op"], "res": "Hang", "d": []})
        rec.ev.append({"e": "Final", "t": rec.ev[-1]["t"]})
    ev = [e for e in rec.ev if e["e"] != "Note"]
    notes = [e for e in rec.ev if e["e"] == "Note"]
    return {"cfg": {"ackTime": ACK[tk], "retries": 0, "expect": list(REPLY), "window": -1}, "ev": ev, "tk": tk,
            "cut_at": cut_at, "kind": kind, "tmo": tmo, "cut_delay": cut_delay_ms, "level": "transport", "notes": notes,
            "warm": warm, "parked_reader": parked_reader}


def reconnect_case(tk: str, kind: str, tmo: float, restart_ms: int | None) -> dict[str, Any]:
    """The caller's own transport.reconnect(timeout=tmo) after a loss, the peer accepting again after restart_ms;
    afterwards one exchange on the transport object reconnect() returned."""
    rec = Recorder()

    async def main() -> None:
        peer = Peer(rec, tk, cut_at=-1, kind=kind, cut_delay_ms=0, restart_ms=restart_ms, warm=0)
        with patched_connections(peer.listener):
            tr = await transport_class(tk).connect(target(tk))
            await settle()
            peer.cut_before_request()
            await settle()
            await op(rec, "write", 1.0, tr.write(REQ, timeout=1.0))
            await op(rec, "read", 1.0, tr.read(timeout=1.0))
            res, new = await op(rec, "reconnect", tmo, tr.reconnect(timeout=tmo))
            if res == "ok" and new is not None:
                tr = new
                await op(rec, "write", 1.0, tr.write(REQ, timeout=1.0))
                await op(rec, "read", 1.0, tr.read(timeout=1.0))
            await op(rec, "close", None, tr.close())
            await op(rec, "close", None, tr.close())
        rec.add("Final")
        await settle()

    try:
        vloop.run(main(), horizon=120)
    except (TimeoutError, vloop.BlockedForever):
        last = next((e for e in reversed(rec.ev) if e["e"] in ("Begin", "End")), None)
        if last is not None and last["e"] == "Begin":
            rec.ev.append({"e": "End", "t": last["t"], "op": last["op"], "res": "Hang", "d": []})
        rec.ev.append({"e": "Final", "t": rec.ev[-1]["t"]})
    ev = [e for e in rec.ev if e["e"] != "Note"]
    notes = [e for e in rec.ev if e["e"] == "Note"]
    return {"cfg": {"ackTime": ACK[tk], "retries": 0, "expect": list(REPLY), "window": -1}, "ev": ev, "tk": tk,
            "cut_at": -1, "kind": kind, "tmo": tmo, "restart": restart_ms, "level": "reconnect", "notes": notes}


def client_case(tk: str, cut_at: int, kind: str, retries: int, restart_ms: int | None, cut_delay_ms: int,
                warm: int = 0, follow_up: bool = False, via_config: bool = False, mute_handshake: int = 0,
                real_limit: float | None = 900.0) -> dict[str, Any]:
    """via_config: the retry budget is given per request (UDSRequestConfig.max_retry, as the scanners do) on a
    client whose own budget is 0, instead of through the constructor."""
    rec = Recorder()
    rcfg = UDSRequestConfig(max_retry=retries) if via_config else None

    async def main() -> None:
        peer = Peer(rec, tk, cut_at=cut_at, kind=kind, cut_delay_ms=cut_delay_ms, restart_ms=restart_ms, warm=warm,
                    mute_handshake=mute_handshake)
        with patched_connections(peer.listener):
            tr = await transport_class(tk).connect(target(tk))
            cl = UDSClient(tr, timeout=1.0, max_retry=0 if via_config else retries)
            await settle()
            for _ in range(warm):
                await op(rec, "request", 1.0, cl.request(service.ReadDataByIdentifierRequest(0x1234), rcfg))
            peer.cut_before_request()
            await settle()
            await op(rec, "request", 1.0, cl.request(service.ReadDataByIdentifierRequest(0x1234), rcfg))
            if follow_up:
                # "the next attempt recovers": a further request once the peer accepts connections again
                await asyncio.sleep(((restart_ms or 0) + 200) / 1000)
                await op(rec, "request2", 1.0, cl.request(service.ReadDataByIdentifierRequest(0x1234), rcfg))
            await op(rec, "close", None, cl.transport.close())
            await op(rec, "close", None, cl.transport.close())
        rec.add("Final")
        await settle()

    try:
        vloop.run(main(), horizon=600, real_limit=real_limit)
    except (TimeoutError, vloop.BlockedForever, vloop.Stuck):
        last = next((e for e in reversed(rec.ev) if e["e"] in ("Begin", "End")), None)
        if last is not None and last["e"] == "Begin":
            rec.ev.append({"e": "End", "t": last["t"], "op": last["op"], "res": "Hang", "d": []})
        rec.ev.append({"e": "Final", "t": rec.ev[-1]["t"]})
    ev = [e for e in rec.ev if e["e"] != "Note"]
    notes = [e for e in rec.ev if e["e"] == "Note"]
    window = WINDOW[tk] if kind in ("EOF", "Reset") else -1
    return {"cfg": {"ackTime": ACK[tk], "retries": retries, "expect": list(REPLY), "window": window}, "ev": ev,
            "tk": tk, "cut_at": cut_at, "kind": kind, "retries": retries, "restart": restart_ms,
            "cut_delay": cut_delay_ms, "level": "client", "notes": notes, "warm": warm, "follow_up": follow_up,
            "via_config": via_config, "mute_handshake": mute_handshake}


def validate(traces: list[dict[str, Any]]) -> tuple[dict[int, tuple[str, int]], list[Any]]:
    verdicts: dict[int, tuple[str, int]] = {}
    results = []
    CH = 4000
    for off in range(0, len(traces), CH):
        sub = {"traces": [{"id": off + i, "cfg": t["cfg"], "ev": t["ev"]} for i, t in enumerate(traces[off:off + CH])]}
        res = tlc.validate_batch("Trace_Loss", "Trace_Loss.cfg", sub, timeout=1800)
        results.append(res)
        for p in res.prints:
            if isinstance(p, list) and len(p) == 4 and p[0] == "V":
                verdicts[p[1]] = (p[2], p[3])
    missing = [i for i in range(len(traces)) if i not in verdicts]
    if missing:
        raise Machinery(f"Trace_Loss: no verdict for {len(missing)} traces:\n{results[-1].out[-3000:]}")
    return verdicts, results


def run(tier: str, seed: int) -> Report:
    quiet_gallia_logging()
    rep = Report("C08", tier, seed)
    rep.rule = ("executions = canonical write/read(/read)/close/close exchange of a real transport, and one real "
                "UDSClient.request(), against a peer that cuts the first connection after k bytes of its answer "
                "stream: every k (each frame boundary and each byte offset inside each frame, before the request, "
                "after the answer) x kind {EOF, Reset, Silence} x transport {tcp-lines, unix-lines, DoIP, HSFZ} x "
                "caller timeout {1 s, none} x cut delay {0, 100 ms}; client level: x max_retry {0,1,2} x restart delay; "
                "distinct = distinct event sequences; non-trivial = a cut happened before the exchange completed")
    rep.assumptions = [
        "in-memory streams: EOF = StreamReader.feed_eof(), reset = set_exception(ConnectionResetError) and drain() "
        "raising; refused connection = ConnectionRefusedError from open_connection",
        "L3 is judged for EOF/Reset when the peer accepts again within the client's reconnect window "
        "(line transports and HSFZ: one attempt after the 200 ms back-off; DoIP: 10 s of attempts); silence followed by "
        "recovery is left open (a timeout is retried without reconnect by design)",
        "reads without caller timeout against a silent peer are not run (blocking is the specified behaviour)",
    ]
    for c in ["r1", "r2"]:
        res = tlc.run_tlc("MC_Reconnect", f"MC_Reconnect_{c}.cfg", timeout=1800, coverage=(c == "r1"))
        rep.add_tlc(res, f"MC_Reconnect_{c}")
        if not res.ok:
            rep.violate(f"design/{res.violated}", {"where": "Reconnect design layer", "cfg": c}, {"cex": res.cex[-8:]})
    res = tlc.run_tlc("MC_Reconnect", "MC_Reconnect_devS15.cfg", timeout=600)
    rep.add_tlc(res, "MC_Reconnect_devS15 (negative control)")
    if res.ok:
        raise Machinery("negative control devS15 did not violate anything")

    traces: list[dict[str, Any]] = []
    seen: set[str] = set()

    def add(t: dict[str, Any]) -> None:
        key = json.dumps([t["tk"], t["cfg"], t["cut_at"], t["kind"], t.get("cut_delay"), t.get("restart"), t.get("warm"), t.get("follow_up"), t.get("via_config"), t.get("mute_handshake"), t.get("parked_reader"), t["ev"]])
        if key in seen:
            return
        seen.add(key)
        traces.append(t)

    for tk in TRANSPORTS:
        total = len(answer_stream(tk, REQ, REPLY)[0])
        offsets = [-1] + list(range(0, total + 1))
        for k in offsets:
            for kind in KINDS:
                for tmo in (1.0, None):
                    if tmo is None and kind == "Silence" and tk in ("tcp-lines", "unix-lines"):
                        continue
                    delays = (0, 50, 100, 900, 1100) if tier == "thorough" else ((0, 100) if k % 3 == 0 or k <= 1 else (0,))
                    for delay in delays:
                        if tmo is None and kind == "Silence":
                            # only the write is bounded by the protocol; the reads would block by specification
                            continue
                        add(transport_case(tk, k, kind, tmo, delay))
                        if (tier == "thorough" and delay in (0, 100)) or (k % 4 == 0 and delay == 0):
                            add(transport_case(tk, k, kind, tmo, delay, warm=1))  # loss in the SECOND exchange
        # a write with a caller timeout while another task of the caller is parked in read() on the silent peer
        for wt in (0.3, 0.5, 1.0, 2.5):
            add(transport_case(tk, -1, "Silence", wt, 0, parked_reader=True))
            add(transport_case(tk, 0, "Silence", wt, 0, warm=1, parked_reader=True))
        # the caller's own reconnect(timeout) with the peer coming back early / late in the window / not at all
        for kind in ("EOF", "Reset"):
            for tmo_r in (1.0, 3.0):
                for frac in ((0.0, 0.3, 0.63, 0.8) if tier == "quick" else (0.0, 0.1, 0.3, 0.5, 0.63, 0.8, 0.85)):
                    add(reconnect_case(tk, kind, tmo_r, int(tmo_r * 1000 * frac)))
                add(reconnect_case(tk, kind, tmo_r, None))
        # client level
        step = 1 if tier == "thorough" else 3
        for k in [-1] + list(range(0, total + 1, step)) + [total]:
            for kind in KINDS:
                for R in (0, 1, 2):
                    late = (7000, 9000) if tk == "doip" and (k % 6 == 0 or k <= 0) else ()  # late in DoIP's 10 s window
                    for restart in ((0, 50, 100, 150, 250, 1000, 3000, 5000, 7000, 9000, 11000, None) if tier == "thorough"
                                    else (0, 100, 3000) + late + (None,)):
                        if kind == "Silence" and restart not in (0,):
                            continue
                        add(client_case(tk, k, kind, R, restart, 0))
                        if R >= 1 and (tier == "thorough" or k % 6 == 0 or k <= 0):
                            add(client_case(tk, k, kind, R, restart, 0, via_config=True))
                        if tk == "doip" and R >= 1 and restart in (0, 100) and (tier == "thorough" or k % 6 == 0 or k <= 0):
                            add(client_case(tk, k, kind, R, restart, 0, mute_handshake=1))
                        if restart is not None and (tier == "thorough" or k % 6 == 0 or k <= 0):
                            add(client_case(tk, k, kind, R, restart, 0, follow_up=True))
                        if tier == "thorough":
                            add(client_case(tk, k, kind, R, restart, 100))
                            add(client_case(tk, k, kind, R, restart, 0, warm=1))
                        elif k % 6 == 0 and restart in (0, None):
                            add(client_case(tk, k, kind, R, restart, 0, warm=1))
        # late loss: the peer takes the request, stays silent PAST the client's timeout (1 s) and only then closes /
        # resets the connection; the request (its retries) and a follow-up request run into a connection that died
        # while nobody was reading.  real_limit: an operation that keeps the loop busy without suspending is a Hang.
        for kind in ("EOF", "Reset"):
            for delay in ((1100, 1500) if tier == "quick" else (1050, 1100, 1300, 1500, 2500, 4000)):
                for R in (0, 1, 2):
                    for restart in ((0,) if tier == "quick" else (0, 100, 3000)):
                        add(client_case(tk, 0, kind, R, restart, delay, follow_up=True, real_limit=10.0))
                        if tier == "thorough":
                            add(client_case(tk, 0, kind, R, restart, delay, warm=1, follow_up=True, real_limit=10.0))
    verdicts, results = validate(traces)
    for r in results:
        rep.add_tlc(r, "Trace_Loss batch")
    rep.traces = rep.evaluations = len(traces)
    for i, t in enumerate(traces):
        if any(e["e"] == "Cut" for e in t["ev"]):
            rep.nontrivial.add(i)
        v, idx = verdicts[i]
        if v != "ok":
            ev = t["ev"][idx - 1] if 0 < idx <= len(t["ev"]) else {}
            mid = "boundary" if t["cut_at"] in (-1, 0) else "inside"
            rep.violate(v, {"transport": t["tk"], "kind": t["kind"], "level": t["level"], "op": ev.get("op"),
                            "res": ev.get("res"), "caller_timeout": t.get("tmo") is not None if t["level"] == "transport" else True},
                        {k: t.get(k) for k in ("tk", "cut_at", "kind", "tmo", "retries", "restart", "cut_delay", "notes")}
                        | {"events": t["ev"][max(0, idx - 8): idx + 1], "where": mid})
    for t in traces[50:52] + traces[-2:]:
        rep.sample({"transport": t["tk"], "cut_at": t["cut_at"], "kind": t["kind"], "level": t["level"],
                    "events": [(e["e"], e["t"], e.get("op") or e.get("kind"), e.get("res")) for e in t["ev"]][:20]})
    rep.exhaustive = True
    rep.extra["by_transport"] = {tk: sum(1 for t in traces if t["tk"] == tk) for tk in TRANSPORTS}
    # binding self-test
    good = next((t for i, t in enumerate(traces) if verdicts[i][0] == "ok" and t["level"] == "transport" and
                 any(e["e"] == "End" and e["op"] == "read" and e["res"] == "ok" for e in t["ev"])), None)
    if good is None:
        raise Machinery("no accepted trace with a delivered message for the binding self-test")
    bad = json.loads(json.dumps(good))
    for e in bad["ev"]:
        if e["e"] == "End" and e["op"] == "read" and e["res"] == "ok":
            e["d"] = e["d"][:-1]
            break
    v2, _ = validate([bad])
    if v2[0][0] == "ok":
        raise Machinery("binding self-test: truncated message accepted")
    rep.extra["binding_selftest"] = v2[0][0]
    return rep


def replay(path: str) -> int:
    """Scenarios are deterministic functions of (tier, seed): re-run that enumeration against the current tree
    and report whether the recorded violation signatures still occur."""
    import json as _json

    from harness import common as _common

    data = _json.loads(open(path).read())
    rep = run(data.get("tier", "quick"), int(data.get("seed", 0)))
    want = {(v["clause"], _json.dumps(v["sig"], sort_keys=True)) for v in data.get("violations", [])}
    got = {(v.clause, _json.dumps(v.sig, sort_keys=True)) for v in rep.violations}
    still = want & got
    print(f"replay: {len(still)} of {len(want)} recorded violation signatures reproduce on the current tree")
    if still:
        print(f"VIOLATION property={rep.property_id} replay={path}")
        return 1
    return 0
