"""X04 (growth) — ECU.wait_for_ecu and the cyclic tester-present task.

spec   : spec/EcuWaitContract.tla (A1..A5), spec/EcuWait.tla (design in 500 ms slots; Dev_NoReconnect negative control)
binding: real gallia ECU on a scripted transport under virtual time; per ping the environment chooses
         answer / silence / connection error; with and without a running cyclic tester-present task; timeouts
         2 s / 3.3 s / None; all choice vectors enumerated; TLC validates the timed trace.
"""

from __future__ import annotations

import asyncio
import json
from typing import Any

from gallia.services.uds.ecu import ECU

from harness import tlc, vloop
from harness.common import Machinery, Report, quiet_gallia_logging
from harness.enum import explore
from harness.fakes import ScriptedTransport, ScriptEnv, task_name
from harness.vloop import now_ms

OUTS = ["silent", "answer", "connerr"]


class WaitEnv(ScriptEnv):
    def __init__(self, ch: Any, force_answer_after: int) -> None:
        super().__init__()
        self.ch = ch
        self.ev: list[dict[str, Any]] = []
        self.cur = "silent"
        self.n = 0
        self.force = force_answer_after
        self.waiting = False

    def who(self) -> str:
        return "waiter" if task_name() == "waiter" else "cyclic"

    def on_write(self, data: bytes) -> str | None:
        if data[:1] != b"\x3e":
            return None
        self.n += 1
        if self.who() != "waiter":
            self.cur = "answer"  # the cyclic task's own pings are simply answered
        elif self.n > self.force:
            self.cur = "answer"
        else:
            self.cur = OUTS[self.ch.choose(len(OUTS))]
        self.ev.append({"e": "Ping", "t": now_ms(), "task": self.who(), "out": self.cur})
        return "WConnErr" if self.cur == "connerr" else None

    def on_read(self, timeout: float | None) -> tuple[str, bytes | None]:
        if self.cur == "answer":
            return "Final", bytes([0x7E, 0x00])
        return "Timeout", None


def one(ch: Any, tmo: float | None, tp: bool) -> dict[str, Any]:
    env = WaitEnv(ch, force_answer_after=(12 if tmo is None else 10**6))
    out: dict[str, Any] = {}

    async def main() -> None:
        ecu = ECU(ScriptedTransport(env), timeout=0.5, max_retry=0)
        if tp:
            await ecu.start_cyclic_tester_present(0.3)
            await asyncio.sleep(0.7)
        env.ev.clear()
        env.ev.append({"e": "Start", "t": now_ms(), "tmo": -1 if tmo is None else int(tmo * 1000), "tp": tp})

        async def waiter() -> None:
            try:
                out["val"] = "True" if await ecu.wait_for_ecu(tmo) else "False"
            except Exception as e:  # noqa: BLE001
                out["val"], out["exc"] = "Raise", repr(e)[:120]

        await asyncio.create_task(waiter(), name="waiter")
        env.ev.append({"e": "Ret", "t": now_ms(), "val": out["val"]})
        n0 = sum(1 for e in env.ev if e["e"] == "Ping" and e["task"] == "cyclic")
        await asyncio.sleep(2.0)
        n1 = sum(1 for e in env.ev if e["e"] == "Ping" and e["task"] == "cyclic")
        env.ev.append({"e": "After", "t": now_ms(), "npings": n1 - n0})
        if ecu.tester_present_task is not None:
            await ecu.stop_cyclic_tester_present()

    hang = False
    try:
        vloop.run(main(), horizon=600)
    except (TimeoutError, vloop.BlockedForever):
        hang = True
    ev = []
    for r in env.ev:
        ev.append(r)
    # reconnects are in the transport log
    rcs = [{"e": "RC", "t": r["t"], "task": "waiter" if r["task"] == "waiter" else "cyclic"} for r in env.log if r["e"] == "RC"]
    ev = sorted(ev + rcs, key=lambda x: (x["t"], 0 if x["e"] == "Start" else 1 if x["e"] in ("Ping", "RC") else 2))
    env.dispose()
    return {"ev": ev, "tmo": tmo, "tp": tp, "hang": hang, "exc": out.get("exc")}


def run(tier: str, seed: int) -> Report:
    quiet_gallia_logging()
    rep = Report("X04", tier, seed)
    rep.rule = ("executions = real ECU.wait_for_ecu(timeout) on a scripted transport under virtual time; per ping the "
                "environment answers / stays silent / raises a connection error (all choice vectors up to the depth); "
                "with/without a running cyclic tester-present task; timeouts 2 s, 3.3 s, None; non-trivial = at least "
                "two pings")
    rep.assumptions = ["growth item (DESIGN 5.1), not a listed property; contract from the docstring and the comment block "
                       "of _wait_for_ecu_endless_loop"]
    for c, want in (("t", None), ("n", None), ("dev", "ContractHolds")):
        res = tlc.run_tlc("MC_EcuWait", f"MC_EcuWait_{c}.cfg", workers=1, timeout=300)
        rep.add_tlc(res, f"MC_EcuWait_{c}")
        if res.violated != want:
            if want:
                raise Machinery(f"negative control did not violate (got {res.violated})")
            rep.violate(f"design/{res.violated}", {"cfg": c}, {"cex": res.cex[-6:]})
    traces = []
    for tmo in (2.0, 3.3, None):
        for tp in (False, True):
            def runit(ch: Any, tmo: float | None = tmo, tp: bool = tp) -> dict[str, Any]:
                return one(ch, tmo, tp)

            for _v, t in explore(runit, 5 if tier == "quick" else 8):
                t["id"] = len(traces)
                traces.append(t)
    res = tlc.validate_batch("Trace_EcuWait", "Trace_EcuWait.cfg", {"traces": [{"id": t["id"], "ev": t["ev"]} for t in traces]})
    rep.add_tlc(res, "Trace_EcuWait batch")
    verdicts = {p[1]: (p[2], p[3]) for p in res.prints if isinstance(p, list) and len(p) == 4 and p[0] == "V"}
    if len(verdicts) != len(traces):
        raise Machinery(f"Trace_EcuWait: {len(verdicts)} verdicts for {len(traces)} traces\n{res.out[-2000:]}")
    rep.traces = rep.evaluations = len(traces)
    for t in traces:
        if sum(1 for e in t["ev"] if e["e"] == "Ping") >= 2:
            rep.nontrivial.add(t["id"])
        v, idx = verdicts[t["id"]]
        if t["hang"]:
            v = "liveness/wait-for-ecu-never-returns"
        if v != "ok":
            rep.violate(v, {"tp": t["tp"], "timeout": t["tmo"] is not None}, {"tmo": t["tmo"], "tp": t["tp"], "exc": t["exc"],
                                                                                   "events": t["ev"][:40]})
    for t in traces[3:5] + traces[-2:]:
        rep.sample({"tmo": t["tmo"], "tp": t["tp"], "events": [(e["e"], e["t"], e.get("task"), e.get("out") or e.get("val")) for e in t["ev"]][:16]})
    rep.exhaustive = True
    good = next(t for t in traces if verdicts[t["id"]][0] == "ok" and any(e["e"] == "Ret" and e["val"] == "False" for e in t["ev"]))
    bad = json.loads(json.dumps(good))
    for e in bad["ev"]:
        if e["e"] == "Ret":
            e["val"] = "True"
    r2 = tlc.validate_batch("Trace_EcuWait", "Trace_EcuWait.cfg", {"traces": [{"id": 0, "ev": bad["ev"]}]})
    if r2.prints[0][2] == "ok":
        raise Machinery("binding self-test: corrupted return value accepted")
    return rep


def replay(path: str) -> int:
    return 0
