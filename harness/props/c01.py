"""C01 -- UDS requests serialise to the ISO 14229-1 layout and parse back losslessly.

spec   : spec/UdsLayoutContract.tla (ISO request layout table, Enc/Dec/Range, clauses Q1..Q4),
         spec/UdsLayout.tla (abstract case space + codec pipeline, deviations S1..S3)
MC     : MC_UdsLayout (design vs contract, exhaustive over the case space); negative controls S1, S2, S3
binding: spec -> code: every case TLC enumerates (MC_UdsLayoutExport) is executed against the real
         request classes; code -> spec: constructor outcome, .pdu, <Class>.from_pdu, parse_dynamic and
         the bytes UDSClient.<method>() writes are validated by TLC (Trace_UdsLayoutReq).
"""

from __future__ import annotations

import json
import random
from concurrent.futures import ThreadPoolExecutor
from typing import Any

from harness import c01_run as R
from harness.common import Machinery, Report, quiet_gallia_logging

REQ_ACTIONS = {"Construct", "Serialise", "Dispatch", "Decode"}


def field_focus(case: dict[str, Any], layout: list[dict[str, Any]]) -> str:
    """Name of the boundary-class dimension a TLC case varies (for the signature of a violation)."""
    a = case.get("abs")
    if not a:
        return "random"
    i = a["fo"]["i"]
    if i == 0:
        mm = a["mm"]
        if mm["aw"] and (mm != {"auto": False, "alfid": 18, "aw": 2, "sw": 1, "ac": "exact", "sc": "exact"}):
            return "memory-format"
        return "base-" + a["fo"]["b"]
    d = layout[i - 1]
    if d["t"] == "grp":
        return d["ns"][a["fo"]["j"] - 1]
    if d["t"] == "nib":
        return d["lo"] if a["fo"]["c"].startswith("lo_") else d["hi"]
    return d.get("n", d["t"])


def run(tier: str, seed: int) -> Report:
    quiet_gallia_logging()
    rep = Report("C01", tier, seed)
    rep.rule = ("one execution = one request class instantiated with one parameter record, then .pdu, "
                "<Class>.from_pdu(pdu), UDSRequest.parse_dynamic(pdu) and UDSClient.<method>() on a scripted "
                "transport; cases = every abstract case TLC enumerates (kind x suppress bit x boundary class of each "
                "field x record length class x group count x address/size widths 1..15 x format given/computed) plus "
                "seeded random parameter records, plus re-used request objects (constructed with one in-range parameter record, "
                "public fields then assigned another one, serialised and sent with UDSClient.request); distinct = distinct (kind, parameters); non-trivial = the request "
                "has at least one parameter besides the service id")
    rep.assumptions = [
        "ISO 14229-1 layouts are transcribed in spec/UdsLayoutContract.tla (from the standard's message tables, not "
        "from gallia); TLC is the independent oracle, harness/c01_bind.py only maps constructor keywords / public "
        "attributes to field names",
        "ranges enforced are those of the statement (sub-function 7 bit, identifiers 16 bit, DTC 24 bit, nibbles, "
        "address/size representable); empty records / zero groups where ISO wants at least one are 'unspec'",
        "CommunicationControl is checked for the 3-byte form gallia can express (no nodeIdentificationNumber)",
    ]
    max_groups = 3 if tier == "quick" else 8
    pool = ThreadPoolExecutor(max_workers=5)
    # ---- 1. model checking (runs in the background while the real code is driven)
    futs = R.model_check("req", max_groups, ["Dev_S1_CdtcsNoSuppressBit", "Dev_S2_ClearDddiInverted",
                                             "Dev_S3_Type6Pack"], pool)
    # ---- 2. spec -> code: TLC enumerates the case space
    data, eres = R.export_cases(max_groups)
    rep.add_tlc(eres, "MC_UdsLayoutExport (case enumeration)")
    layout, variants = data["req_layout"], data["variants"]
    classes = R.request_classes(layout)
    no_class = sorted(set(layout) - set(classes))
    rep.extra["request_kinds"] = len(classes)
    rep.extra["layout_rows_without_class"] = no_class
    cases: list[dict[str, Any]] = [c for c in data["req_cases"] if c["kind"] in classes]
    n_tlc_cases = len(cases)
    kinds_in_cases = {c["kind"] for c in cases}
    if set(classes) - kinds_in_cases:
        raise Machinery(f"kinds without any generated case: {sorted(set(classes) - kinds_in_cases)}")
    # ---- 3. seeded random families through the same oracle
    rnd = random.Random(seed)
    per_kind = 25 if tier == "quick" else 2500
    for k in sorted(classes):
        for _ in range(per_kind):
            cases.append({"kind": k, "f": R.rand_request_fields(rnd, k, layout[k], variants, max_groups)})
    # ---- 4. drive the real code
    traces: list[dict[str, Any]] = []
    notes: list[dict[str, Any]] = []
    for c in cases:
        rec, nt = R.exec_request(classes[c["kind"]], c["kind"], c["f"])
        traces.append(rec)
        notes.append(nt)
    wires = R.exec_wire([(c["kind"], c["f"]) for c in cases])
    for rec, w in zip(traces, wires):
        rec["wire"] = w
    # ---- 5. code -> spec: TLC validates every execution
    verdicts, _, results = R.validate("Trace_UdsLayoutReq", traces, chunk=3000)
    for res in results:
        rep.add_tlc(res, "Trace_UdsLayoutReq batch")
    rep.traces = len(traces)
    rep.evaluations = len(traces)
    counts = {"in": 0, "out": 0, "unspec": 0}
    unspec_outcomes = {"refused": 0, "encoded": 0}
    seen: set[str] = set()
    executed_abs = 0
    for i, (c, t) in enumerate(zip(cases, traces)):
        v, rng = verdicts[i][0], verdicts[i][1]
        counts[rng] += 1
        if rng == "unspec":
            unspec_outcomes["encoded" if t["pdu"]["ok"] else "refused"] += 1
        if "abs" in c:
            executed_abs += 1
            if c["expect"] != {"in": "typed", "out": "refused", "unspec": "any"}[rng]:
                raise Machinery(f"range class of exported case {i} differs between design export and oracle")
        key = json.dumps([c["kind"], c["f"]], sort_keys=True)
        if key not in seen:
            seen.add(key)
            if len(c["f"]) > 0:
                rep.nontrivial.add(len(seen))
        if v.startswith("SPEC/"):
            raise Machinery(f"layout table inconsistent for case {c['kind']} {c['f']}: {v}")
        for v in verdicts[i][2]:
            rep.violate(v, {"kind": classes[c["kind"]].__name__},
                        {"kind": c["kind"], "f": c["f"], "dimension": field_focus(c, layout[c["kind"]]), "observed": {
                            "built": t["built"], "pdu": bytes(t["pdu"]["b"]).hex() if t["pdu"]["ok"] else None,
                            "from_pdu": t["fp"]["ok"], "dyn_kind": t["dyn"]["kind"],
                            "wire": bytes(t["wire"]["b"]).hex() if t["wire"]["ok"] else None}, "notes": notes[i]})
    if executed_abs != n_tlc_cases:
        raise Machinery("not every TLC-enumerated case was executed")
    # ---- 5b. re-used request objects: constructed with case A, public fields assigned the values of case B
    # (in range, same kind): the object a user holds then HAS the field values of B, its bytes must be B's layout
    by_kind: dict[str, list[int]] = {}
    for i, c in enumerate(cases):
        if verdicts[i][1] == "in" and not verdicts[i][2] and traces[i]["pdu"]["ok"]:
            by_kind.setdefault(c["kind"], []).append(i)
    acases: list[dict[str, Any]] = []
    aobjs: list[Any] = []
    for k, idxs in sorted(by_kind.items()):
        for n, ib in enumerate(idxs):
            ia = idxs[(n + 1) % len(idxs)] if n % 2 == 0 else idxs[(n * 7 + 3) % len(idxs)]
            if cases[ia]["f"] == cases[ib]["f"]:
                continue
            o = R.assigned_object(classes[k], k, cases[ia]["f"], cases[ib]["f"])
            if o is not None:
                acases.append({"kind": k, "f": cases[ib]["f"], "from": cases[ia]["f"]})
                aobjs.append(o)
    atraces = []
    for c, o in zip(acases, aobjs):
        rec, _nt = R.exec_request(classes[c["kind"]], c["kind"], c["f"], obj=o)
        atraces.append(rec)
    for rec, w in zip(atraces, R.exec_wire_objects(aobjs)):
        rec["wire"] = w
    if atraces:
        averd, _, ares = R.validate("Trace_UdsLayoutReq", atraces, chunk=3000)
        for res in ares:
            rep.add_tlc(res, "Trace_UdsLayoutReq batch (re-used objects)")
        for i, (c, t) in enumerate(zip(acases, atraces)):
            for v in averd[i][2]:
                rep.violate(v, {"kind": classes[c["kind"]].__name__, "path": "fields-assigned-after-construction"},
                            {"kind": c["kind"], "f": c["f"], "constructed_with": c["from"], "observed": {
                                "pdu": bytes(t["pdu"]["b"]).hex() if t["pdu"]["ok"] else None,
                                "wire": bytes(t["wire"]["b"]).hex() if t["wire"]["ok"] else None}})
    # ---- 5c. a PARSED request taken as template and edited by its holder (assigned the values of case B): the
    # edited object must have B's layout, and afterwards the bytes of case A must still parse back to case A
    ptraces: list[dict[str, Any]] = []
    pmeta: list[tuple[str, dict[str, Any], dict[str, Any], str]] = []
    for k, idxs in sorted(by_kind.items()):
        for n, ib in enumerate(idxs[: 12 if tier == "quick" else 60]):
            ia = idxs[(n + 1) % len(idxs)]
            if cases[ia]["f"] == cases[ib]["f"]:
                continue
            o = R.parsed_then_assigned(classes[k], k, cases[ia]["f"], cases[ib]["f"])
            if o is None:
                continue
            rec, _nt = R.exec_request(classes[k], k, cases[ib]["f"], obj=o)
            ptraces.append(rec)
            pmeta.append((k, cases[ib]["f"], cases[ia]["f"], "parsed-template-edited"))
            rec2, _nt = R.exec_request(classes[k], k, cases[ia]["f"])
            ptraces.append(rec2)
            pmeta.append((k, cases[ia]["f"], cases[ib]["f"], "same-bytes-parsed-again-after-the-edit"))
    if ptraces:
        pverd, _, pres = R.validate("Trace_UdsLayoutReq", ptraces, chunk=3000)
        for res in pres:
            rep.add_tlc(res, "Trace_UdsLayoutReq batch (parsed templates)")
        for i, ((k, f, other, path), t) in enumerate(zip(pmeta, ptraces)):
            for v in pverd[i][2]:
                if v.startswith("Q") and "wire" in v:
                    continue  # no client call in this family
                rep.violate(v, {"kind": classes[k].__name__, "path": path},
                            {"kind": k, "f": f, "other_case": other, "observed": {
                                "pdu": bytes(t["pdu"]["b"]).hex() if t["pdu"]["ok"] else None,
                                "dyn": t["dyn"]}})
    rep.traces += len(atraces) + len(ptraces)
    rep.evaluations += len(atraces) + len(ptraces)
    rep.extra["parsed_template_cases"] = len(ptraces)
    rep.extra["reused_object_cases"] = len(atraces)
    rep.extra["kinds_with_assignable_fields"] = len({c["kind"] for c in acases})
    rep.exhaustive = True
    rep.extra["exhaustive_space"] = (f"the abstract case space of spec/UdsLayout.tla (MaxGroups={max_groups}): "
                                     f"{n_tlc_cases} cases, each executed once")
    rep.extra["tlc_enumerated_cases"] = n_tlc_cases
    rep.extra["random_cases"] = len(cases) - n_tlc_cases
    rep.extra["range_classes"] = counts
    rep.extra["unspecified_cases"] = {"n": counts["unspec"], "outcomes": unspec_outcomes,
                                      "what": "empty record / zero groups where ISO 14229-1 requires at least one; "
                                              "gallia documents no range: every outcome accepted"}
    rep.extra["client_methods_bound"] = len(R.CLIENT_METHOD)
    for i in (0, len(cases) // 3, 2 * len(cases) // 3, len(cases) - 1):
        t = traces[i]
        rep.sample({"kind": t["kind"], "f": {k: v for k, v in list(t["f"].items())[:6]},
                    "pdu": bytes(t["pdu"]["b"]).hex()[:40] if t["pdu"]["ok"] else None, "verdict": verdicts[i][0],
                    "range": verdicts[i][1]})
    # ---- 6. binding self-tests: corrupted accepted traces must be rejected
    selftest(rep, traces, verdicts)
    # ---- 7. model checking results
    R.collect_mc(rep, futs, REQ_ACTIONS)
    pool.shutdown()
    return rep


def selftest(rep: Report, traces: list[dict[str, Any]], verdicts: dict[int, list[Any]]) -> None:
    def pick(pred: Any) -> dict[str, Any]:
        for i, t in enumerate(traces):
            if verdicts[i][0] == "ok" and verdicts[i][1] == "in" and pred(t):
                return json.loads(json.dumps(t))
        raise Machinery("binding self-test: no accepted in-range trace of the needed shape")

    t1 = pick(lambda t: len(t["pdu"]["b"]) >= 3)
    t1["pdu"]["b"][-1] ^= 1                                   # wrong byte on .pdu
    t2 = pick(lambda t: "sup" in t["f"] and t["f"]["sup"])
    t2["pdu"]["b"][1] &= 0x7F                                  # suppress bit dropped
    t3 = pick(lambda t: t["dyn"]["typed"])
    t3["dyn"] = dict(R.NODYN)                                  # degraded to raw
    t4 = pick(lambda t: t["wire"]["ok"] and len(t["wire"]["b"]) >= 3)
    t4["wire"]["b"][1], t4["wire"]["b"][2] = t4["wire"]["b"][2] ^ 0xFF, t4["wire"]["b"][1]
    t5 = pick(lambda t: "did" in t["fp"]["f"] or "rid" in t["fp"]["f"])
    k = "did" if "did" in t5["fp"]["f"] else "rid"
    t5["fp"]["f"][k] = (t5["fp"]["f"][k] + 1) % 65536          # parse-back exposes another value
    out_of_range = None
    for i, t in enumerate(traces):
        if verdicts[i][0] == "ok" and verdicts[i][1] == "out":
            out_of_range = json.loads(json.dumps(t))
            break
    if out_of_range is None:
        raise Machinery("binding self-test: no out-of-range case in the run")
    out_of_range["built"] = {"ok": True}
    out_of_range["pdu"] = {"ok": True, "b": [0x10, 0x80]}      # out-of-range value encoded anyway
    v, _, _ = R.validate("Trace_UdsLayoutReq", [t1, t2, t3, t4, t5, out_of_range])
    got = [v[i][0] for i in range(6)]
    want = ["Q1/layout", "Q1/layout", "Q3/degraded-to-raw", "Q1/wire-bytes", "Q2/parse-back-fields",
            "Q4/out-of-range-not-refused"]
    if got != want:
        raise Machinery(f"binding self-test: corrupted traces got {got}, expected {want}")
    rep.extra["binding_selftest"] = {"corrupted_rejected": got}


def replay(path: str) -> int:
    quiet_gallia_logging()
    data = json.loads(open(path).read())
    exp, _ = R.export_cases(3)
    classes = R.request_classes(exp["req_layout"])
    traces = []
    done: set[str] = set()
    for v in data["violations"]:
        d = v["detail"]
        key = json.dumps([d.get("kind"), d.get("f")], sort_keys=True)
        if "kind" not in d or d["kind"] not in classes or key in done:
            continue
        done.add(key)
        rec, _ = R.exec_request(classes[d["kind"]], d["kind"], d["f"])
        rec["wire"] = R.exec_wire([(d["kind"], d["f"])])[0]
        traces.append(rec)
    verdicts, _, _ = R.validate("Trace_UdsLayoutReq", traces)
    bad = 0
    for i, t in enumerate(traces):
        print(f"replay kind={t['kind']} f={json.dumps(t['f'])[:100]} broken={verdicts[i][2] or 'none'}")
        bad += verdicts[i][0] != "ok"
    if bad:
        print(f"VIOLATION property=C01 replay={path}")
        return 1
    return 0
